"""
C15: retention_timeout of async_background_batcher does not take effect with
the value given when the same event loop is used for a second round.

A result is documented to be kept for `retention_timeout` seconds.  The expiry
is implemented as a loop.call_later() timer, so it only happens when the loop
gets around to running that timer.  When the loop is used a second time
(loop.run_until_complete twice - the usage shown in the library's own
doctests) the first step of the new caller runs BEFORE the overdue expiry
timer, so the caller is served a result that expired long ago and the batch
function is not asked again.
"""
import asyncio as aio
import sys
import time

from aiuti.asyncio import async_background_batcher

RETENTION = 0.1
PAUSE = 0.6  # 6x the retention timeout

version = 0
calls = []


@async_background_batcher(retention_timeout=RETENTION, batch_timeout=0.01)
async def lookup(batch):
    """Look up the current version of each key (changes between calls)."""
    global version
    version += 1
    calls.append([k for k, _ in batch])
    for key, _ in batch:
        yield key, version


async def control():
    # Same pause but spent inside the running loop: the option works
    first = await lookup('ctl')
    await aio.sleep(PAUSE)
    second = await lookup('ctl')
    return first, second


loop = aio.new_event_loop()
aio.set_event_loop(loop)

ctl = loop.run_until_complete(control())
print("control (pause inside the loop): versions", ctl, "batches", calls)
assert ctl == (1, 2), ctl  # expired after 0.1s -> looked up again

calls.clear()
first = loop.run_until_complete(lookup('row'))
t_done = loop.time()
time.sleep(PAUSE)  # synchronous work between two uses of the loop
age = loop.time() - t_done
second = loop.run_until_complete(lookup('row'))
loop.close()

print(f"first={first} second={second} result age at 2nd call={age:.2f}s "
      f"retention_timeout={RETENTION}s batches={calls}")

if second == first and len(calls) == 1:
    print(
        f"VIOLATION: retention_timeout={RETENTION} was given, but a result "
        f"which was {age:.2f}s old ({age / RETENTION:.0f}x the timeout) was "
        f"served from the retention cache on the second use of the loop; "
        f"the batch function was not called again (batches: {calls}). "
        f"Expected: the result is kept for {RETENTION}s only, so the second "
        f"call is a new request (as in the control run, where the same "
        f"pause inside the loop gives versions {ctl})."
    )
    sys.exit(1)

print("OK: the expired result was looked up again")
sys.exit(0)
