"""C18: split() does not fix the truth value of a condition result when the
condition is evaluated; each output iterator re-derives truthiness later, at
its own pace, from the cached (tee'd) condition object.  With a truthy/falsy
non-bool condition value that is mutable, an element lands in BOTH outputs
(or in neither), so the outputs are not a partition."""
import sys
from aiuti.itertools import split

calls = []


def pending(queue):
    """Condition: the queue's pending items (non-bool: truthy iff non-empty)."""
    calls.append(id(queue))
    return queue


# --- scenario 1: element in both outputs -----------------------------------
q0, q1, q2 = [1, 2], [], [3]
queues = [q0, q1, q2]
busy, idle = split(iter(queues), pending)

seen_busy = []
for q in busy:              # consume the "truthy" side first, doing the work
    seen_busy.append(q)
    q.clear()               # drain the queue that was reported as non-empty
seen_idle = list(idle)      # then look at the "falsy" side

ids = lambda xs: [next(i for i, q in enumerate(queues) if q is x) for x in xs]
b, i = ids(seen_busy), ids(seen_idle)
once = len(calls) == 3      # condition really was evaluated once per element

# --- scenario 2: element in neither output (other consumption order) -------
r0, r1 = [], [7]
recs = [r0, r1]
full, empty = split(recs, lambda r: r)
first_empty = next(empty)   # r0 (falsy when evaluated); consumer fills it
first_empty.append(0)
# r0 was already delivered on the falsy side, so a partition must never
# deliver it again on the truthy side.
rest_full = list(full)
rest_empty = list(empty)
dup = any(x is r0 for x in rest_full)

bad1 = sorted(b + i) != [0, 1, 2]
if bad1 or dup:
    print("VIOLATION: split() outputs are not a partition: condition evaluated "
          "once per element=%s, truthy-side indices=%s, falsy-side indices=%s "
          "(expected [0, 2] and [1]: elements 0 and 2 had a truthy condition "
          "value when it was evaluated, yet also appear on the falsy side); "
          "scenario 2: element already delivered as falsy delivered again as "
          "truthy=%s" % (once, b, i, dup))
    sys.exit(1)
print("ok: partition respected", b, i)
sys.exit(0)
