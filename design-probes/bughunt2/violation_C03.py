"""
C03 violation demo: an argument handed to a buffer_until_timeout wrapper
via await_() from another thread (which runs its own event loop) is never
passed to the wrapped function, although the awaitable itself completes
successfully.

The awaitable is a perfectly healthy asyncio Future / Task that belongs to
the submitting thread's loop.  BufferAsyncCalls awaits it directly on its
own loop (aiuti/asyncio.py:_awaitable_to_aiter, `yield await o`), asyncio
refuses ("attached to a different loop"), _load_inputs swallows the
RuntimeError as if the producer had failed, and the argument is dropped.
"""
import asyncio as aio
import logging
import sys
import threading

from aiuti.asyncio import buffer_until_timeout

logging.disable(logging.CRITICAL)  # keep the output readable

received = []          # every set the wrapped function was called with
worker_results = {}    # what the submitted awaitables really produced


async def main() -> int:
    async def func(args):
        received.append(set(args))

    # Buffer owned by this (the main thread's) loop
    buffer = buffer_until_timeout(func, timeout=0.05)

    async def worker() -> None:
        loop_b = aio.get_running_loop()

        async def compute(x):
            await aio.sleep(0.3)
            return x

        # (1) a Future of the worker's loop, resolved a bit later
        fut = loop_b.create_future()
        loop_b.call_later(0.3, fut.set_result, 'future-of-loop-B')
        buffer.await_(fut)

        # (2) a Task of the worker's loop
        task = loop_b.create_task(compute('task-of-loop-B'))
        buffer.await_(task)

        # (3) control: a bare coroutine and a plain value from the same thread
        buffer.await_(compute('coroutine'))
        buffer('plain')

        # The awaitables are healthy: they complete without error in the
        # loop they belong to (recorded through done-callbacks)
        fut.add_done_callback(
            lambda f: worker_results.__setitem__('fut', f.result()))
        task.add_done_callback(
            lambda f: worker_results.__setitem__('task', f.result()))
        await aio.sleep(1)

    t = threading.Thread(target=lambda: aio.run(worker()))
    t.start()
    await aio.get_running_loop().run_in_executor(None, t.join)

    # Give the buffer far more than enough time (timeout is 0.05 s), and
    # flush it explicitly a few times for good measure.
    for _ in range(5):
        await aio.sleep(0.3)
        await buffer.wait()

    submitted = {'future-of-loop-B', 'task-of-loop-B', 'coroutine', 'plain'}
    delivered = set().union(*received) if received else set()
    missing = submitted - delivered
    print("awaitables completed in their own loop with:", worker_results)
    print("calls of the wrapped function:", received)
    if missing:
        print("VIOLATION: arguments submitted via await_() from another "
              "thread were never passed to the wrapped function: "
              f"{sorted(missing)} (delivered only {sorted(delivered)}); "
              "the property promises that every argument handed in via "
              "await_() from any thread eventually reaches a successful "
              "call, and the awaitables did not fail "
              f"(results: {worker_results})")
        return 1
    print("OK: everything delivered")
    return 0


if __name__ == '__main__':
    loop = aio.new_event_loop()
    aio.set_event_loop(loop)
    sys.exit(loop.run_until_complete(main()))
