"""
C11 violation demo: a call that arrives long after the retention window
still receives the old result and triggers no new computation.

Scenario (legal use, no cancellation, one key, retention_timeout small):
a synchronous application keeps one event loop and calls the decorated
batch function with ``loop.run_until_complete(...)`` whenever it needs a
value.  Eviction from the retention cache is done *only* by a
``loop.call_later`` timer, and the lookup in ``__call__`` never checks how
old a finished future is.  A timer can only fire while the loop is
running *and* only after the callbacks that are already ready - so the
first thing that runs in the second ``run_until_complete`` is the new
call, which still finds the expired future in the cache.
"""
import asyncio as aio
import sys
import time

from aiuti.asyncio import async_background_batcher

RETENTION = 0.05
GAP = 10 * RETENTION          # ten retention windows later

computations = []             # one entry per key per batch


@async_background_batcher(batch_timeout=0.01, retention_timeout=RETENTION)
async def lookup(batch):
    for key, arg in batch:
        computations.append(key)
        # the value changes with every computation, like a DB row would
        yield key, f"value#{len(computations)}"


def main() -> int:
    loop = aio.new_event_loop()
    try:
        t0 = time.monotonic()
        first = loop.run_until_complete(lookup(1))
        t_done = time.monotonic()

        time.sleep(GAP)       # the application does other (sync) things

        t_call = time.monotonic()
        second = loop.run_until_complete(lookup(1))

        # control: give the loop a chance to run its timers, then ask again
        loop.run_until_complete(aio.sleep(0))
        third = loop.run_until_complete(lookup(1))
    finally:
        loop.close()

    elapsed = t_call - t_done
    print(f"retention_timeout={RETENTION}s; first call answered after "
          f"{t_done - t0:.3f}s with {first!r}")
    print(f"second call issued {elapsed:.3f}s after the first completed "
          f"(= {elapsed / RETENTION:.1f} retention windows) -> {second!r}")
    print(f"third call (after one more loop iteration) -> {third!r}")
    print(f"computations performed: {computations}")

    if elapsed > RETENTION and second == first:
        print(
            "VIOLATION: C11 promises that a call arriving after the "
            f"retention window ({RETENTION}s) triggers a new computation and "
            "never receives the old result, but the call made "
            f"{elapsed:.3f}s after completion got the old result {second!r} "
            f"and no new batch was run (computations before the control "
            f"call: 1); the entry was only dropped once the loop got to run "
            f"its timer (third call -> {third!r})."
        )
        return 1
    print("OK: the late call was recomputed")
    return 0


if __name__ == '__main__':
    sys.exit(main())
