"""
C06 demo: a call to a threadsafe_async_cache function made in a forked child
process never ends (it is neither answered, nor failed by its own invocation,
nor cancelled) when the fork happened while some loop of the parent was
computing the same key.

Scenario (plain public API, Linux default multiprocessing start method):
  1. the parent hosts a background event loop (thread) that is computing
     slow(7) through the cache;
  2. meanwhile the main thread starts a multiprocessing worker (fork);
  3. the worker calls slow(7) on its own fresh loop.
The worker inherits the in-progress marker (loop A, event).  In the child the
copy of loop A still answers is_running() == True although no thread runs it,
so the marker is never invalidated: the worker proxies event.wait() onto the
dead loop copy, gives up after the 60 s safety timeout, loops around, finds the
very same marker "valid" again, and so on for ever.  Nobody computes the value
in the child, and the caller is delayed without bound - not "at most one
recomputation", and not even bounded by the 60 s safety window.
"""
import asyncio as aio
import multiprocessing as mp
import sys
import threading
import time

from aiuti.asyncio import threadsafe_async_cache

WINDOW = 60          # the library's safety timeout
OBSERVE = WINDOW + 6  # how long the child lets its call run

started = threading.Event()
calls = []


@threadsafe_async_cache
async def slow(x):
    calls.append(x)
    started.set()
    await aio.sleep(1.0)
    return x * x


def _closure(name):
    fn = slow
    return dict(zip(fn.__code__.co_freevars,
                    (c.cell_contents for c in fn.__closure__)))[name]


def child(q):
    # A brand-new loop in a brand-new process; nobody here computes slow(7).
    async def main():
        t0 = time.monotonic()
        # control: a fresh key is computed straight away
        assert await slow(3) == 9
        control = time.monotonic() - t0

        t0 = time.monotonic()
        try:
            val = await aio.wait_for(slow(7), OBSERVE)
            outcome = ('returned', val)
        except aio.TimeoutError:
            outcome = ('still pending', None)
        took = time.monotonic() - t0

        events = _closure('events')
        marker = [(loop.is_running(), loop.is_closed(), ev.is_set())
                  for loop, ev in events.values()]
        return control, outcome, took, marker, list(calls)

    q.put(aio.run(main()))


def main():
    ctx = mp.get_context('fork')   # the default start method on Linux / py3.12

    loop_a = aio.new_event_loop()
    th = threading.Thread(target=loop_a.run_forever, daemon=True)
    th.start()
    fut = aio.run_coroutine_threadsafe(slow(7), loop_a)
    assert started.wait(10)        # loop A is now inside the wrapped function

    q = ctx.Queue()
    p = ctx.Process(target=child, args=(q,))
    p.start()                      # fork while slow(7) is in flight

    assert fut.result(10) == 49    # the parent itself is perfectly fine
    control, outcome, took, marker, child_calls = q.get(timeout=OBSERVE + 30)
    p.join(10)
    loop_a.call_soon_threadsafe(loop_a.stop)
    th.join(10)

    print(f'child: control call slow(3) took {control:.3f}s')
    print(f'child: slow(7) -> {outcome[0]} after {took:.1f}s; wrapped function '
          f'invocations seen in child: {child_calls}')
    print(f'child: in-progress markers left (loop.is_running, loop.is_closed, '
          f'event.is_set): {marker}')

    if outcome[0] == 'still pending' and took > WINDOW:
        print('VIOLATION: a caller of a threadsafe_async_cache function in a '
              'forked worker was still pending after %.0fs (> the 60 s safety '
              'window) although nobody in its process was computing the key and '
              'the wrapped function takes 1 s; the inherited marker still looks '
              'valid (loop.is_running()=True in the child), so every further '
              '60 s round repeats: the call never returns, never raises and is '
              'not cancelled. The property promises that a call ends in one of '
              'three ways and is never delayed beyond a recomputation.' % took)
        return 1
    print('no violation observed')
    return 0


if __name__ == '__main__':
    sys.exit(main())
