"""
C08 violation demo: a submission that lands while the event loop is busy
across the timer's deadline is left out of the call, and the call is made
less than `timeout` after that submission.

Timeline (timeout T = 0.5 s, everything happens on the buffer's own loop,
plain calls only, no wait()/forced flush, the function never fails):

  t=0.00  buffer(1)                      -> timer armed, deadline 0.50
  t=0.40  buffer(2)                      -> 0.40 s after the first one (< T)
          ... the submitting coroutine keeps computing (synchronously)
          for 0.2 s, i.e. until t=0.60, before it yields to the loop ...
  t=0.60  loop gets control back: the queued put of 2 runs, then the
          (overdue) timer callback runs in the same loop iteration.

Promised: one call with {1, 2} starting T after the last submission (0.90).
Observed: func({1}) at ~0.60 (only 0.2 s after buffer(2)), func({2}) at ~1.10.
"""
import asyncio
import logging
import sys
import time

from aiuti.asyncio import buffer_until_timeout

logging.basicConfig(level=logging.ERROR)

T = 0.5
MARGIN = 0.1


def main() -> int:
    loop = asyncio.new_event_loop()
    asyncio.set_event_loop(loop)
    calls = []  # (start time relative to t0, sorted args)
    subs = []   # (time, arg)

    async def func(args):
        calls.append((loop.time() - t0, sorted(args)))

    buffer = buffer_until_timeout(func, timeout=T)
    t0 = loop.time()

    async def scenario():
        subs.append((loop.time() - t0, 1))
        buffer(1)
        await asyncio.sleep(0.4)
        subs.append((loop.time() - t0, 2))
        buffer(2)
        time.sleep(0.2)  # the producer goes on computing before yielding
        await asyncio.sleep(2.0)

    loop.run_until_complete(scenario())

    print("timeout      :", T)
    print("submissions  :", [(round(t, 3), a) for t, a in subs])
    print("calls        :", [(round(t, 3), a) for t, a in calls])

    last_sub = subs[-1][0]
    problems = []
    for start, args in calls:
        prior = [t for t, _ in subs if t <= start]
        if prior and start < max(prior) + T - MARGIN:
            problems.append(
                f"func({set(args)}) started at {start:.3f}s, only "
                f"{start - max(prior):.3f}s after the submission at "
                f"{max(prior):.3f}s (timeout={T})")
    if not any(set(args) == {1, 2} for _, args in calls):
        problems.append(
            "arguments 1 and 2 were submitted 0.4s apart (< timeout), both "
            "while the function was idle, but were not delivered together: "
            f"{[a for _, a in calls]}")
    if problems:
        print("VIOLATION: C08 promises a single call func({1, 2}) starting "
              f"at ~{last_sub + T:.2f}s (timeout after the last submission); "
              "observed: " + "; ".join(problems))
        return 1
    print("OK: single call with {1, 2}, timeout after the last submission")
    return 0


if __name__ == '__main__':
    sys.exit(main())
