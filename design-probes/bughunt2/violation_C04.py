"""
C04 demo: a yielded Exception instance whose class derives from
StopIteration is not raised to its caller - the caller *returns a value*.

The canonical batch function forwards per-item failures with
``except Exception as e: yield key, e``.  Here the per-item work fails with
an exception class that derives from StopIteration (e.g. a library's
"no more rows" error).  The property promises that the caller of that key
gets the exception raised; instead ``await batched(key)`` returns normally
with ``exc.value`` (None / args[0]).
"""
import asyncio as aio
import sys

from aiuti.asyncio import AsyncBackgroundBatcher


class NoMoreRows(StopIteration):
    """Some library's 'cursor exhausted' error (an Exception subclass)."""


def lookup(arg):
    if arg == 2:
        raise NoMoreRows("row 2 does not exist")
    return arg * 10


async def batch_func(batch):
    for key, arg in batch:
        try:
            value = lookup(arg)
        except Exception as e:      # documented way to report an item error
            yield key, e
        else:
            yield key, value


async def main():
    batched = AsyncBackgroundBatcher(batch_func, max_batch_size=3,
                                     batch_timeout=0.01)
    assert isinstance(NoMoreRows(), Exception)
    return await aio.wait_for(
        aio.gather(batched(1), batched(2), batched(3),
                   return_exceptions=True),
        10,
    )


res = aio.run(main())
print("outcomes for keys 1, 2, 3:", res)
ok = (res[0] == 10 and res[2] == 30 and isinstance(res[1], BaseException))
if ok:
    print("OK: the caller of key '2' got an exception:", repr(res[1]))
    sys.exit(0)
print("VIOLATION: the batch function yielded the Exception instance "
      "NoMoreRows('row 2 does not exist') for key '2', so the property "
      "promises that batched(2) raises; observed: batched(2) RETURNED the "
      f"value {res[1]!r} (no exception was raised to the caller)")
sys.exit(1)
