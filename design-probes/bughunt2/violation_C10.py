"""
C10 demo: AsyncBackgroundBatcher hands the batch function MORE than
max_batch_size items after max_batch_size was lowered on a running batcher
(the attribute is documented as "Can be safely mutated after initialization").

Scenario (no timing races: batch_timeout is 5 s, every step is 50 ms apart):
  1. batcher with max_batch_size=5, batch_timeout=5
  2. calls 1, 2, 3 arrive        -> open batch holds 3 items, waiting for more
  3. batcher.max_batch_size = 2  -> limit lowered while the batcher is running
  4. call 4 arrives (after the limit is already 2)
Expected by the property: no execution of the batch function ever gets more
than max_batch_size (= 2 from step 3 on) items.
Observed: call 4 is still appended to the already over-full open batch and the
batch function is invoked with 4 items while max_batch_size == 2.
"""
import asyncio as aio
import sys

from aiuti.asyncio import AsyncBackgroundBatcher


async def main() -> int:
    seen = []  # (items, max_batch_size at the moment the function is invoked)

    async def batch_func(batch):
        seen.append(([arg for _, arg in batch], batcher.max_batch_size))
        for key, arg in batch:
            yield key, arg

    batcher = AsyncBackgroundBatcher(
        batch_func, max_batch_size=5, max_concurrent_batches=2, batch_timeout=5,
    )

    callers = [aio.ensure_future(batcher(i)) for i in (1, 2, 3)]
    await aio.sleep(0.05)          # the three calls are queued / collected
    assert not seen, seen          # nothing handed out yet (batch not full)

    batcher.max_batch_size = 2     # documented as safely mutable
    await aio.sleep(0.05)          # the limit has been 2 for 50 ms now

    callers.append(aio.ensure_future(batcher(4)))   # arrives under limit 2
    await aio.wait_for(aio.gather(*callers), 20)

    bad = [(items, limit) for items, limit in seen if len(items) > limit]
    if bad:
        items, limit = bad[0]
        print(
            f"VIOLATION: batch function was given {len(items)} items {items} "
            f"while max_batch_size was {limit} (lowered from 5 to 2 before the "
            f"last item even arrived); the property promises it is never given "
            f"more than max_batch_size items, also when max_batch_size is "
            f"mutated while running. All invocations: {seen}"
        )
        return 1
    print("OK: every batch respected the current max_batch_size:", seen)
    return 0


if __name__ == '__main__':
    sys.exit(aio.run(main()))
