/-! Feasibility probe: toy single-key cache LTS with take-over, own-marker delete. -/
namespace Probe

inductive Pc
  | probe1 | lockAcq | probe2 | chk | put | rel (own : Bool) | invoke | awaiting
  | finAcq | finSet | finDel | finRel | waiting | done
  deriving DecidableEq, Repr

structure Caller where
  pc : Pc
  loop : Nat
  ev : Nat
  deriving Repr

structure State where
  lock : Option Nat
  cache : Bool
  marker : Option (Nat × Nat)
  alive : Nat → Bool
  cs : Nat → Caller
  nextEv : Nat

def upd (f : Nat → α) (a : Nat) (b : α) : Nat → α := fun x => if x = a then b else f x
@[simp] theorem upd_same (f : Nat → α) (a : Nat) (b : α) : upd f a b a = b := by simp [upd]
@[simp] theorem upd_other (f : Nat → α) (a x : Nat) (b : α) (h : x ≠ a) : upd f a b x = f x := by simp [upd, h]

def State.setPc (s : State) (c : Nat) (p : Pc) : State :=
  { s with cs := upd s.cs c { s.cs c with pc := p } }

inductive Label
  | step (c : Nat)          -- caller c takes its next atomic step
  | finish (c : Nat) (ok : Bool)  -- env: invocation of c ends
  | stop (l : Nat)          -- env: loop l stops (forever)

/-- One atomic step of caller `c` (only when its loop is alive). -/
def stepCaller (s : State) (c : Nat) : Option State :=
  let k := s.cs c
  if !s.alive k.loop then none else
  match k.pc with
  | .probe1 => some (if s.cache then s.setPc c .done else s.setPc c .lockAcq)
  | .lockAcq => if s.lock.isSome then none else some { s.setPc c .probe2 with lock := some c }
  | .probe2 => some (if s.cache then { s.setPc c .done with lock := none } else s.setPc c .chk)
  | .chk =>
    match s.marker with
    | some (l, e) =>
      if s.alive l then some { s with cs := upd s.cs c { k with pc := .rel false, ev := e } }
      else some (s.setPc c .put)
    | none => some (s.setPc c .put)
  | .put => some { s with marker := some (k.loop, s.nextEv), nextEv := s.nextEv + 1,
                          cs := upd s.cs c { k with pc := .rel true, ev := s.nextEv } }
  | .rel own => some { s.setPc c (if own then .invoke else .waiting) with lock := none }
  | .invoke => some (s.setPc c .awaiting)
  | .awaiting => none
  | .finAcq => if s.lock.isSome then none else some { s.setPc c .finSet with lock := some c }
  | .finSet => some (s.setPc c .finDel)
  | .finDel =>
    some { s.setPc c .finRel with
           marker := if s.marker = some (k.loop, k.ev) then none else s.marker }
  | .finRel => some { s.setPc c .done with lock := none }
  | .waiting => some (s.setPc c .probe1)
  | .done => none

def step (s : State) : Label → Option State
  | .step c => stepCaller s c
  | .finish c ok =>
    if (s.cs c).pc = .awaiting ∧ s.alive (s.cs c).loop then
      some { s.setPc c .finAcq with cache := s.cache || ok }
    else none
  | .stop l =>
    -- a loop can only stop while none of its callers holds the lock mid-step
    if (∀ c, s.lock = some c → (s.cs c).loop ≠ l) then some { s with alive := upd s.alive l false } else none


def Pc.computing : Pc → Bool
  | .invoke | .awaiting => true
  | _ => false
def Pc.owner : Pc → Bool
  | .rel true | .invoke | .awaiting | .finAcq | .finSet | .finDel => true
  | _ => false
def Pc.locked : Pc → Bool
  | .probe2 | .chk | .put | .rel _ | .finSet | .finDel | .finRel => true
  | _ => false

structure Inv (s : State) : Prop where
  evLt : ∀ c, (s.cs c).pc.owner → (s.cs c).ev < s.nextEv
  evInj : ∀ c d, (s.cs c).pc.owner → (s.cs d).pc.owner → (s.cs c).ev = (s.cs d).ev → c = d
  markLt : ∀ l e, s.marker = some (l, e) → e < s.nextEv
  own : ∀ c, (s.cs c).pc.owner → s.alive (s.cs c).loop → s.marker = some ((s.cs c).loop, (s.cs c).ev)
  lockIff : ∀ c, s.lock = some c ↔ (s.cs c).pc.locked
  putDead : ∀ c, (s.cs c).pc = .put → ∀ l e, s.marker = some (l, e) → s.alive l = false

theorem single_flight (s : State) (h : Inv s) (c d : Nat)
    (hc : (s.cs c).pc.computing) (hd : (s.cs d).pc.computing)
    (ac : s.alive (s.cs c).loop) (ad : s.alive (s.cs d).loop) : c = d := by
  have oc : (s.cs c).pc.owner := by revert hc; cases (s.cs c).pc <;> simp [Pc.computing, Pc.owner]
  have od : (s.cs d).pc.owner := by revert hd; cases (s.cs d).pc <;> simp [Pc.computing, Pc.owner]
  have m1 := h.own c oc ac
  have m2 := h.own d od ad
  exact h.evInj c d oc od (by grind)

theorem inv_step (s s' : State) (l : Label) (h : Inv s) (hs : step s l = some s') : Inv s' := by
  obtain ⟨h1, h2, h3, h4, h5, h6⟩ := h
  cases l with
  | step c =>
    simp only [step, stepCaller] at hs
    split at hs
    · simp at hs
    · rename_i hal
      generalize hk : (s.cs c).pc = k at hs
      cases k
      case rel own => 
        cases own <;> simp only [] at hs <;> simp only [Option.some.injEq] at hs <;> subst hs <;>
        refine ⟨?_, ?_, ?_, ?_, ?_, ?_⟩ <;>
        simp only [State.setPc, upd] <;> intros <;>
        grind [Pc.owner, Pc.locked]
      all_goals simp only [] at hs
      all_goals (try split at hs)
      all_goals (try split at hs)
      all_goals (try (simp only [reduceCtorEq, Option.some.injEq] at hs))
      all_goals (try subst hs)
      all_goals (try (exfalso; exact hs))
      all_goals
        refine ⟨?_, ?_, ?_, ?_, ?_, ?_⟩ <;>
        simp only [State.setPc, upd] <;> intros <;>
        grind [Pc.owner, Pc.locked]
  | finish c ok =>
    simp only [step] at hs
    split at hs
    · simp only [Option.some.injEq] at hs; subst hs
      refine ⟨?_, ?_, ?_, ?_, ?_, ?_⟩ <;>
        simp only [State.setPc, upd] <;> intros <;>
        grind [Pc.owner, Pc.locked]
    · simp at hs
  | stop l =>
    simp only [step] at hs
    split at hs
    · simp only [Option.some.injEq] at hs; subst hs
      refine ⟨?_, ?_, ?_, ?_, ?_, ?_⟩ <;>
        simp only [State.setPc, upd] <;> intros <;>
        grind [Pc.owner, Pc.locked]
    · simp at hs
end Probe
