/-! Probe 2: cache LTS with loop life-cycle, orphans, take-over, own-marker delete (post-F2). -/
namespace Cache2

def upd (f : Nat → α) (a : Nat) (b : α) : Nat → α := fun x => if x = a then b else f x

inductive LoopSt | fresh | running | stopped | shutting | closed
  deriving DecidableEq, Repr
def LoopSt.isRunning : LoopSt → Bool
  | .running | .shutting => true
  | _ => false
def LoopSt.wasStopped : LoopSt → Bool
  | .stopped | .shutting | .closed => true
  | _ => false

theorem LoopSt.wasStopped_of (st : LoopSt) (h1 : st.isRunning = false) (h2 : st ≠ .fresh) : st.wasStopped = true := by
  cases st <;> simp_all [LoopSt.isRunning, LoopSt.wasStopped]
theorem LoopSt.not_running_of_wasStopped (st : LoopSt) (h : st.wasStopped = true) : st ≠ .running := by
  cases st <;> simp_all [LoopSt.wasStopped]

inductive Outcome | ok (v : Nat) | raised (x : Nat) | cancelled
  deriving DecidableEq, Repr

inductive Pc
  | idle | probe1 | lockAcq | probe2 | chk | chkLoop | put | relOwn | relWait
  | invoke | awaiting | store (v : Nat) | finAcq (o : Outcome) | finSet (o : Outcome)
  | finDel (o : Outcome) | finRel (o : Outcome) | waiting | done
  deriving DecidableEq, Repr

def Pc.owner : Pc → Bool
  | .relOwn | .invoke | .awaiting | .store _ | .finAcq _ | .finSet _ | .finDel _ => true
  | _ => false
def Pc.locked : Pc → Bool
  | .probe2 | .chk | .chkLoop | .put | .relOwn | .relWait | .finSet _ | .finDel _ | .finRel _ => true
  | _ => false
def Pc.shutOk : Pc → Bool
  | .idle | .awaiting | .finAcq _ | .finSet _ | .finDel _ | .finRel _ | .done => true
  | _ => false
def Pc.orphanPc : Pc → Bool
  | .awaiting | .finAcq _ | .finSet _ | .finDel _ | .finRel _ | .done => true
  | _ => false
/-- suspended at an `await` (the loop may stop) or not on the thread at all -/
def Pc.parked : Pc → Bool
  | .idle | .awaiting | .waiting | .done => true
  | _ => false

theorem Pc.owner_parked (p : Pc) (h1 : p.owner = true) (h2 : p.parked = true) : p = .awaiting := by
  cases p <;> simp_all [Pc.owner, Pc.parked]

theorem Pc.shutOk_of_parked (p : Pc) (h1 : p.parked = true) (h2 : p ≠ .waiting) : p.shutOk = true := by
  cases p <;> simp_all [Pc.shutOk, Pc.parked]

structure Caller where
  pc : Pc
  key : Nat
  loop : Nat
  ev : Nat          -- event created (owner) or captured (waiter)
  evLoop : Nat      -- loop captured with the marker
  orphan : Bool
  deriving Repr

structure State where
  lock : Option Nat
  cache : Nat → Option Nat
  marker : Nat → Option (Nat × Nat)
  loops : Nat → LoopSt
  cs : Nat → Caller
  nextEv : Nat

def State.setPc (s : State) (c : Nat) (p : Pc) : State :=
  { s with cs := upd s.cs c { s.cs c with pc := p } }

inductive Label
  | call (c k l : Nat)
  | step (c : Nat)
  | iend (c : Nat) (o : Outcome)
  | loopStart (l : Nat) | loopStop (l : Nat) | shutdownBegin (l : Nat) | loopClose (l : Nat)

def stepCaller (s : State) (c : Nat) : Option State :=
  let k := s.cs c
  if !(s.loops k.loop).isRunning then none else
  match k.pc with
  | .probe1 => some (if (s.cache k.key).isSome then s.setPc c .done else s.setPc c .lockAcq)
  | .lockAcq => if s.lock.isSome then none else some { s.setPc c .probe2 with lock := some c }
  | .probe2 => some (if (s.cache k.key).isSome then { s.setPc c .done with lock := none } else s.setPc c .chk)
  | .chk =>
    match s.marker k.key with
    | some (l, e) => some { s with cs := upd s.cs c { k with pc := .chkLoop, ev := e, evLoop := l } }
    | none => some (s.setPc c .put)
  | .chkLoop => some (if (s.loops k.evLoop).isRunning then s.setPc c .relWait else s.setPc c .put)
  | .put => some { s with marker := upd s.marker k.key (some (k.loop, s.nextEv)), nextEv := s.nextEv + 1,
                          cs := upd s.cs c { k with pc := .relOwn, ev := s.nextEv } }
  | .relOwn => some { s.setPc c .invoke with lock := none }
  | .relWait => some { s.setPc c .waiting with lock := none }
  | .invoke => some (s.setPc c .awaiting)
  | .store v => some { s.setPc c (.finAcq (.ok v)) with cache := upd s.cache k.key (some v) }
  | .finAcq o => if s.lock.isSome then none else some { s.setPc c (.finSet o) with lock := some c }
  | .finSet o => some (s.setPc c (.finDel o))
  | .finDel o =>
    some { s.setPc c (.finRel o) with
           marker := if s.marker k.key = some (k.loop, k.ev) then upd s.marker k.key none else s.marker }
  | .finRel _ => some { s.setPc c .done with lock := none }
  | .waiting => some (s.setPc c .probe1)       -- any wake-up: re-probe (over-approximation)
  | .idle | .awaiting | .done => none

def allParked (s : State) (l : Nat) : Prop := ∀ c, (s.cs c).loop = l → (s.cs c).pc.parked
noncomputable instance (s : State) (l : Nat) : Decidable (allParked s l) := Classical.propDecidable _

noncomputable def step (s : State) : Label → Option State
  | .call c k l =>
    if (s.cs c).pc = .idle ∧ s.loops l = .running then
      some { s with cs := upd s.cs c { pc := .probe1, key := k, loop := l, ev := 0, evLoop := 0, orphan := false } }
    else none
  | .step c => stepCaller s c
  | .iend c o =>
    if (s.cs c).pc = .awaiting ∧ (s.loops (s.cs c).loop).isRunning ∧ ((s.cs c).orphan → o = .cancelled) then
      some (match o with
            | .ok v => s.setPc c (.store v)
            | o => s.setPc c (.finAcq o))
    else none
  | .loopStart l => if s.loops l = .fresh then some { s with loops := upd s.loops l .running } else none
  | .loopStop l =>
    if s.loops l = .running ∧ allParked s l then
      some { s with loops := upd s.loops l .stopped,
                    cs := fun c => if (s.cs c).loop = l ∧ (s.cs c).pc = .awaiting
                                   then { s.cs c with orphan := true } else s.cs c }
    else none
  | .shutdownBegin l =>
    if s.loops l = .stopped then
      some { s with loops := upd s.loops l .shutting,
                    cs := fun c => if (s.cs c).loop = l ∧ (s.cs c).pc = .waiting
                                   then { s.cs c with pc := .done } else s.cs c }
    else none
  | .loopClose l =>
    if (s.loops l = .stopped ∨ s.loops l = .shutting) ∧ allParked s l then
      some { s with loops := upd s.loops l .closed } else none

structure Inv (s : State) : Prop where
  evLt : ∀ c, (s.cs c).pc.owner → (s.cs c).ev < s.nextEv
  evInj : ∀ c d, (s.cs c).pc.owner → (s.cs d).pc.owner → (s.cs c).ev = (s.cs d).ev → c = d
  markLt : ∀ k l e, s.marker k = some (l, e) → e < s.nextEv
  markLoop : ∀ k l e, s.marker k = some (l, e) → s.loops l ≠ .fresh
  own : ∀ c, (s.cs c).pc.owner → (s.cs c).orphan = false → s.marker (s.cs c).key = some ((s.cs c).loop, (s.cs c).ev)
  ownRun : ∀ c, (s.cs c).pc.owner → (s.cs c).orphan = false → s.loops (s.cs c).loop = .running
  orphanAw : ∀ c, (s.cs c).orphan = true → (s.cs c).pc.orphanPc
  shutPc : ∀ c, s.loops (s.cs c).loop = .shutting → (s.cs c).pc.shutOk
  busyRun : ∀ c, (s.cs c).pc.parked = false → (s.loops (s.cs c).loop).isRunning
  lockIff : ∀ c, s.lock = some c ↔ (s.cs c).pc.locked
  putDead : ∀ c, (s.cs c).pc = .put → ∀ l e, s.marker (s.cs c).key = some (l, e) → (s.loops l).wasStopped
  chkLoopCap : ∀ c, (s.cs c).pc = .chkLoop → s.marker (s.cs c).key = some ((s.cs c).evLoop, (s.cs c).ev)

def live (s : State) (c : Nat) : Prop := (s.cs c).pc = .awaiting ∧ (s.cs c).orphan = false

theorem single_flight (s : State) (h : Inv s) (c d : Nat)
    (hc : live s c) (hd : live s d) (hk : (s.cs c).key = (s.cs d).key) : c = d := by
  obtain ⟨pc1, o1⟩ := hc
  obtain ⟨pc2, o2⟩ := hd
  have oc : (s.cs c).pc.owner := by rw [pc1]; rfl
  have od : (s.cs d).pc.owner := by rw [pc2]; rfl
  have m1 := h.own c oc o1
  have m2 := h.own d od o2
  exact h.evInj c d oc od (by grind)

macro "close_inv" : tactic => `(tactic|
  (refine ⟨?_, ?_, ?_, ?_, ?_, ?_, ?_, ?_, ?_, ?_, ?_, ?_⟩ <;>
   simp only [State.setPc, upd] <;> intros <;>
   grind (splits := 30) [Pc.owner, Pc.locked, Pc.parked, Pc.orphanPc, Pc.shutOk, LoopSt.isRunning, LoopSt.wasStopped, LoopSt.wasStopped_of, LoopSt.not_running_of_wasStopped, Pc.owner_parked, Pc.shutOk_of_parked]))

set_option maxHeartbeats 2000000 in
theorem inv_step_caller (s s' : State) (c : Nat) (h : Inv s) (hs : stepCaller s c = some s') : Inv s' := by
  obtain ⟨h1, h2, h3, h4, h5, h6, h7, h8, h9, h10, h11, h12⟩ := h
  simp only [stepCaller] at hs
  split at hs
  · simp at hs
  · rename_i hal
    generalize hk : (s.cs c).pc = k at hs
    cases k <;> simp only [] at hs
    all_goals (try split at hs)
    all_goals (try split at hs)
    all_goals (try (simp only [reduceCtorEq, Option.some.injEq] at hs))
    all_goals (try subst hs)
    all_goals (try (exfalso; exact hs))
    all_goals close_inv

set_option maxHeartbeats 2000000 in
theorem inv_step_env (s s' : State) (l : Label) (hl : ∀ c, l ≠ .step c) (h : Inv s) (hs : step s l = some s') : Inv s' := by
  obtain ⟨h1, h2, h3, h4, h5, h6, h7, h8, h9, h10, h11, h12⟩ := h
  cases l with
  | step c => exact absurd rfl (hl c)
  | call c k l =>
    simp only [step] at hs
    split at hs
    · simp only [Option.some.injEq] at hs; subst hs; close_inv
    · simp at hs
  | iend c o =>
    simp only [step] at hs
    split at hs
    · cases o <;> simp only [Option.some.injEq] at hs <;> subst hs <;> close_inv
    · simp at hs
  | loopStart l =>
    simp only [step] at hs
    split at hs
    · simp only [Option.some.injEq] at hs; subst hs; close_inv
    · simp at hs
  | loopStop l =>
    simp only [step] at hs
    split at hs
    · rename_i hg
      obtain ⟨hg1, hg2⟩ := hg
      simp only [allParked] at hg2
      simp only [Option.some.injEq] at hs; subst hs; close_inv
    · simp at hs
  | shutdownBegin l =>
    simp only [step] at hs
    split at hs
    · simp only [Option.some.injEq] at hs; subst hs; close_inv
    · simp at hs
  | loopClose l =>
    simp only [step] at hs
    split at hs
    · rename_i hg
      obtain ⟨hg1, hg2⟩ := hg
      simp only [allParked] at hg2
      simp only [Option.some.injEq] at hs; subst hs; close_inv
    · simp at hs

theorem inv_step (s s' : State) (l : Label) (h : Inv s) (hs : step s l = some s') : Inv s' := by
  cases l with
  | step c => exact inv_step_caller s s' c h (by simpa [step] using hs)
  | call c k l => exact inv_step_env s s' _ (by intro c; simp) h hs
  | iend c o => exact inv_step_env s s' _ (by intro c; simp) h hs
  | loopStart l => exact inv_step_env s s' _ (by intro c; simp) h hs
  | loopStop l => exact inv_step_env s s' _ (by intro c; simp) h hs
  | shutdownBegin l => exact inv_step_env s s' _ (by intro c; simp) h hs
  | loopClose l => exact inv_step_env s s' _ (by intro c; simp) h hs

def init : State :=
  { lock := none, cache := fun _ => none, marker := fun _ => none, loops := fun _ => .fresh,
    cs := fun _ => { pc := .idle, key := 0, loop := 0, ev := 0, evLoop := 0, orphan := false }, nextEv := 0 }

theorem inv_init : Inv init := by
  refine ⟨?_, ?_, ?_, ?_, ?_, ?_, ?_, ?_, ?_, ?_, ?_, ?_⟩ <;> simp [init, Pc.owner, Pc.locked, Pc.parked, Pc.shutOk]

noncomputable def accepts : State → List Label → Option State
  | s, [] => some s
  | s, l :: ls => match step s l with
    | some s' => accepts s' ls
    | none => none

theorem inv_reachable (ls : List Label) (s s' : State) (h : Inv s) (hs : accepts s ls = some s') : Inv s' := by
  induction ls generalizing s with
  | nil => simp [accepts] at hs; subst hs; exact h
  | cons l ls ih =>
    simp only [accepts] at hs
    split at hs
    · rename_i s1 h1; exact ih s1 (inv_step s s1 l h h1) hs
    · simp at hs

/-- C01 (single-flight), for every history of any length, any number of callers, loops and keys. -/
theorem C01_single_flight (ls : List Label) (s : State) (hs : accepts init ls = some s)
    (c d : Nat) (hc : live s c) (hd : live s d) (hk : (s.cs c).key = (s.cs d).key) : c = d :=
  single_flight s (inv_reachable ls init s inv_init hs) c d hc hd hk
end Cache2
