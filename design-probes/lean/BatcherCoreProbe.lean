/-! Probe 3: batcher assembly / semaphore core as a deterministic machine; C10 size, slots, FIFO. -/
namespace Bat

structure Batch where
  items : List Nat      -- arrival ids, in order
  bound : Nat           -- largest max_batch_size in force while it was assembled
  deriving Repr

structure St where
  now : Nat
  maxb : Nat
  maxc : Nat
  bt : Nat
  asm : Option (Batch × Nat)        -- batch being assembled, deadline
  semWait : List Batch
  running : List Batch
  arrivals : List Nat
  started : List Nat
  deriving Repr

inductive In
  | call (id : Nat) | deadline | finish (i : Nat) | setMax (n : Nat) | tick (t : Nat)

def St.dispatch (s : St) (b : Batch) : St :=
  if s.running.length < s.maxc ∧ s.semWait = [] then
    { s with asm := none, running := s.running ++ [b], started := s.started ++ b.items }
  else { s with asm := none, semWait := s.semWait ++ [b] }

def step (s : St) : In → Option St
  | .call id =>
    match s.asm with
    | none =>
      if 1 ≥ s.maxb then some ({ s with arrivals := s.arrivals ++ [id] }.dispatch { items := [id], bound := s.maxb })
      else some { s with arrivals := s.arrivals ++ [id], asm := some ({ items := [id], bound := s.maxb }, s.now + s.bt) }
    | some (b, _) =>
      if (b.items ++ [id]).length ≥ s.maxb then
        some ({ s with arrivals := s.arrivals ++ [id] }.dispatch { items := b.items ++ [id], bound := max b.bound s.maxb })
      else some { s with arrivals := s.arrivals ++ [id],
                         asm := some ({ items := b.items ++ [id], bound := max b.bound s.maxb }, s.now + s.bt) }
  | .deadline =>
    match s.asm with
    | some (b, d) => if d ≤ s.now then some (s.dispatch b) else none
    | none => none
  | .finish i =>
    if i < s.running.length then
      let s := { s with running := s.running.eraseIdx i }
      match s.semWait with
      | [] => some s
      | b :: rest => some { s with semWait := rest, running := s.running ++ [b], started := s.started ++ b.items }
    else none
  | .setMax n =>
    some { s with maxb := n, asm := s.asm.map (fun (b, d) => ({ b with bound := max b.bound n }, d)) }
  | .tick t => if s.now ≤ t then some { s with now := t } else none

def flat (bs : List Batch) : List Nat := (bs.map (·.items)).flatten
def asmItems (s : St) : List Nat := match s.asm with | some (b, _) => b.items | none => []

def Batch.ok (b : Batch) : Prop := 1 ≤ b.items.length ∧ b.items.length ≤ max 1 b.bound

structure Inv (s : St) : Prop where
  runOk : ∀ b ∈ s.running, b.ok
  waitOk : ∀ b ∈ s.semWait, b.ok
  asmOk : ∀ b d, s.asm = some (b, d) → 1 ≤ b.items.length ∧ b.items.length < b.bound ∧ s.maxb ≤ b.bound
  slots : s.running.length ≤ s.maxc
  full : s.semWait ≠ [] → s.running.length = s.maxc
  fifo : s.started ++ flat s.semWait ++ asmItems s = s.arrivals
  pos : 1 ≤ s.maxc

theorem flat_append (a b : List Batch) : flat (a ++ b) = flat a ++ flat b := by simp [flat]
theorem flat_cons (a : Batch) (b : List Batch) : flat (a :: b) = a.items ++ flat b := by simp [flat]
theorem flat_nil : flat [] = [] := rfl

theorem inv_dispatch (s : St) (b : Batch)
    (h1 : ∀ b ∈ s.running, b.ok) (h2 : ∀ b ∈ s.semWait, b.ok) (h4 : s.running.length ≤ s.maxc)
    (h5 : s.semWait ≠ [] → s.running.length = s.maxc) (h7 : 1 ≤ s.maxc) (hb : b.ok)
    (hf : s.started ++ flat s.semWait ++ b.items = s.arrivals) : Inv (s.dispatch b) := by
  unfold St.dispatch
  split
  · rename_i hc
    obtain ⟨hc1, hc2⟩ := hc
    refine ⟨?_, ?_, ?_, ?_, ?_, ?_, ?_⟩
    · intro x hx; simp at hx; rcases hx with hx | hx
      · exact h1 x hx
      · subst hx; exact hb
    · exact h2
    · intro b' d hbd; simp at hbd
    · simp; omega
    · intro hne; exact absurd hc2 hne
    · simp [asmItems, hc2, flat_nil] at *; exact hf
    · exact h7
  · rename_i hc
    refine ⟨h1, ?_, ?_, h4, ?_, ?_, h7⟩
    · intro x hx; simp at hx; rcases hx with hx | hx
      · exact h2 x hx
      · subst hx; exact hb
    · intro b' d hbd; simp at hbd
    · intro _
      show s.running.length = s.maxc
      by_cases hw : s.semWait = []
      · simp [hw] at hc; omega
      · exact h5 hw
    · simp [asmItems, flat_append, flat_cons, flat_nil] at *
      simpa [List.append_assoc] using hf

theorem inv_step (s s' : St) (i : In) (h : Inv s) (hs : step s i = some s') : Inv s' := by
  obtain ⟨h1, h2, h3, h4, h5, h6, h7⟩ := h
  cases i with
  | call id =>
    simp only [step] at hs
    split at hs
    · rename_i ha
      skip
      have h6' : s.started ++ flat s.semWait = s.arrivals := by simpa [asmItems, ha] using h6
      split at hs
      · simp only [Option.some.injEq] at hs; subst hs
        apply inv_dispatch <;> try assumption
        · simp [Batch.ok]; omega
        · simp [← h6']
      · simp only [Option.some.injEq] at hs; subst hs
        refine ⟨h1, h2, ?_, h4, h5, ?_, h7⟩
        · intro b d hbd; simp at hbd; obtain ⟨hb, _⟩ := hbd; subst hb; simp; omega
        · simp [asmItems, ← h6']
    · rename_i b d ha
      skip
      have hb := h3 b d ha
      have h6' : s.started ++ flat s.semWait ++ b.items = s.arrivals := by simpa [asmItems, ha] using h6
      split at hs
      · rename_i hfull
        simp only [Option.some.injEq] at hs; subst hs
        apply inv_dispatch <;> try assumption
        · simp [Batch.ok] at *; omega
        · simp [← h6', List.append_assoc]
      · rename_i hnot
        simp only [Option.some.injEq] at hs; subst hs
        refine ⟨h1, h2, ?_, h4, h5, ?_, h7⟩
        · intro b' d' hbd; simp at hbd; obtain ⟨hb', _⟩ := hbd; subst hb'; simp at *; omega
        · simp [asmItems, ← h6', List.append_assoc]
  | deadline =>
    simp only [step] at hs
    split at hs
    · rename_i b d ha
      split at hs
      · simp only [Option.some.injEq] at hs; subst hs
        have hb := h3 b d ha
        apply inv_dispatch <;> try assumption
        · simp [Batch.ok]; omega
        · simpa [asmItems, ha] using h6
      · simp at hs
    · simp at hs
  | finish i =>
    simp only [step] at hs
    split at hs
    · rename_i hi
      split at hs
      · rename_i hw
        simp only [Option.some.injEq] at hs; subst hs
        skip
        refine ⟨?_, ?_, h3, ?_, ?_, ?_, h7⟩
        · intro b hb; exact h1 b (List.mem_of_mem_eraseIdx hb)
        · simp [hw]
        · simp [List.length_eraseIdx, hi]; omega
        · simp [hw]
        · simpa [asmItems, hw, flat_nil] using h6
      · rename_i b rest hw
        simp only [Option.some.injEq] at hs; subst hs
        skip
        have hfull := h5 (by simp [hw])
        refine ⟨?_, ?_, h3, ?_, ?_, ?_, h7⟩
        · intro x hx; simp at hx; rcases hx with hx | hx
          · exact h1 x (List.mem_of_mem_eraseIdx hx)
          · subst hx; exact h2 x (by simp [hw])
        · intro x hx; exact h2 x (by simp [hw, hx])
        · simp [List.length_eraseIdx, hi]; omega
        · intro _; simp [List.length_eraseIdx, hi]; omega
        · simp [asmItems, hw, flat_cons, List.append_assoc] at *; exact h6
    · simp at hs
  | setMax n =>
    simp only [step, Option.some.injEq] at hs; subst hs
    refine ⟨h1, h2, ?_, h4, h5, ?_, h7⟩
    · intro b d hbd
      cases ha : s.asm with
      | none => simp [ha] at hbd
      | some p =>
        obtain ⟨b0, d0⟩ := p
        simp [ha] at hbd; obtain ⟨hb', _⟩ := hbd; subst hb'
        have := h3 b0 d0 ha
        simp; omega
    · cases ha : s.asm with
      | none => simpa [asmItems, ha] using h6
      | some p => obtain ⟨b0, d0⟩ := p; simpa [asmItems, ha] using h6
  | tick t =>
    simp only [step] at hs
    split at hs
    · simp only [Option.some.injEq] at hs; subst hs
      exact ⟨h1, h2, h3, h4, h5, h6, h7⟩
    · simp at hs

def accepts : St → List In → Option St
  | s, [] => some s
  | s, i :: is => match step s i with
    | some s' => accepts s' is
    | none => none

theorem inv_run (is : List In) (s s' : St) (h : Inv s) (hs : accepts s is = some s') : Inv s' := by
  induction is generalizing s with
  | nil => simp [accepts] at hs; subst hs; exact h
  | cons i is ih =>
    simp only [accepts] at hs
    split at hs
    · rename_i s1 h1; exact ih s1 (inv_step s s1 i h h1) hs
    · simp at hs

def init (maxb maxc bt : Nat) : St :=
  { now := 0, maxb, maxc, bt, asm := none, semWait := [], running := [], arrivals := [], started := [] }

theorem inv_init (maxb maxc bt : Nat) (h : 1 ≤ maxc) : Inv (init maxb maxc bt) := by
  refine ⟨?_, ?_, ?_, ?_, ?_, ?_, h⟩ <;> simp [init, flat, asmItems]

/-- C10, for every input history: size bound, slot bound, FIFO. -/
theorem C10 (maxb maxc bt : Nat) (hc : 1 ≤ maxc) (is : List In) (s : St)
    (hs : accepts (init maxb maxc bt) is = some s) :
    (∀ b ∈ s.running, 1 ≤ b.items.length ∧ b.items.length ≤ max 1 b.bound)
    ∧ s.running.length ≤ s.maxc
    ∧ s.started ++ flat s.semWait ++ asmItems s = s.arrivals := by
  have h := inv_run is _ s (inv_init maxb maxc bt hc) hs
  exact ⟨h.runOk, h.slots, h.fifo⟩

-- non-vacuity: a history with a full batch, a timed-out batch and a queued batch
example : (accepts (init 2 1 5) [.call 0, .call 1, .call 2, .tick 7, .deadline, .finish 0]).map
    (fun s => (s.running.map (·.items), s.semWait.length, s.started)) = some ([[2]], 0, [0, 1, 2]) := by decide
end Bat
