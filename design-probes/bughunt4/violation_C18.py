"""
C18 - split(): after the condition fails for ONE element, the result
iterator which happened to ask for it is dead: it silently ends
(StopIteration) and never yields the later elements of its side, although
the condition is perfectly well defined for them - while the other result
iterator goes on and yields all of its own.  So the two results are no
partition of the remaining elements, and which elements get lost depends on
the order in which the two iterators are consumed.

(The F39 repair states: "a value whose condition fails is in neither
result" and "a condition which fails for one value must not make the
following ones end up with each other's decisions".  The following ones are
now dropped altogether on the side which asked.)
"""

import sys

from aiuti.itertools import split


class BadRecord(Exception):
    pass


BAD = 'bad'


def run(source_kind, order):
    """
    Split 7 records with a predicate failing on exactly one of them, consume
    the two results in the given order; a consumer skips a record whose check
    failed (catches the predicate's own error) and goes on until the
    iterator says it has no more.
    """
    records = [1, 3, BAD, 5, 4, 7, 2]
    calls = []
    pulls = []

    def source():
        for r in records:
            pulls.append(r)
            yield r

    def is_odd(r):
        calls.append(r)
        if r == BAD:
            raise BadRecord(r)
        return r % 2 == 1

    src = source() if source_kind == 'iterator' else list(records)
    odd, even = split(src, is_odd)
    its = {'odd': odd, 'even': even}
    got = {'odd': [], 'even': []}
    errors = {'odd': 0, 'even': 0}

    if order == 'alternate':
        live = ['odd', 'even']
        while live:
            for name in list(live):
                try:
                    got[name].append(next(its[name]))
                except BadRecord:
                    errors[name] += 1
                except StopIteration:
                    live.remove(name)
    else:
        for name in order:
            while True:
                try:
                    got[name].append(next(its[name]))
                except BadRecord:
                    errors[name] += 1   # skip the bad record, go on
                except StopIteration:
                    break
    return got, errors, calls, pulls, records


def main():
    want_odd = [1, 3, 5, 7]
    want_even = [4, 2]
    problems = []
    for source_kind in ('list', 'iterator'):
        for order in (('odd', 'even'), ('even', 'odd'), 'alternate'):
            got, errors, calls, pulls, records = run(source_kind, order)
            label = f"source={source_kind} order={order}"
            if calls != records:
                problems.append(f"{label}: predicate calls {calls}")
            if source_kind == 'iterator' and pulls != records:
                problems.append(f"{label}: source pulls {pulls}")
            if sum(errors.values()) != 1:
                problems.append(f"{label}: errors seen {errors}")
            if got['odd'] != want_odd or got['even'] != want_even:
                lost = sorted(set(want_odd + want_even)
                              - set(got['odd']) - set(got['even']))
                problems.append(
                    f"{label}: truthy side yielded {got['odd']} (exactly "
                    f"{want_odd} have a truthy condition), falsy side "
                    f"yielded {got['even']} (exactly {want_even} have a "
                    f"falsy condition); the side which saw the error "
                    f"({[n for n, e in errors.items() if e]}) ended right "
                    f"after it, elements {lost} are in neither result")
    if problems:
        print("VIOLATION: 'two iterators that yield exactly the elements "
              "whose condition is truthy / exactly those whose condition is "
              "falsy ... for every order in which the two iterators are "
              "consumed' is broken: after the condition failed for one "
              "element, the result iterator which asked for it is finished "
              "and silently drops every later element of its side, the "
              "other one carries on")
        for p in problems:
            print("  -", p)
        return 1
    print("OK")
    return 0


if __name__ == '__main__':
    sys.exit(main())
