"""
C10 - "the batch function is never given more than max_batch_size items"
with max_batch_size mutated while running (the attribute is documented as
"Can be safely mutated after initialization").

_get_next_batch checks `len(tasks) < self.max_batch_size` only *before* it
blocks in `wait_for(q.get(), batch_timeout)`; the item that ends that wait
is appended unconditionally.  If the limit is lowered while a partial batch
is waiting there, a call which arrives AFTER the limit was lowered still
joins that batch, although the batch already holds at least as many items
as the limit which is in force when the call arrives (and when the batch
is handed over).

No timing luck: everything below happens well inside one batch_timeout and
is sequenced by explicit yields to the loop; the check is on batch contents
only.
"""
import asyncio
import sys

BATCH_TIMEOUT = 0.5


async def main() -> int:
    from aiuti.asyncio import AsyncBackgroundBatcher

    batches = []       # (items, limit when handed over)
    arrivals = []      # (item, limit in force when the call arrived)

    async def func(batch):
        batch = list(batch)
        batches.append(([a for _, a in batch], batcher.max_batch_size))
        for key, arg in batch:
            yield key, arg

    batcher = AsyncBackgroundBatcher(
        func, max_batch_size=4, max_concurrent_batches=1,
        batch_timeout=BATCH_TIMEOUT,
    )

    async def call(x):
        arrivals.append((x, batcher.max_batch_size))
        return await batcher(x)

    # Three calls arrive: a partial batch (3 of 4) is now waiting for more
    early = [asyncio.ensure_future(call(x)) for x in ('A', 'B', 'C')]
    for _ in range(10):
        await asyncio.sleep(0)
    assert not batches, batches  # still being assembled

    # The user lowers the limit (documented as safe) ...
    batcher.max_batch_size = 1
    for _ in range(10):
        await asyncio.sleep(0)

    # ... and only afterwards the next call arrives
    late = asyncio.ensure_future(call('D'))

    await asyncio.wait_for(asyncio.gather(*early, late), 20 * BATCH_TIMEOUT)

    print("arrivals (item, limit at arrival):", arrivals)
    print("batches  (items, limit at hand-over):", batches)

    for items, limit_at_handover in batches:
        if 'D' in items and len(items) > 1:
            print(
                "VIOLATION: clause 'never given more than max_batch_size "
                "items' (max_batch_size mutated while running): call 'D' "
                "arrived when max_batch_size had already been lowered to 1, "
                f"yet it was added to a batch that already held "
                f"{len(items) - 1} items; the batch function was given "
                f"{len(items)} items {items} while max_batch_size == "
                f"{limit_at_handover}"
            )
            return 1
    print("OK")
    return 0


if __name__ == '__main__':
    sys.exit(asyncio.run(main()))
