"""
C20: gather_excs / raise_first_exc must report exactly the exceptions which
the given awaitables raised and which are instances of ``only``.

Residual of F24/F33: a future hands its *real* cancellation error (the
object the awaitable raised, here of a class derived from CancelledError)
out only once.  gather_excs takes it out of every cancelled future it is
given - also when ``only`` does not match and nothing is reported - and
keeps it in a dict which dies with that call.  A later call given the same
tasks (another ``only``, or raise_first_exc after a gather_excs which only
logged) finds a fresh plain CancelledError: the filter drops the entry, type
and arguments are lost.
"""

import sys
import asyncio as aio

from aiuti.asyncio import gather_excs, raise_first_exc


class Base(Exception):
    pass


class Sub(Base):
    pass


class Stop(aio.CancelledError):
    """BaseException-only, derived from CancelledError (as in F24/F33)"""


async def run() -> int:
    log = []
    b_done = aio.Event()
    stop = Stop('shutdown', 42)
    sub = Sub('broken')

    async def first():  # Listed first, finishes last
        await b_done.wait()
        log.append('first')
        raise stop

    async def second():
        log.append('second')
        b_done.set()
        raise sub

    tasks = [aio.ensure_future(first()), aio.ensure_future(second())]

    problems = []

    # 1st look: the ordinary errors only (nothing of Stop is reported here)
    got = [e async for e in gather_excs(tasks, only=Base)]
    if not (len(got) == 1 and got[0] is sub):
        problems.append(f"call 1 (only=Base) yielded {got!r}, not [{sub!r}]")
    if log != ['second', 'first']:
        problems.append(f"completion log {log!r}")

    # 2nd look at the same tasks: the ones which were told to stop
    got = [e async for e in gather_excs(tasks, only=Stop)]
    if not (len(got) == 1 and got[0] is stop):
        problems.append(
            f"call 2 gather_excs(tasks, only=Stop) yielded {got!r}: the first"
            f" task raised {stop!r}, an instance of Stop, and it is not"
            f" reported (exactly [{stop!r}] expected)"
        )

    # All failures in input order
    got = [e async for e in gather_excs(tasks)]
    if not (len(got) == 2 and got[0] is stop and got[1] is sub):
        problems.append(
            f"call 3 gather_excs(tasks) yielded {got!r}, the exceptions"
            f" raised were [{stop!r}, {sub!r}]"
        )

    # The first failure in input order
    try:
        res = await raise_first_exc(tasks)
    except BaseException as e:  # Stop is a BaseException
        if e is not stop:
            problems.append(
                f"call 4 raise_first_exc(tasks) raised {e!r} and not the"
                f" first exception raised, {stop!r}"
            )
    else:
        problems.append(f"call 4 raise_first_exc(tasks) returned {res!r}")

    try:
        res = await raise_first_exc(tasks, only=Stop)
    except BaseException as e:
        if e is not stop:
            problems.append(f"call 5 raise_first_exc(only=Stop) raised {e!r}")
    else:
        problems.append(
            f"call 5 raise_first_exc(tasks, only=Stop) returned {res!r}"
            f" although the first task raised {stop!r}"
        )

    if problems:
        print("VIOLATION: 'yields exactly the exceptions raised that are"
              " instances of only' / 'raise_first_exc raises the first of"
              " these' broken for tasks which an earlier gather_excs call"
              " had already looked at: " + "; ".join(problems))
        return 1
    print("OK")
    return 0


if __name__ == '__main__':
    sys.exit(aio.run(run()))
