"""
C05: a caller on another loop is not released when the computation ends,
if the computing call is what its loop was running (run_until_complete).

Thread A:  loop_a.run_until_complete(square(3))     <- computes
Thread B:  loop_b.run_until_complete(square(3))     <- waits for A

The computation on A succeeds with loop A alive from start to end.  B must
then finish "as soon as the computation ends rather than after the
60-second safety timeout".
"""
import asyncio as aio
import sys
import threading
import time

from aiuti.asyncio import threadsafe_async_cache

MARGIN = 10.0          # B gets this long after the end of the computation

b_calling = threading.Event()
a_computing = threading.Event()
calls = 0


@threadsafe_async_cache
async def square(x):
    global calls
    calls += 1
    a_computing.set()
    # Work until the caller of the other thread is waiting for us
    while not b_calling.is_set():
        await aio.sleep(0.01)
    await aio.sleep(1.0)   # B is inside its call since (at least) 1 s
    return x * x


out = {}


def thread_a():
    loop = aio.new_event_loop()
    out['loop_a'] = loop
    out['a'] = loop.run_until_complete(square(3))
    out['a_end'] = time.monotonic()
    # The loop is left as it is: open, idle, nothing pending for its owner


def thread_b():
    loop = aio.new_event_loop()

    async def main():
        b_calling.set()
        return await square(3)

    a_computing.wait()
    try:
        out['b'] = loop.run_until_complete(main())
    finally:
        out['b_end'] = time.monotonic()
        loop.close()


ta = threading.Thread(target=thread_a, daemon=True)
tb = threading.Thread(target=thread_b, daemon=True)
ta.start()
tb.start()
ta.join(30)
if ta.is_alive():
    print("VIOLATION: the computing call itself did not finish")
    sys.exit(1)

tb.join(MARGIN)
if not tb.is_alive():
    delay = out['b_end'] - out['a_end']
    assert out['a'] == out['b'] == 9 and calls == 1, (out, calls)
    print(f"OK (waiter released {delay:+.3f} s after the computation)")
    sys.exit(0)

stuck_for = time.monotonic() - out['a_end']
# What a thread does when it is done with its loop
out['loop_a'].close()
tb.join(90)
if tb.is_alive():
    print("VIOLATION: the computation ended (value 9 is cached) but the "
          "caller on the other loop never finished")
    sys.exit(1)
delay = out['b_end'] - out['a_end']
print(f"VIOLATION: promptness clause - the computation succeeded on a loop "
      f"which was alive from its start to its end and the value is cached, "
      f"but the caller waiting on another loop was still blocked "
      f"{stuck_for:.1f} s later and only finished after {delay:.1f} s "
      f"(the 60-second safety timeout), result {out.get('b')!r}, "
      f"function calls {calls}")
sys.exit(1)
