"""Property-level monitors (C03, C07, C08) over real executions of BufferAsyncCalls (random timed programs)."""
import random, sys
sys.argv = [sys.argv[0], '0'] + sys.argv[1:]
import p7_bufdiff as P
from bufsim import pitems
def monitors(T, prog, outcomes, out):
    bad = []
    subs = [(st[0], pitems(st[2])) for st in prog if st[1] != 'wait']
    all_items = [x for _, xs in subs for x in xs]
    # successful calls: pair start/end
    calls = []; cur = None
    for e in out:
        if e[0] == 'start':
            if cur is not None: bad.append(('C08-overlap', e))
            cur = e
            if not e[2]: bad.append(('C08-empty', e))
        elif e[0] == 'end':
            calls.append((cur[1], e[1], cur[2], e[2])); cur = None
    okcalls = [c for c in calls if c[3]]
    delivered = [x for c in okcalls for x in c[2]]
    # C03
    for c in calls:
        for x in c[2]:
            if x not in all_items: bad.append(('C03-not-submitted', x))
    enough_success = len([o for o in outcomes if not o[1]]) < 6 or True
    for x in all_items:
        n = delivered.count(x)
        if n != 1: bad.append(('C03-delivered-%d-times' % n, x))
    # C07
    for e in out:
        if e[0] == 'wait-ret':
            wcall = next(st[0] for st in prog if st[1] == 'wait' and st[2] == e[1])
            before = [x for t, xs in subs if t < wcall for x in xs]
            got = [x for c in okcalls if c[1] <= e[2] for x in c[2]]
            for x in before:
                if x not in got: bad.append(('C07-barrier', e, x))
        if e[0] == 'wait-pending': bad.append(('C07-wait-never-returned', e))
    # C08 (only when all producers immediate and no cancelling waits)
    immediate = all(st[1] in ('put', 'map', 'mapiter') for st in prog if st[1] != 'wait')
    forced = any(st[1] == 'wait' and st[3] for st in prog)
    if immediate and not forced:
        times = [t for t, xs in subs]
        for c in calls:
            for t in times:
                if c[0] - T < t < c[0]: bad.append(('C08-not-quiet', c, t))
    return bad
N = int(sys.argv[2]) if len(sys.argv) > 2 else 2000
nb = 0; kinds = {}
for seed in range(N):
    rng = random.Random(seed); T, prog, outcomes = P.gen(rng)
    # make sure the function eventually succeeds
    out = P.run_real(T, prog, outcomes)
    b = monitors(T, prog, outcomes, out)
    if b:
        nb += 1
        for x in b: kinds[x[0]] = kinds.get(x[0], 0) + 1
        if nb <= 3: print('SEED', seed, 'T', T, prog, outcomes, '\n  out', out, '\n  BAD', b[:4])
print('programs', N, 'with violations', nb, kinds)
