"""Can random baton schedules + life-cycle scripts find F2 (foreign marker delete -> overlap / KeyError) and
F4 (foreign CancelledError)?  Loops run `main` that may return early leaving callers pending; then gap,
asyncio.run-style cancel-all, close."""
import asyncio, random, sys, time
from asyncio import runners
import aiuti.asyncio as A
from baton import Sched, VLoop, ILock
def one(seed):
    rng = random.Random(seed)
    s = Sched(seed); ILock.sched = s; A.Lock = ILock
    inv = []; active = set(); bad = []
    stopped_loops = set()
    async def f(k):
        me = len(inv); loop = asyncio.get_running_loop()
        inv.append(dict(loop=id(loop), orphan=False, done=False))
        live = [i for i in active if not inv[i]['orphan']]
        if live: bad.append(('C01-overlap', me, live))
        active.add(me)
        try:
            await asyncio.sleep(rng.choice([1, 5, 20]))
            return ('v', me)
        finally:
            active.discard(me); inv[me]['done'] = True
    class Cache(dict):
        def __getitem__(self, k): s.point('cget'); return dict.__getitem__(self, k)
        def __setitem__(self, k, v): s.point('cset'); dict.__setitem__(self, k, v)
    w = A.threadsafe_async_cache(f, cache=Cache())
    def mk(li, early):
        def body():
            loop = VLoop(s); asyncio.set_event_loop(loop)
            outcomes = []
            async def caller(delay):
                await asyncio.sleep(delay)
                try: outcomes.append(('ok', await w('k')))
                except asyncio.CancelledError:
                    outcomes.append(('cancelled', asyncio.current_task().cancelling())); raise
                except BaseException as e: outcomes.append(('exc', type(e).__name__))
            async def main():
                ts = [loop.create_task(caller(rng.choice([0, 0, 2]))) for _ in range(rng.randint(1, 2))]
                if early: await asyncio.sleep(rng.choice([0, 1, 3]))      # return with callers pending
                else: await asyncio.gather(*ts, return_exceptions=True)
            loop.run_until_complete(main())
            # loop has stopped: pending invocations on it are orphans from now on
            for v in inv:
                if v['loop'] == id(loop) and not v['done']: v['orphan'] = True
            s.point('stopped', enabled=lambda: False, deadline=s.vt + rng.choice([0, 2, 10]))   # gap
            s.point('shutdown')
            cancelled_by_harness = {t for t in asyncio.all_tasks(loop)}
            runners._cancel_all_tasks(loop)
            s.point('close')
            loop.close()
            for o in outcomes:
                if o[0] == 'exc': bad.append(('C06-foreign-exception', li, o))
                if o[0] == 'cancelled' and o[1] == 0 and not early: bad.append(('C06-foreign-cancel', li, o))
        return body
    n = rng.randint(2, 4)
    for li in range(n): s.spawn('T%d' % li, mk(li, early=(li == 0 or rng.random() < 0.3)))
    s.run()
    if s.hung: bad.append(('hang', s.hung))
    return bad
t0 = time.time(); N = int(sys.argv[1]); kinds = {}; nb = 0
for seed in range(N):
    b = one(seed)
    if b:
        nb += 1
        for x in b: kinds[x[0]] = kinds.get(x[0], 0) + 1
        if nb <= 2: print('SEED', seed, b[:2])
print('runs', N, 'bad', nb, kinds, 'wall', round(time.time() - t0, 1))
