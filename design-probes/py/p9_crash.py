import os, sys, signal, subprocess, tempfile, time
CHILD = r'''
import os, sys, signal
import aiuti.filelock as FL
path, kill_at, script = sys.argv[1], int(sys.argv[2]), sys.argv[3]
n = [0]
target = FL.__file__
def tr(frame, event, arg):
    if frame.f_code.co_filename != target: return None
    if event == 'line':
        n[0] += 1
        if n[0] == kill_at: os.kill(os.getpid(), signal.SIGKILL)
    return tr
l = FL.FileLock(path, reentrant=(script == 'nested'))
sys.settrace(tr)
if script == 'plain':
    l.acquire(); l.release()
elif script == 'timed':
    l.acquire(timeout=0.05); l.release()
elif script == 'nested':
    l.acquire(); l.acquire(); l.release(); l.release(force=True)
sys.settrace(None)
print(n[0])
'''
d = tempfile.mkdtemp(); path = os.path.join(d, 'c.lock')
from aiuti.filelock import FileLock
for script in ('plain', 'timed', 'nested'):
    total = int(subprocess.run([sys.executable, '-c', CHILD, path, '0', script], capture_output=True, text=True).stdout.strip())
    t0 = time.time(); worst = 0; stuck = 0
    for i in range(1, total + 1):
        p = subprocess.run([sys.executable, '-c', CHILD, path, str(i), script], capture_output=True)
        assert p.returncode == -signal.SIGKILL, (i, p.returncode)
        a = time.time(); ok = FileLock(path).acquire(timeout=1.0); dt = time.time() - a
        worst = max(worst, dt)
        if not ok: stuck += 1
        else:
            f = FileLock(path)   # fresh object for release symmetry
    print(script, 'line events', total, 'stuck', stuck, 'worst acquire s', round(worst, 4), 'wall', round(time.time() - t0, 1))
