import asyncio, types, threading
import aiuti.asyncio as A
log = []
class ILock:
    def __init__(self): self._l = threading.Lock()
    def __enter__(self): log.append('lacq'); self._l.acquire(); return self
    def __exit__(self, *a): self._l.release(); log.append('lrel')
class IDict(dict):
    def __getitem__(self, k):
        try: v = dict.__getitem__(self, k)
        except KeyError: log.append(('eget', k, None)); raise
        log.append(('eget', k, 'some')); return v
    def __setitem__(self, k, v): log.append(('eset', k)); dict.__setitem__(self, k, v)
    def __delitem__(self, k): log.append(('edel', k)); dict.__delitem__(self, k)
class ICache(dict):
    def __getitem__(self, k):
        try: v = dict.__getitem__(self, k)
        except KeyError: log.append(('cget', 'miss')); raise
        log.append(('cget', 'hit')); return v
    def __setitem__(self, k, v): log.append(('cset', v)); dict.__setitem__(self, k, v)
class IEvent(asyncio.Event):
    def set(self): log.append('evset'); super().set()
class AioProxy(types.ModuleType):
    def __getattr__(self, n): return getattr(asyncio, n)
proxy = AioProxy('aio_proxy'); proxy.Event = IEvent
orig = (A.Lock, A.aio)
A.Lock, A.aio = ILock, proxy
try:
    async def f(x):
        log.append('istart'); await asyncio.sleep(0); log.append('iend'); return x * 2
    w = A.threadsafe_async_cache(f, cache=ICache())
finally:
    A.Lock = orig[0]   # aio proxy must stay while wrapper runs (late-bound global)
names = w.__code__.co_freevars
cells = dict(zip(names, w.__closure__))
print('freevars', names)
cells['events'].cell_contents = IDict()
print(asyncio.run(w(3)), asyncio.run(w(3)))
print(log)
