import asyncio, sys, time, threading
import aiuti.asyncio as A
from baton import Sched, VLoop, ILock
def one(seed):
    s = Sched(seed); ILock.sched = s
    A.Lock = ILock
    inv = []; active = set(); overlaps = []
    async def f(k):
        me = len(inv); inv.append(k)
        if active: overlaps.append((me, sorted(active)))
        active.add(me)
        try:
            await asyncio.sleep(1.0)
            return ('v', me)
        finally: active.discard(me)
    class Cache(dict):
        def __getitem__(self, k):
            s.point('cget'); return dict.__getitem__(self, k)
        def __setitem__(self, k, v):
            s.point('cset'); dict.__setitem__(self, k, v)
    w = A.threadsafe_async_cache(f, cache=Cache())
    res = {}
    def mk(name, n, delay):
        def body():
            loop = VLoop(s); asyncio.set_event_loop(loop)
            async def main():
                await asyncio.sleep(delay)
                return await asyncio.gather(*(w('k') for _ in range(n)))
            try: res[name] = (loop.run_until_complete(main()), s.vt)
            finally: loop.close()
        return body
    s.spawn('T1', mk('T1', 2, 0.0)); s.spawn('T2', mk('T2', 2, 0.0)); s.spawn('T3', mk('T3', 1, 0.5))
    s.run()
    return res, len(inv), overlaps, s.hung, len(s.trace), s.vt
t0 = time.time()
outs = [one(seed) for seed in range(200)]
print('200 runs wall', round(time.time() - t0, 2))
print(outs[0])
print('invocation counts', sorted({o[1] for o in outs}), 'hung', [o[3] for o in outs if o[3]][:2], 'trace lens', min(o[4] for o in outs), max(o[4] for o in outs))
print('finish vt', sorted({o[5] for o in outs}))
print('deterministic replay:', one(7) == one(7))
