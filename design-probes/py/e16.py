import asyncio as aio, threading, time
from aiuti.asyncio import to_async_iter, to_sync_iter
class Boom(Exception): pass
def src(n, fail_at=None, vals=None):
    for i in range(n):
        if fail_at == i: raise Boom(i)
        yield (vals[i] if vals else i)
    if fail_at == n: raise Boom(n)
async def consume_async(it):
    out = []
    try:
        async for x in to_async_iter(it): out.append(x)
        return out, None
    except BaseException as e:
        return out, repr(e)
def consume_sync(ait):
    out = []
    try:
        for x in to_sync_iter(ait): out.append(x)
        return out, None
    except BaseException as e:
        return out, repr(e)
async def asrc(n, fail_at=None, vals=None):
    for i in range(n):
        if fail_at == i: raise Boom(i)
        await aio.sleep(0)
        yield (vals[i] if vals else i)
    if fail_at == n: raise Boom(n)
print("threads before", threading.active_count())
for n, f in [(0,None),(3,None),(3,0),(3,1),(3,3)]:
    print('async', n, f, aio.run(consume_async(src(n, f))), 'threads', threading.active_count())
print('async falsy', aio.run(consume_async(src(4, None, [None, 0, '', False]))))
print('async list (non-iterator)', aio.run(consume_async([None, 0, 1])))
for n, f in [(0,None),(3,None),(3,0),(3,1),(3,3)]:
    print('sync', n, f, consume_sync(asrc(n, f)), 'threads', threading.active_count())
print('sync falsy', consume_sync(asrc(4, None, [None, 0, '', False])))
# loop responsiveness while sync iterator blocks
async def resp():
    def slow():
        for i in range(3):
            time.sleep(0.1); yield i
    ticks = 0
    async def ticker():
        nonlocal ticks
        while True:
            await aio.sleep(0.01); ticks += 1
    t = aio.create_task(ticker())
    out = [x async for x in to_async_iter(slow())]
    t.cancel()
    return out, ticks
print('responsive', aio.run(resp()))
