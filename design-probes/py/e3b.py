import asyncio as aio, sys, faulthandler
from aiuti.asyncio import buffer_until_timeout, to_async_iter
faulthandler.dump_traceback_later(6, exit=True)
mode = sys.argv[1]
calls = []
async def main():
    @buffer_until_timeout(timeout=0.05)
    async def buf(xs):
        calls.append(('start', set(xs)))
        await aio.sleep(1)
        calls.append(('end', set(xs)))
    if mode == 'running':
        buf(1)
        await aio.sleep(0.2)   # func is running now
    elif mode == 'loading':
        async def slow():
            yield 1
            await aio.sleep(1)
            yield 2
        buf.amap(slow())
        await aio.sleep(0.02)
    print("main done; calls so far", calls, flush=True)
aio.run(main())
print("aio.run returned; calls", calls)
