from aiuti.itertools import split, exhaust
log = []
def src(xs):
    for x in xs:
        log.append(('pull', x)); yield x
def pred(x):
    log.append(('pred', x)); return x % 2 == 0
t, f = split(src([0,1,2,3,4]), pred)
for who in 'FTTFFTT':
    it = t if who == 'T' else f
    try: v = next(it)
    except StopIteration: v = 'STOP'
    log.append((who, v))
print(log)
# list condition shorter / longer
for cond in ([True, False], [1, 0, 'x', '', None, 5, 7, 8]):
    log.clear()
    t, f = split(src([10,11,12,13]), iter(cond))
    print(list(t), list(f), [l for l in log])
# condition shorter, F consumed first
log.clear()
t, f = split(src([10,11,12,13]), iter([True, False]))
print(list(f), list(t), log)
print(exhaust(iter([1,2,3])))
