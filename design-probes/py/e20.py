import asyncio as aio
from aiuti.asyncio import gather_excs, raise_first_exc
class B(Exception): pass
class S(B): pass
class U(Exception): pass
class BE(BaseException): pass
done = []
async def aw(i, delay, exc):
    try:
        await aio.sleep(delay)
    finally:
        done.append(i)
    if exc: raise exc(i)
    return i
async def run(spec, only):
    done.clear()
    out = []
    try:
        async for e in gather_excs([aw(i, d, x) for i, (d, x) in enumerate(spec)], only):
            out.append(repr(e))
    except BaseException as e:
        out.append('RAISED ' + repr(e))
    return out, list(done)
spec = [(0.03, S), (0.01, None), (0.02, U), (0.0, B), (0.015, BE)]
for only in (BaseException, Exception, B, S, U):
    print(only.__name__, aio.run(run(spec, only)))
async def rf(only):
    try:
        return await raise_first_exc([aw(i, d, x) for i, (d, x) in enumerate(spec)], only)
    except BaseException as e:
        return 'RAISED ' + repr(e)
for only in (BaseException, B, U, KeyError):
    print('raise_first', only.__name__, aio.run(rf(only)))
print(aio.run(run([], BaseException)))
