import threading, tempfile, os
from aiuti.filelock import FileLock
d = tempfile.mkdtemp()
p = os.path.join(d, 'l.lock')
r = FileLock(p, reentrant=True)
assert r.acquire(); assert r.acquire()
r.release(force=True)
print("is_locked after force:", r.is_locked, "counter", r._lock_counter, "rlock", r._thread_lock)
res = {}
def other():
    res['same_obj_other_thread'] = r.acquire(timeout=0.3)
    if res['same_obj_other_thread']: r.release()
t = threading.Thread(target=other); t.start(); t.join()
r2 = FileLock(p)
res['other_obj'] = r2.acquire(timeout=0.3)
if res['other_obj']: r2.release()
print(res)
# same thread re-acquire then release: does OS lock get released?
assert r.acquire(timeout=0.3)
print("counter", r._lock_counter, r._thread_lock)
r.release()
print("after release is_locked", r.is_locked, r._thread_lock)
