import asyncio as aio, sys
from aiuti.asyncio import AsyncBackgroundBatcher
async def scenario(name, cancel_at, share):
    batches = []
    async def bf(batch):
        batches.append(list(batch))
        for k, v in batch:
            await aio.sleep(0.1)
            yield k, v * 10
    b = AsyncBackgroundBatcher(bf, max_batch_size=4, batch_timeout=0.05)
    async def call(arg, key=None):
        try:
            return ('ok', await b(arg, key=key))
        except BaseException as e:
            return ('exc', type(e).__name__, str(e)[:40])
    t1 = aio.create_task(call(1))
    t2 = aio.create_task(call(2))
    t3 = aio.create_task(call(1)) if share else aio.create_task(call(3))
    await aio.sleep(cancel_at)
    t1.cancel()
    done, pending = await aio.wait([t2, t3], timeout=2)
    print(name, 'cancel_at', cancel_at, 'share', share)
    for n, t in (('t2', t2), ('t3', t3)):
        print('   ', n, t.result() if t.done() else 'PENDING (hang)')
    # later call
    t4 = aio.create_task(call(5))
    d, p = await aio.wait([t4], timeout=2)
    print('    later', t4.result() if t4.done() else 'PENDING (hang)', 'batches', batches)
    for t in (t2, t3, t4): t.cancel()
async def main():
    await scenario('queued', 0.01, False)
    await scenario('queued-shared', 0.01, True)
    await scenario('running-before-result', 0.08, False)
    await scenario('running-before-result-shared', 0.08, True)
    await scenario('after-result', 0.2, True)
aio.run(main())
