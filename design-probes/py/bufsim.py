"""Reference semantics of BufferAsyncCalls at quiescent granularity (prototype of the Lean model).
Times are integer ticks. Producer = list of (delay, item) steps, item == 'FAIL' aborts the producer."""
def pdur(p):
    t = 0
    for d, x in p:
        t += d
        if x == 'FAIL': break
    return t
def pitems(p):
    out = []
    for d, x in p:
        if x == 'FAIL': break
        out.append(x)
    return out
class BufSim:
    def __init__(s, T, outcomes):
        s.T = T; s.outcomes = outcomes; s.now = 0
        s.queue = []; s.unfinished = 0; s.event = True
        s.phase = 'idle'; s.until = None; s.inputs = set(); s.pending_items = []
        s.getting = None; s.cur_ok = None; s.ninv = 0
        s.joiners = []; s.flaggers = []; s.out = []
    # ---- internal machinery
    def _check_join(s):
        if s.unfinished == 0 and s.joiners:
            js, s.joiners = s.joiners, []
            for w in js: s._pass_join(w)
    def _pass_join(s, w):
        if w['cancel'] and s.getting and s.getting['state'] == 'pending':
            s.getting['state'] = 'cancelled'
            if s.phase == 'awaitget': s._await_getting()
        if s.event: s.out.append(('wait-ret', w['id'], s.now))
        else: s.flaggers.append(w)
    def _set_event(s):
        s.event = True
        fs, s.flaggers = s.flaggers, []
        for w in fs: s.out.append(('wait-ret', w['id'], s.now))
    def _start_round(s, p):
        s.event = False; s.unfinished -= 1
        s._iteration([p])
    def _iteration(s, gens):
        while s.queue:
            gens.append(s.queue.pop(0)); s.unfinished -= 1
        s.getting = dict(deadline=s.now + s.T, state='pending', captured=None)
        if gens:
            s.pending_items = [x for p in gens for x in pitems(p)]
            s.phase = 'loading'; s.until = max(s.now + pdur(p) for p in gens)
        else:
            s.pending_items = []; s.phase = 'loading'; s.until = s.now
        s._check_join()
        if s.phase == 'loading' and s.until <= s.now: s._load_done()
    def _load_done(s):
        s.inputs |= set(s.pending_items); s.pending_items = []
        s._await_getting()
    def _await_getting(s):
        g = s.getting
        if g['state'] == 'got':
            X = g['captured']; s.phase = 'loadcap'; s.until = s.now + pdur(X); s.pending_items = pitems(X)
            if s.until <= s.now: s._loadcap_done()
        elif g['state'] in ('timedout', 'cancelled'): s._run_func()
        else: s.phase = 'awaitget'; s.until = None
    def _loadcap_done(s):
        s.inputs |= set(s.pending_items); s.pending_items = []
        s.unfinished -= 1
        s._iteration([])
    def _run_func(s):
        if not s.inputs:
            s._set_event(); s._end_round(); return
        k = s.ninv; s.ninv += 1
        dur, ok = s.outcomes[k] if k < len(s.outcomes) else (0, True)
        s.out.append(('start', s.now, sorted(s.inputs)))
        s.phase = 'running'; s.until = s.now + dur; s.cur_ok = ok
        if dur == 0: s._func_done()
    def _func_done(s):
        s.out.append(('end', s.now, s.cur_ok))
        if s.cur_ok:
            s.inputs = set(); s._set_event(); s._end_round()
        else:
            s._iteration([])
    def _end_round(s):
        s.phase = 'idle'; s.until = None
        if s.queue:
            s._start_round(s.queue.pop(0))
    def advance(s, t):
        while True:
            cands = []
            if s.getting and s.getting['state'] == 'pending' and s.phase != 'idle': cands.append((s.getting['deadline'], 0))
            if s.phase in ('loading', 'loadcap', 'running') and s.until is not None: cands.append((s.until, 1))
            cands = [c for c in cands if t is None or c[0] <= t]
            if not cands: break
            when, kind = min(cands); s.now = max(s.now, when)
            if kind == 0:
                s.getting['state'] = 'timedout'
                if s.phase == 'awaitget': s._await_getting()
            elif s.phase == 'loading': s._load_done()
            elif s.phase == 'loadcap': s._loadcap_done()
            elif s.phase == 'running': s._func_done()
        if t is not None: s.now = max(s.now, t)
    # ---- API
    def submit(s, t, p):
        s.advance(t); s.event = False; s.unfinished += 1
        if s.phase == 'idle': s._start_round(p)
        elif s.getting and s.getting['state'] == 'pending':
            s.getting['state'] = 'got'; s.getting['captured'] = p
            if s.phase == 'awaitget': s._await_getting()
        else: s.queue.append(p)
    def wait(s, t, wid, cancel):
        s.advance(t); w = dict(id=wid, cancel=cancel)
        if s.unfinished == 0: s._pass_join(w)
        else: s.joiners.append(w)
    def finish(s):
        s.advance(None)
        return s.out
