"""to_async_iter under the baton scheduler with a cooperative executor (worker = controlled thread)."""
import asyncio, concurrent.futures, random, sys, threading, time
import aiuti.asyncio as A
from baton import Sched, VLoop
S = None
class CoopExecutor:
    n = 0
    def __init__(self, max_workers=1): self.workers = []
    def __enter__(self): return self
    def __exit__(self, *a): self.shutdown(wait=True)
    def submit(self, fn, *args):
        fut = concurrent.futures.Future()
        CoopExecutor.n += 1; name = 'W%d' % CoopExecutor.n
        def run():
            if not fut.set_running_or_notify_cancel(): return
            try: r = fn(*args)
            except BaseException as e: fut.set_exception(e)
            else: fut.set_result(r)
        S.spawn(name, run); self.workers.append(name)
        return fut
    def shutdown(self, wait=True):
        if wait: S.point('pool.join', enabled=lambda: all(not S.threads[w]['alive'] for w in self.workers))
class BLoop(VLoop):
    def call_soon_threadsafe(self, cb, *args, **kw):
        if threading.current_thread().name.startswith('W'): S.point('cst')
        return super().call_soon_threadsafe(cb, *args, **kw)
class Boom(Exception): pass
def one(seed):
    global S
    rng = random.Random(seed); S = Sched(seed); CoopExecutor.n = 0
    A.ThreadPoolExecutor = CoopExecutor
    n = rng.randint(0, 6); fail_at = rng.choice([None, None] + list(range(n + 1)))
    vals = [rng.choice([None, 0, '', False, 1, 'x', 1]) for _ in range(n)]
    def src():
        for i in range(n):
            if fail_at == i: raise Boom(i)
            S.point('src-step')
            yield vals[i]
        if fail_at == n: raise Boom(n)
    expect = vals[:fail_at] if fail_at is not None else vals
    res = {}
    def body():
        loop = BLoop(S); asyncio.set_event_loop(loop)
        async def main():
            out = []; ticks = [0]
            async def ticker():
                while True:
                    await asyncio.sleep(1); ticks[0] += 1
            t = loop.create_task(ticker())
            try:
                async for x in A.to_async_iter(src()): out.append(x)
                res['end'] = None
            except Boom as e: res['end'] = e.args[0]
            t.cancel(); res['out'] = out
        loop.run_until_complete(main()); loop.close()
    S.spawn('L', body); S.run()
    bad = []
    if S.hung: bad.append(('hang', S.hung))
    if res.get('out') != expect: bad.append(('sequence', res.get('out'), expect))
    if res.get('end', 'missing') != fail_at: bad.append(('terminal', res.get('end', 'missing'), fail_at))
    if any(r['alive'] for nme, r in S.threads.items() if nme.startswith('W')): bad.append(('worker-alive',))
    return bad, len(S.trace)
t0 = time.time(); N = int(sys.argv[1]); nb = 0; kinds = {}; steps = 0
for seed in range(N):
    b, k = one(seed); steps += k
    if b:
        nb += 1
        for x in b: kinds[x[0]] = kinds.get(x[0], 0) + 1
        if nb <= 2: print('SEED', seed, b)
print('runs', N, 'bad', nb, kinds, 'schedule steps', steps, 'wall', round(time.time() - t0, 1))
