import asyncio as aio, sys, threading, faulthandler
from aiuti.asyncio import buffer_until_timeout
faulthandler.dump_traceback_later(8, exit=True)
calls = []
async def main(delay):
    @buffer_until_timeout(timeout=0.5)
    async def buf(xs):
        calls.append(set(xs))
    buf(1)
    await aio.sleep(delay)
    print("main done; calls so far", calls, flush=True)
delay = float(sys.argv[1])
aio.run(main(delay))
print("aio.run returned; calls", calls)
