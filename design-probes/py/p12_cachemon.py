"""C01/C05/C06 monitors on the real cache under the baton prototype: failures, caller time-outs, long computations."""
import asyncio, random, sys, time
import aiuti.asyncio as A
from baton import Sched, VLoop, ILock
class Boom(Exception): pass
def one(seed):
    rng = random.Random(seed)
    s = Sched(seed); ILock.sched = s; A.Lock = ILock
    inv = []; active = {}; overlaps = []
    nloops = rng.randint(2, 4)
    durs = [rng.choice([0, 1, 5, 70, 130]) for _ in range(8)]
    fails = [rng.random() < 0.35 for _ in range(8)]
    async def f(k):
        me = len(inv); inv.append(dict(key=k, start=s.vt, end=None, out=None))
        if active.get(k): overlaps.append((me, list(active[k])))
        active.setdefault(k, set()).add(me)
        try:
            await asyncio.sleep(durs[me % 8])
            if fails[me % 8]:
                inv[me]['out'] = 'raise'; raise Boom(me)
            inv[me]['out'] = 'ok'; return ('v', k, me)
        except asyncio.CancelledError:
            inv[me]['out'] = 'cancel'; raise
        finally:
            active[k].discard(me); inv[me]['end'] = s.vt
    class Cache(dict):
        def __getitem__(self, k): s.point('cget'); return dict.__getitem__(self, k)
        def __setitem__(self, k, v): s.point('cset'); dict.__setitem__(self, k, v)
    cache = Cache()
    w = A.threadsafe_async_cache(f, cache=cache)
    results = []
    def mk(li):
        callers = [(rng.choice(['a', 'b']), rng.choice([0, 0, 1, 30, 65]), rng.choice([None, None, 2, 61, 100])) for _ in range(rng.randint(1, 3))]
        def body():
            loop = VLoop(s); asyncio.set_event_loop(loop)
            async def caller(ci, key, delay, timeout):
                await asyncio.sleep(delay)
                t0 = s.vt
                try:
                    r = await (asyncio.wait_for(w(key), timeout) if timeout is not None else w(key))
                    results.append(dict(loop=li, key=key, t0=t0, t1=s.vt, out=('ok', r), timeout=timeout))
                except asyncio.TimeoutError:
                    results.append(dict(loop=li, key=key, t0=t0, t1=s.vt, out=('timeout',), timeout=timeout))
                except Boom as e:
                    results.append(dict(loop=li, key=key, t0=t0, t1=s.vt, out=('boom', e.args[0]), timeout=timeout))
                except BaseException as e:
                    results.append(dict(loop=li, key=key, t0=t0, t1=s.vt, out=('OTHER', type(e).__name__), timeout=timeout))
            async def main():
                await asyncio.gather(*(caller(i, *c) for i, c in enumerate(callers)))
            try: loop.run_until_complete(main())
            finally: loop.close()
        return body, len(callers)
    total = 0
    for li in range(nloops):
        b, n = mk(li); total += n; s.spawn('T%d' % li, b)
    s.run()
    bad = []
    if s.hung: bad.append(('hang', s.hung))
    if overlaps: bad.append(('C01-overlap', overlaps))
    if len(results) != total: bad.append(('C05-missing-results', len(results), total))
    okinv = {}
    for i, v in enumerate(inv):
        if v['out'] == 'ok': okinv.setdefault(v['key'], []).append(i)
    for k, l in okinv.items():
        if len(l) > 1: bad.append(('C01-recomputed-after-success', k, l))
    for r in results:
        o = r['out']
        if o[0] == 'OTHER': bad.append(('C06-foreign-exception', r))
        if o[0] == 'ok' and (o[1][1] != r['key'] or o[1][2] not in okinv.get(r['key'], [])): bad.append(('C06/C14-wrong-value', r))
        if o[0] == 'boom' and inv[o[1]]['key'] != r['key']: bad.append(('C06-foreign-boom', r))
        if o[0] == 'timeout' and (r['timeout'] is None or r['t1'] - r['t0'] != r['timeout']): bad.append(('C06-timeout-mismatch', r))
        # C05 promptness: a caller that returns a value must finish no later than the end of the successful invocation
        # for its key (if it started before it ended), i.e. never 60 s late
        if o[0] == 'ok':
            iv = inv[o[1][2]]
            expect = max(r['t0'], iv['end'])
            if r['t1'] != expect: bad.append(('C05-late', r, iv))
    return bad, len(inv), total
t0 = time.time(); N = int(sys.argv[1]); nb = 0; kinds = {}; ninv = 0; ncall = 0
for seed in range(N):
    b, a, c = one(seed); ninv += a; ncall += c
    if b:
        nb += 1
        for x in b: kinds[x[0]] = kinds.get(x[0], 0) + 1
        if nb <= 3: print('SEED', seed, b[:2])
print('runs', N, 'bad', nb, kinds, 'invocations', ninv, 'callers', ncall, 'wall', round(time.time() - t0, 1))
