"""Reference semantics of AsyncBackgroundBatcher at quiescent granularity (prototype of the Lean model).
No caller cancellation (that is C09). Times are integer ticks."""
class BatSim:
    def __init__(s, maxb, maxc, bt, ret, behaviour):
        s.maxb, s.bt, s.ret, s.behaviour = maxb, bt, ret, behaviour
        s.sem = maxc; s.semwait = []; s.running = []
        s.now = 0; s.asm = None            # dict(items, deadline)
        s.retention = {}; s.evict = []     # (time, key)
        s.fut = {}; s.callers = {}         # fid -> state ; fid -> [(cid, original)]
        s.nf = 0; s.nb = 0; s.out = []
    def _dispatch(s):
        items = s.asm['items']; s.asm = None
        b = dict(id=s.nb, items=items); s.nb += 1
        if s.sem > 0 and not s.semwait: s._start(b)
        else: s.semwait.append(b)
    def _start(s, b):
        s.sem -= 1
        s.out.append(('batch', s.now, [k for k, _, _ in b['items']]))
        b['futs'] = {k: f for k, _, f in b['items']}
        b['script'] = list(s.behaviour([(k, a) for k, a, _ in b['items']])); b['i'] = 0
        b['next'] = s.now + b['script'][0][0]
        s.running.append(b)
        s._pump(b)
    def _resolve(s, fid, outcome):
        s.fut[fid] = outcome
        for cid, orig, key in s.callers.pop(fid, []):
            s.out.append(('done', s.now, cid, outcome))
            if orig:
                if s.ret > 0: s.evict.append((s.now + s.ret, key))
                else: del s.retention[key]
    def _finish(s, b, exc):
        if exc is not None:
            for k, f in b['futs'].items(): s._resolve(f, ('exc', exc))
        s.running.remove(b); s.sem += 1
        if s.semwait: s._start(s.semwait.pop(0))
    def _pump(s, b):
        while b in s.running and b['next'] <= s.now:
            d, act = b['script'][b['i']]; b['i'] += 1
            if act[0] == 'yield':
                _, k, r = act
                if k not in b['futs']: s._finish(b, 'KeyError'); return
                f = b['futs'].pop(k)
                s._resolve(f, ('exc', r[1]) if isinstance(r, tuple) and r[0] == 'E' else ('ok', r))
            elif act[0] == 'raise': s._finish(b, act[1]); return
            elif act[0] == 'end':
                for k, f in list(b['futs'].items()): s._resolve(f, ('exc', 'ValueError'))
                b['futs'] = {}; s._finish(b, None); return
            b['next'] = s.now + b['script'][b['i']][0]
    def advance(s, t):
        while True:
            c = []
            if s.asm: c.append((s.asm['deadline'], 1, None))
            for b in s.running: c.append((b['next'], 0, b['id']))
            for (tt, k) in s.evict: c.append((tt, 2, k))
            c = [x for x in c if t is None or x[0] <= t]
            if not c: break
            when, kind, ref = min(c, key=lambda x: (x[0], x[1], str(x[2]))); s.now = max(s.now, when)
            if kind == 1: s._dispatch()
            elif kind == 0: s._pump(next(b for b in s.running if b['id'] == ref))
            else:
                s.evict.remove((when, ref)); s.retention.pop(ref, None)
        if t is not None: s.now = max(s.now, t)
    def call(s, t, cid, arg, key):
        s.advance(t)
        if key in s.retention:
            fid = s.retention[key]
            if s.fut[fid] is not None: s.out.append(('done', s.now, cid, s.fut[fid]))
            else: s.callers[fid].append((cid, False, key))
            return
        fid = s.nf; s.nf += 1; s.fut[fid] = None; s.retention[key] = fid; s.callers[fid] = [(cid, True, key)]
        it = (key, arg, fid)
        if s.asm is None: s.asm = dict(items=[it], deadline=None)
        else: s.asm['items'].append(it)
        if len(s.asm['items']) >= s.maxb: s._dispatch()
        else: s.asm['deadline'] = s.now + s.bt
    def finish(s):
        s.advance(None); return s.out
