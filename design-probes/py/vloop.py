import asyncio, heapq
class VLoop(asyncio.SelectorEventLoop):
    """virtual-time loop; never jumps the clock while work handed to an executor is in flight"""
    def __init__(self):
        super().__init__(); self._vt = 0.0; self._clock_resolution = 1e-9; self._inflight = set()
    def time(self): return self._vt
    def run_in_executor(self, executor, func, *args):
        fut = super().run_in_executor(executor, func, *args)
        self._inflight.add(fut); fut.add_done_callback(self._inflight.discard)
        return fut
    def _run_once(self):
        while self._scheduled and self._scheduled[0]._cancelled:
            h = heapq.heappop(self._scheduled); h._scheduled = False
            self._timer_cancelled_count -= 1
        if not self._ready and not self._stopping:
            ev = self._selector.select(0.005 if self._inflight else 0)
            if ev: self._process_events(ev)
            if not self._ready:
                if self._inflight:
                    return                      # wait (in real time) for the helper thread
                if self._scheduled:
                    self._vt = max(self._vt, self._scheduled[0]._when)
        super()._run_once()
def vrun(coro):
    loop = VLoop(); asyncio.set_event_loop(loop)
    try: return loop.run_until_complete(coro)
    finally: loop.close()
