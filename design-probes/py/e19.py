from aiuti.parsing import parse_to_dict as p
def t(*a, **k):
    try: return p(*a, **k)
    except BaseException as e: return ('EXC', type(e).__name__, str(e))
print(t(['a=1=2', 'b==', '=5', ' c = 3 ']))
print(t(['a']))
print(t(['a::b:::c'], sep='::'))
print(t(['a:::v'], sep='::'))
print(t([('a', '1'), ('b', 2), (3, '[1,2]'), ('(1,2)', '{"x": 1}')]))
print(t({'a': '1', 'b': 2, 3: 'None', '[1]': 'x'}))    # unhashable key after parse
print(t(['[1]=2']))
print(t([('a','1','extra')]))
print(t([('a',)]))
print(t(['a=__import__("os").getcwd()', 'b=1+2', 'c=-1', 'd=1+2j', 'e=x.y', 'f=f(1)']))
def bad(s): raise KeyboardInterrupt
print(t(['a=1'], parse=bad))
def bad2(s): raise RuntimeError('x')
print(t(['a=1'], parse=bad2))
print(t(['1=a', '1.0=b', 'True=c']))
print(t(['a=1'], sep=''))
print(t('a=1'))
print(t([b'a=1']))
print(t(['a=1', 'a=2', 'b=3', "'a'=4"]))
print(t(['a= 1', 'b=\t2', 'c=1 ']))
