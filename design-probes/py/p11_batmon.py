"""Property-level monitors (C04, C10, C11) over real executions of AsyncBackgroundBatcher."""
import asyncio as aio, random, sys, logging
sys.argv = [sys.argv[0], '0'] + sys.argv[1:]
import p8_batdiff as P
from vloop import VLoop
from aiuti.asyncio import AsyncBackgroundBatcher
TICK = P.TICK
def run_real(cfg, calls, plan):
    """like P.run_real but also logs batch ends, batch identity answering each caller, and arrival order"""
    loop = VLoop(); aio.set_event_loop(loop); out = []
    now = lambda: round(loop.time() / TICK)
    beh = P.make_behaviour(plan)
    async def main():
        nb = [0]
        async def bf(batch):
            b = nb[0]; nb[0] += 1
            script = beh(batch)
            out.append(('batch', now(), b, [k for k, _ in batch], script))
            try:
                for d, act in script:
                    await aio.sleep(d * TICK)
                    if act[0] == 'yield':
                        r = act[2]
                        yield act[1], (P.E(r[1]) if isinstance(r, tuple) and r[0] == 'E' else r)
                    elif act[0] == 'raise': raise P.E(act[1])
            finally:
                out.append(('batchend', now(), b))
        bt = AsyncBackgroundBatcher(bf, max_batch_size=cfg['maxb'], max_concurrent_batches=cfg['maxc'],
                                    batch_timeout=cfg['bt'] * TICK, retention_timeout=cfg['ret'] * TICK)
        async def caller(cid, arg, key):
            try: r = await bt(arg, key=key); out.append(('done', now(), cid, ('ok', r)))
            except P.E as e: out.append(('done', now(), cid, ('exc', e.args[0])))
            except BaseException as e: out.append(('done', now(), cid, ('exc', type(e).__name__)))
        ts = []
        for (t, cid, arg, key) in calls:
            await aio.sleep(t * TICK - loop.time()); ts.append(aio.create_task(caller(cid, arg, key)))
        await aio.sleep(100000 * TICK)
        for t in ts:
            if not t.done(): out.append(('pending', now(), None)); t.cancel()
    loop.run_until_complete(main()); loop.close()
    return out
def spec_outcome(script, key):
    """the property's reading: first yield for the key unless a raise / duplicate / unknown key comes first"""
    seen = set(); batchkeys = None
    for d, act in script:
        if act[0] == 'yield':
            k, r = act[1], act[2]
            if k in seen or k not in spec_outcome.keys: return ('exc', 'KeyError')
            seen.add(k)
            if k == key: return ('exc', r[1]) if isinstance(r, tuple) and r[0] == 'E' else ('ok', r)
        elif act[0] == 'raise': return ('exc', act[1])
        elif act[0] == 'end': return ('exc', 'ValueError')
    return None
def monitors(cfg, calls, plan, out):
    bad = []
    batches = [e for e in out if e[0] == 'batch']; ends = {e[2]: e[1] for e in out if e[0] == 'batchend'}
    done = {e[2]: e for e in out if e[0] == 'done'}
    if any(e[0] == 'pending' for e in out): bad.append(('C04-pending',))
    # which calls created work: replay the retention rule on observed times (key pending or within retention)
    # C10 size / nonempty / concurrency
    for b in batches:
        if not (1 <= len(b[3]) <= cfg['maxb']): bad.append(('C10-size', b[:4]))
        if len(set(b[3])) != len(b[3]): bad.append(('C11-dup-key', b[:4]))
    evs = sorted([(b[1], 1, b[2]) for b in batches] + [(ends[b[2]], 0, b[2]) for b in batches if b[2] in ends])
    run = 0
    for t, kind, _ in evs:
        run += 1 if kind else -1
        if run > cfg['maxc']: bad.append(('C10-concurrency', t))
    # C10 fifo: keys in batch-start order must equal the order of the work-creating calls
    flat = [k for b in batches for k in b[3]]
    # work-creating calls determined from C11: a call creates work iff its key is not pending and not within retention
    pending_until = {}; work = []; answered_by = {}
    for (t, cid, arg, key) in calls:
        d = pending_until.get(key)
        if d is None or (d != 'pending' and t > d): work.append((t, cid, key)); pending_until[key] = 'pending'
        # find when the original completes to close the window: need observed completion of the work item
        # (computed below in a second pass); approximate with observed done times of the original
        if pending_until[key] == 'pending':
            orig = [w for w in work if w[2] == key][-1]
            if orig[1] in done:
                comp = done[orig[1]][1]
                if t >= comp: pass
            # close the window when we pass the completion time
        # we cannot know completion before it happens; handled by recomputing with observed times:
    # second, exact pass using observed completion times
    work = []; window = {}
    for (t, cid, arg, key) in calls:
        w = window.get(key)
        if w is not None:
            orig_cid, = w
            comp = done[orig_cid][1] if orig_cid in done else None
            if comp is None or t < comp or (cfg['ret'] > 0 and t < comp + cfg['ret']):
                answered_by[cid] = orig_cid; continue
        work.append((t, cid, key)); window[key] = (cid,); answered_by[cid] = cid
    if [k for _, _, k in work] != flat:
        bad.append(('C10/C11-fifo-or-sharing', [k for _, _, k in work], flat)); return bad
    # C10 deadline / sharing: for each batch, items = consecutive work items; start <= last arrival + bt if a slot was free
    i = 0
    for b in batches:
        items = work[i:i + len(b[3])]; i += len(b[3])
        if not items: continue
        last = items[-1][0]
        slot_free_at = b[1]
        # number running at last+bt (before this batch):
        running = sum(1 for o in batches if o[2] != b[2] and o[1] <= last + cfg['bt'] and ends.get(o[2], 10**12) > last + cfg['bt'] and o[2] < b[2])
        if running < cfg['maxc'] and b[1] > last + cfg['bt']: bad.append(('C10-late', b[:4], last))
        if len(b[3]) < cfg['maxb'] and b[1] < last + cfg['bt']: bad.append(('C10-early', b[:4], last))
        for a, c in zip(items, items[1:]):
            pass
    # gaps < bt must share a batch unless full
    i = 0; pos = {}
    for bi, b in enumerate(batches):
        for k in b[3]: pos[i] = bi; i += 1
    for j in range(len(work) - 1):
        if j + 1 in pos and work[j + 1][0] - work[j][0] < cfg['bt'] and pos[j] != pos[j + 1] and len(batches[pos[j]][3]) < cfg['maxb']:
            bad.append(('C10-not-shared', work[j], work[j + 1]))
    # C04 / C11 outcome: every caller gets the spec outcome of the batch that carried its (original's) key
    i = 0; carried = {}
    for b in batches:
        for k in b[3]:
            carried[work[i][1]] = b; i += 1
    for (t, cid, arg, key) in calls:
        o = answered_by.get(cid)
        if o in carried and cid in done:
            b = carried[o]; spec_outcome.keys = set(b[3])
            exp = spec_outcome(b[4], key)
            if done[cid][3] != exp: bad.append(('C04-outcome', cid, key, done[cid][3], exp))
    return bad
N = int(sys.argv[2]) if len(sys.argv) > 2 else 2000
nb = 0; kinds = {}; shared = 0
for seed in range(N):
    rng = random.Random(seed); cfg, calls, plan = P.gen(rng)
    out = run_real(cfg, calls, plan)
    b = monitors(cfg, calls, plan, out)
    if b:
        nb += 1
        for x in b: kinds[x[0]] = kinds.get(x[0], 0) + 1
        if nb <= 3: print('SEED', seed, cfg, calls, '\n  out', [e[:4] for e in out], '\n  BAD', b[:3])
print('programs', N, 'with violations', nb, kinds)
