import asyncio as aio, threading, time
from asyncio import runners
from aiuti.asyncio import threadsafe_async_cache
log = []
gates = {}
active = set()
inv = 0
@threadsafe_async_cache
async def f(k):
    global inv
    inv += 1; me = inv
    name = threading.current_thread().name
    log.append(('start', me, name, 'active_before', sorted(active)))
    active.add(me)
    try:
        g = gates.setdefault(name, threading.Event())
        while not g.is_set():
            await aio.sleep(0.01)
        return ('val', me)
    finally:
        active.discard(me)
        log.append(('end', me, name))

started = threading.Event()
# --- loop A: start computing, leave it pending
loopA = aio.new_event_loop()
def runA():
    aio.set_event_loop(loopA)
    async def mainA():
        t = loopA.create_task(f('k'))
        await aio.sleep(0.05)
        return t
    global tA
    tA = loopA.run_until_complete(mainA())
ta = threading.Thread(target=runA, name='A'); ta.start(); ta.join()
print("A stopped; task pending:", not tA.done(), "A running:", loopA.is_running())
res = {}
def runner(name):
    try:
        res[name] = ('ok', aio.run(f('k')))
    except BaseException as e:
        res[name] = ('exc', type(e).__name__, str(e))
tb = threading.Thread(target=runner, args=('B',), name='B'); tb.start()
time.sleep(0.2)   # B took over and is computing
# A shuts down (what asyncio.run does at exit)
def shutA():
    aio.set_event_loop(loopA)
    runners._cancel_all_tasks(loopA)
    loopA.close()
tsa = threading.Thread(target=shutA, name='A'); tsa.start(); tsa.join()
print("A shut down; tA cancelled:", tA.cancelled())
tc = threading.Thread(target=runner, args=('C',), name='C'); tc.start()
time.sleep(0.2)
print("active invocations now (B and C?):", sorted(active))
gates.setdefault('C', threading.Event()).set(); tc.join()
gates.setdefault('B', threading.Event()).set(); tb.join()
for l in log: print(l)
print(res)
