import asyncio as aio
from vloop import vrun
from aiuti.asyncio import buffer_until_timeout
T = 1.0
async def scen(name, prog, outcomes=(), dur=0.0):
    loop = aio.get_running_loop(); log = []; n = [0]
    t0 = loop.time()
    now = lambda: round(loop.time() - t0, 3)
    @buffer_until_timeout(timeout=T)
    async def buf(xs):
        i = n[0]; n[0] += 1
        log.append(('start', now(), sorted(xs)))
        await aio.sleep(dur)
        ok = outcomes[i] if i < len(outcomes) else True
        log.append(('end', now(), ok))
        if not ok: raise RuntimeError('fail')
    async def slow(items):
        for d, x in items:
            await aio.sleep(d)
            if x == 'FAIL': raise ValueError('producer')
            yield x
    async def aw(d, x):
        await aio.sleep(d); return x
    tasks = []
    async def waiter(tag, cancel):
        await buf.wait(cancel=cancel); log.append(('wait-ret', tag, now()))
    for step in prog:
        at = step[0]
        await aio.sleep(max(0, at - now()))
        kind = step[1]
        if kind == 'put': buf(step[2])
        elif kind == 'amap': buf.amap(slow(step[2]))
        elif kind == 'await': buf.await_(aw(*step[2]))
        elif kind == 'map': buf.map(step[2])
        elif kind == 'wait': tasks.append(aio.create_task(waiter(step[2], step[3])))
    await buf.wait(cancel=False)
    await aio.gather(*tasks)
    print(name, log)
    buf._waiting.cancel()
async def main():
    import logging; logging.disable(logging.CRITICAL)
    await scen('slow-load>T', [(0, 'amap', [(0.5, 'a'), (2.0, 'b')])])
    await scen('capture-during-load', [(0, 'amap', [(2.5, 'a')]), (0.4, 'put', 'x'), (0.6, 'put', 'y')])
    await scen('producer-fail-prefix', [(0, 'amap', [(0.1, 'a'), (0.1, 'FAIL'), (0.1, 'c')]), (0, 'put', 'z')])
    await scen('fail-retry', [(0, 'put', 1)], outcomes=[False, False, True], dur=0.25)
    await scen('fail-retry-arrivals', [(0, 'put', 1), (1.5, 'put', 2), (2.0, 'put', 3)], outcomes=[False, True], dur=0.25)
    await scen('wait-during-func', [(0, 'put', 1), (1.2, 'put', 2), (1.3, 'wait', 'w', True)], dur=0.5)
    await scen('wait-cancel-during-load', [(0, 'amap', [(0.7, 'a')]), (0.2, 'wait', 'w', True)])
    await scen('wait-nocancel', [(0, 'put', 1), (0.2, 'wait', 'w', False)])
    await scen('two-waiters', [(0, 'put', 1), (0.2, 'wait', 'w1', True), (0.2, 'wait', 'w2', True), (0.2, 'put', 2)])
    await scen('empty-iters', [(0, 'map', iter([])), (0, 'amap', []), (0.1, 'wait', 'w', True)])
    await scen('arrive-during-func', [(0, 'put', 1), (1.1, 'put', 2), (1.2, 'put', 3)], dur=0.5)
vrun(main())
