import asyncio as aio, threading, time
from aiuti.asyncio import ensure_aw
T = aio.new_event_loop()   # idle target loop
res = {}
def caller(name, start_delay, dur):
    async def main():
        await aio.sleep(start_delay)
        async def work():
            await aio.sleep(dur)
            return (name, threading.current_thread().name, aio.get_running_loop() is T)
        t0 = time.time()
        try:
            r = await aio.wait_for(ensure_aw(work(), T), 3)
            res[name] = ('ok', r, round(time.time() - t0, 2))
        except BaseException as e:
            res[name] = ('exc', type(e).__name__, round(time.time() - t0, 2))
    aio.run(main())
a = threading.Thread(target=caller, args=('A', 0, 0.3)); b = threading.Thread(target=caller, args=('B', 0.1, 0.6))
a.start(); b.start(); a.join(); b.join()
print(res)
