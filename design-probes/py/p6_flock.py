import os, sys, tempfile, threading, types, errno, time as _time
import fcntl as _fcntl
import aiuti.filelock as FL
from baton import Sched
S = None
class CoopLock:
    def __init__(self, reentrant=False): self.owner = None; self.depth = 0; self.re = reentrant
    def acquire(self, blocking=True, timeout=-1):
        me = threading.current_thread().name
        def free(): return self.owner is None or (self.re and self.owner == me)
        if not blocking:
            S.point('tl.try')
            if not free(): return False
        elif timeout is not None and timeout >= 0:
            S.point('tl.timed', enabled=free, deadline=S.vt + timeout)
            if not free(): return False
        else:
            S.point('tl.acq', enabled=free)
        self.owner = me; self.depth += 1; return True
    def release(self):
        me = threading.current_thread().name
        if self.owner is None or (self.re and self.owner != me): raise RuntimeError('release unlocked lock')
        self.depth -= 1
        if self.depth == 0: self.owner = None
        S.point('tl.rel')
class ThreadingProxy(types.ModuleType):
    def __getattr__(self, n): return getattr(threading, n)
    @staticmethod
    def Lock(): return CoopLock(False)
    @staticmethod
    def RLock(): return CoopLock(True)
class OsProxy(types.ModuleType):
    def __getattr__(self, n): return getattr(os, n)
    @staticmethod
    def open(p, m, *a): S.point('os.open'); return os.open(p, m, *a)
    @staticmethod
    def close(fd): S.point('os.close'); return os.close(fd)
class FcntlProxy(types.ModuleType):
    def __getattr__(self, n): return getattr(_fcntl, n)
    @staticmethod
    def flock(fd, op):
        if op == _fcntl.LOCK_UN or op & _fcntl.LOCK_NB:
            S.point('flock.nb'); return _fcntl.flock(fd, op)
        def can():
            try: _fcntl.flock(fd, op | _fcntl.LOCK_NB); return True
            except OSError: return False
        S.point('flock.block', enabled=can)     # lock is taken inside `can` when it becomes enabled
class TimeProxy(types.ModuleType):
    @staticmethod
    def time(): return S.vt
    @staticmethod
    def sleep(d): S.point('sleep', enabled=lambda: False, deadline=S.vt + d)
FL.threading = ThreadingProxy('t'); FL.os = OsProxy('o'); FL.fcntl = FcntlProxy('f'); FL.time = TimeProxy('tm')
def one(seed, nthreads, nobjs, reentrant):
    global S
    S = Sched(seed)
    d = tempfile.mkdtemp(); path = os.path.join(d, 'x.lock')
    objs = [FL.FileLock(path, reentrant=reentrant) for _ in range(nobjs)]
    occ = [0]; maxocc = [0]; results = []
    def body(i):
        def f():
            o = objs[i % nobjs]
            for r in range(2):
                mode = (seed + i + r) % 3
                ok = o.acquire() if mode == 0 else o.acquire(blocking=False) if mode == 1 else o.acquire(timeout=0.2)
                results.append(ok)
                if ok:
                    occ[0] += 1; maxocc[0] = max(maxocc[0], occ[0])
                    S.point('cs')
                    occ[0] -= 1
                    o.release()
        return f
    for i in range(nthreads): S.spawn(f'T{i}', body(i))
    S.run()
    for o in objs: assert not o.is_locked
    return maxocc[0], S.hung, sum(results), len(results)
t0 = _time.time(); worst = 0; hung = 0; got = 0; tot = 0
for seed in range(600):
    m, h, g, t = one(seed, 2 + seed % 3, 1 + seed % 2, bool(seed % 2 == 0 and False))
    worst = max(worst, m); hung += bool(h); got += g; tot += t
print('600 schedules: max occupancy', worst, 'hangs', hung, 'acquired', got, 'of', tot, 'wall', round(_time.time() - t0, 2))
