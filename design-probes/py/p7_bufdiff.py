import asyncio as aio, random, sys, logging, time as _time
from vloop import VLoop
from bufsim import BufSim
from aiuti.asyncio import BufferAsyncCalls
logging.disable(logging.CRITICAL)
TICK = 1 / 1024
def gen(rng):
    T = rng.choice([64, 256]) * 16
    n = rng.randint(1, 8); t = 0; prog = []; item = 0
    grid = [0, 16, T // 2, T - 16, T, T + 16, 2 * T, 3 * T + 16]
    for i in range(n):
        t += rng.choice(grid) + 1          # +1: distinct low-order offset per input
        r = rng.random()
        if r < 0.22:
            prog.append((t, 'wait', i, rng.random() < 0.6))
        else:
            kind = rng.choice(['put', 'put', 'await', 'amap', 'map', 'mapiter'])
            if kind == 'put': p = [(0, item)]; item += 1
            elif kind == 'await': p = [(rng.choice([0, 16, T // 2, T + 32]), rng.choice([item, 'FAIL']))]; item += 1
            elif kind in ('map', 'mapiter'):
                k = rng.randint(0, 3); p = [(0, item + j) for j in range(k)]; item += k
                if kind == 'mapiter' and rng.random() < 0.3: p.append((0, 'FAIL'))
            else:
                k = rng.randint(0, 3); p = []
                for j in range(k): p.append((rng.choice([0, 16, T // 2, T + 32]), item)); item += 1
                if rng.random() < 0.3: p.insert(rng.randint(0, len(p)), (rng.choice([0, 16]), 'FAIL'))
            prog.append((t, kind, p))
    outcomes = [(rng.choice([0, T // 2, 2 * T]), rng.random() < 0.65) for _ in range(6)]
    return T, prog, outcomes
def run_model(T, prog, outcomes):
    m = BufSim(T, outcomes)
    for st in prog:
        if st[1] == 'wait': m.wait(st[0], st[2], st[3])
        else: m.submit(st[0], st[2])
    return m.finish()
def run_real(T, prog, outcomes):
    loop = VLoop(); aio.set_event_loop(loop); out = []
    now = lambda: round(loop.time() / TICK)
    async def main():
        n = [0]
        async def func(xs):
            k = n[0]; n[0] += 1
            dur, ok = outcomes[k] if k < len(outcomes) else (0, True)
            out.append(('start', now(), sorted(xs)))
            await aio.sleep(dur * TICK)
            out.append(('end', now(), ok))
            if not ok: raise RuntimeError('f')
        buf = BufferAsyncCalls(func, timeout=T * TICK)
        async def agen(p):
            for d, x in p:
                await aio.sleep(d * TICK)
                if x == 'FAIL': raise ValueError('p')
                yield x
        async def aw(p):
            d, x = p[0]; await aio.sleep(d * TICK)
            if x == 'FAIL': raise ValueError('p')
            return x
        def it(p):
            for d, x in p:
                if x == 'FAIL': raise ValueError('p')
                yield x
        tasks = []
        async def waiter(i, c):
            await buf.wait(cancel=c); out.append(('wait-ret', i, now()))
        for st in prog:
            await aio.sleep(st[0] * TICK - loop.time())
            if st[1] == 'wait': tasks.append(aio.create_task(waiter(st[2], st[3])))
            elif st[1] == 'put': buf(st[2][0][1])
            elif st[1] == 'await': buf.await_(aw(st[2]))
            elif st[1] == 'amap': buf.amap(agen(st[2]))
            elif st[1] == 'map': buf.map([x for _, x in st[2]])
            elif st[1] == 'mapiter': buf.map(it(st[2]))
        await aio.sleep(200 * T * TICK)
        for t in tasks:
            if not t.done(): out.append(('wait-pending', None, None)); t.cancel()
        buf._waiting.cancel()
    loop.run_until_complete(main()); loop.close()
    return out
N = int(sys.argv[1]); bad = 0; t0 = _time.time(); stats = {}
for seed in range(N):
    rng = random.Random(seed)
    T, prog, outcomes = gen(rng)
    a = run_model(T, prog, outcomes); b = run_real(T, prog, outcomes)
    for st in prog: stats[st[1]] = stats.get(st[1], 0) + 1
    if a != b:
        bad += 1
        if bad <= 3:
            print('SEED', seed, 'T', T, '\n prog', prog, '\n outcomes', outcomes, '\n model', a, '\n real ', b)
print('cases', N, 'mismatches', bad, 'wall', round(_time.time() - t0, 1), stats)
