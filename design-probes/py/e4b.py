import asyncio as aio
from vloop import vrun
from aiuti.asyncio import AsyncBackgroundBatcher
class E1(Exception): pass
async def scen(name, script, keys, **cfg):
    loop = aio.get_running_loop(); log = []
    async def bf(batch):
        log.append(('start', round(loop.time(), 3), [k for k, _ in batch]))
        for act in script:
            await aio.sleep(0.01)
            if act[0] == 'y': yield act[1], act[2]
            elif act[0] == 'raise': raise act[1]
        log.append(('end', round(loop.time(), 3)))
    b = AsyncBackgroundBatcher(bf, batch_timeout=0.05, **cfg)
    async def call(k):
        try: return ('ok', await aio.wait_for(b(k, key=k), 5), round(loop.time(), 3))
        except BaseException as e: return ('exc', type(e).__name__, str(e)[:30], round(loop.time(), 3))
    res = await aio.gather(*(call(k) for k in keys))
    print(name, dict(zip(keys, res)), log)
async def main():
    e = E1('boom')
    await scen('reverse', [('y','c',3),('y','b',2),('y','a',1)], 'abc')
    await scen('excval', [('y','a',e),('y','b',2),('y','c',E1('x'))], 'abc')
    await scen('omit', [('y','a',1),('y','c',3)], 'abc')
    await scen('raise-mid', [('y','a',1),('raise',E1('mid')),('y','c',3)], 'abc')
    await scen('twice', [('y','a',1),('y','a',11),('y','b',2),('y','c',3)], 'abc')
    await scen('unknown', [('y','a',1),('y','zz',0),('y','b',2),('y','c',3)], 'abc')
    await scen('baseexc-value', [('y','a',KeyboardInterrupt()),('y','b',2),('y','c',3)], 'abc')
    await scen('size', [('y',k,1) for k in 'abcde'], 'abcde', max_batch_size=2, max_concurrent_batches=1)
vrun(main())
