import asyncio as aio, random, sys, logging, time as _time
from vloop import VLoop
from batsim import BatSim
from aiuti.asyncio import AsyncBackgroundBatcher
logging.disable(logging.CRITICAL)
TICK = 1 / 1024
class E(Exception): pass
def gen(rng):
    bt = 64; cfg = dict(maxb=rng.randint(1, 5), maxc=rng.randint(1, 3), bt=bt, ret=rng.choice([0, 0, 96, 640]))
    n = rng.randint(1, 10); t = 0; calls = []
    keys = ['a', 'b', 'c', 'd'][:rng.randint(1, 4)]
    grid = [0, 16, bt - 16, bt, bt + 16, 2 * bt, 96 - 16, 96 + 16, 640 + 16, 5 * bt]
    for i in range(n):
        t += rng.choice(grid) + 1
        calls.append((t, i, rng.randint(0, 9), rng.choice(keys)))
    # behaviour table, per key and per occurrence index
    plan = dict(per={k: [rng.choice(['v', 'v', 'v', 'e', 'omit', 'twice', 'unknown']) for _ in range(6)] for k in keys},
                order=rng.choice(['fwd', 'rev', 'shuf']), raise_at=[rng.choice([None, None, None, 0, 1, 2]) for _ in range(12)],
                idelay=rng.choice([0, 16, 48, 160]), tail=rng.choice([0, 16, 160]), seed=rng.randint(0, 9999))
    return cfg, calls, plan
def make_behaviour(plan):
    seen = {}; nb = [0]
    def behaviour(batch):
        b = nb[0]; nb[0] += 1
        r = random.Random(plan['seed'] + b)
        items = list(batch)
        if plan['order'] == 'rev': items.reverse()
        elif plan['order'] == 'shuf': r.shuffle(items)
        script = []
        for j, (k, a) in enumerate(items):
            if plan['raise_at'][b % 12] == j: script.append((plan['idelay'], ('raise', 'E%d' % b))); return script
            occ = seen.get(k, 0); seen[k] = occ + 1
            kind = plan['per'][k][occ % 6]
            if kind == 'v': script.append((plan['idelay'], ('yield', k, (k, a, b))))
            elif kind == 'e': script.append((plan['idelay'], ('yield', k, ('E', 'val-%s-%d' % (k, b)))))
            elif kind == 'omit': pass
            elif kind == 'twice':
                script.append((plan['idelay'], ('yield', k, (k, a, b)))); script.append((plan['idelay'], ('yield', k, 'dup')))
            elif kind == 'unknown': script.append((plan['idelay'], ('yield', 'zz', 0)))
        script.append((plan['tail'], ('end',)))
        return script
    return behaviour
def run_model(cfg, calls, plan):
    m = BatSim(cfg['maxb'], cfg['maxc'], cfg['bt'], cfg['ret'], make_behaviour(plan))
    for (t, cid, arg, key) in calls: m.call(t, cid, arg, key)
    return sorted(m.finish(), key=lambda e: (e[1], repr(e)))
def run_real(cfg, calls, plan):
    loop = VLoop(); aio.set_event_loop(loop); out = []
    now = lambda: round(loop.time() / TICK)
    beh = make_behaviour(plan)
    async def main():
        async def bf(batch):
            out.append(('batch', now(), [k for k, _ in batch]))
            for d, act in beh(batch):
                await aio.sleep(d * TICK)
                if act[0] == 'yield':
                    r = act[2]
                    yield act[1], (E(r[1]) if isinstance(r, tuple) and r[0] == 'E' else r)
                elif act[0] == 'raise': raise E(act[1])
        b = AsyncBackgroundBatcher(bf, max_batch_size=cfg['maxb'], max_concurrent_batches=cfg['maxc'],
                                   batch_timeout=cfg['bt'] * TICK, retention_timeout=cfg['ret'] * TICK)
        async def caller(cid, arg, key):
            try:
                r = await b(arg, key=key); out.append(('done', now(), cid, ('ok', r)))
            except E as e: out.append(('done', now(), cid, ('exc', e.args[0])))
            except BaseException as e: out.append(('done', now(), cid, ('exc', type(e).__name__)))
        ts = []
        for (t, cid, arg, key) in calls:
            await aio.sleep(t * TICK - loop.time()); ts.append(aio.create_task(caller(cid, arg, key)))
        await aio.sleep(100000 * TICK)
        for t in ts:
            if not t.done(): out.append(('pending', None)); t.cancel()
    loop.run_until_complete(main()); loop.close()
    return sorted(out, key=lambda e: (e[1], repr(e)))
N = int(sys.argv[1]); bad = 0; t0 = _time.time()
for seed in range(N):
    rng = random.Random(seed); cfg, calls, plan = gen(rng)
    a = run_model(cfg, calls, plan); b = run_real(cfg, calls, plan)
    if a != b:
        bad += 1
        if bad <= 3: print('SEED', seed, cfg, '\n calls', calls, '\n plan', plan, '\n model', a, '\n real ', b)
print('cases', N, 'mismatches', bad, 'wall', round(_time.time() - t0, 1))
