"""Throwaway prototype: baton scheduler + shared virtual clock + cooperative selector."""
import asyncio, heapq, selectors, threading, random

class Deadlock(Exception): pass

class Sched:
    def __init__(self, seed):
        self.rng = random.Random(seed)
        self.vt = 0.0
        self.mu = threading.Lock()
        self.threads = {}      # name -> dict(sem, enabled(callable)|None, deadline|None, alive)
        self.trace = []
        self.cur = None
        self.hung = None
    # -- thread management
    def spawn(self, name, fn):
        rec = dict(sem=threading.Semaphore(0), enabled=lambda: True, deadline=None, alive=True, label='start')
        self.threads[name] = rec
        def body():
            rec['sem'].acquire()
            self.cur = name
            try: fn()
            finally:
                rec['alive'] = False
                self._handoff(None)
        t = threading.Thread(target=body, name=name, daemon=True); rec['thread'] = t; t.start()
    def run(self):
        """called from the main (uncontrolled) thread: start the first thread and wait for all"""
        self.done = threading.Event()
        self._pick_and_release()
        self.done.wait(30)
        if not self.done.is_set(): raise RuntimeError('real-time watchdog')
    def _candidates(self):
        return [n for n, r in self.threads.items() if r['alive'] and r['enabled'] is not None and r['enabled']()]
    def _pick_and_release(self):
        while True:
            c = self._candidates()
            if c:
                n = self.rng.choice(sorted(c)); self.trace.append(n)
                r = self.threads[n]; r['enabled'] = None
                self.cur = n; r['sem'].release(); return n
            # nobody enabled: advance virtual time to the earliest deadline
            dl = [r['deadline'] for r in self.threads.values() if r['alive'] and r['deadline'] is not None]
            if not dl:
                if any(r['alive'] for r in self.threads.values()):
                    self.hung = [(n, r['label']) for n, r in self.threads.items() if r['alive']]
                self.done.set(); return None
            self.vt = max(self.vt, min(dl))
    def _handoff(self, me):
        nxt = self._pick_and_release()
        if me is not None and nxt != me:
            self.threads[me]['sem'].acquire()
            self.cur = me
        elif me is not None and nxt == me:
            self.threads[me]['sem'].acquire()   # we released our own semaphore
    def point(self, label, enabled=lambda: True, deadline=None):
        """schedule point of the current thread"""
        me = threading.current_thread().name
        r = self.threads.get(me)
        if r is None: return     # uncontrolled thread
        r['label'] = label; r['deadline'] = deadline
        r['enabled'] = (lambda: enabled() or (deadline is not None and self.vt >= deadline))
        self._handoff(me)
        r['deadline'] = None

class CoopSelector(selectors.SelectSelector):
    def __init__(self, sched): super().__init__(); self.sched = sched
    def select(self, timeout=None):
        ev = super().select(0)
        if ev or timeout == 0: 
            return ev
        dl = None if timeout is None else self.sched.vt + timeout
        box = {}
        def en():
            box['ev'] = selectors.SelectSelector.select(self, 0)
            return bool(box['ev'])
        self.sched.point('idle', enabled=en, deadline=dl)
        return super().select(0)

class VLoop(asyncio.SelectorEventLoop):
    def __init__(self, sched):
        super().__init__(CoopSelector(sched)); self.sched = sched; self._clock_resolution = 1e-9
    def time(self): return self.sched.vt

class ILock:
    """cooperative lock with schedule points"""
    sched = None
    def __init__(self): self.owner = None
    def __enter__(self):
        self.sched.point('lock?', enabled=lambda: self.owner is None)
        assert self.owner is None; self.owner = threading.current_thread().name; return self
    def __exit__(self, *a):
        self.owner = None; self.sched.point('unlock')
