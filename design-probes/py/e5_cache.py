import asyncio as aio, threading, time
from asyncio import runners
from aiuti.asyncio import threadsafe_async_cache
gate = threading.Event()
@threadsafe_async_cache
async def f(k):
    name = threading.current_thread().name
    print('invoke on', name, flush=True)
    if name == 'A':
        await aio.sleep(1000)
    return 'val-' + name

loopA = aio.new_event_loop()
stopA = threading.Event()
def runA():
    aio.set_event_loop(loopA)
    async def mainA():
        t = loopA.create_task(f('k'))
        while not stopA.is_set():
            await aio.sleep(0.01)
        return t
    loopA.run_until_complete(mainA())
    # asyncio.run-style shutdown
    runners._cancel_all_tasks(loopA)
    loopA.close()
ta = threading.Thread(target=runA, name='A'); ta.start()
time.sleep(0.1)
res = {}
def runB():
    async def mainB():
        t0 = time.time()
        try:
            r = await f('k')
            res['B'] = ('ok', r, round(time.time()-t0, 2))
        except BaseException as e:
            res['B'] = ('exc', type(e).__name__, round(time.time()-t0, 2), 'cancelling=%d' % aio.current_task().cancelling())
    aio.run(mainB())
tb = threading.Thread(target=runB, name='B'); tb.start()
time.sleep(0.2)   # B waits on A via proxy
stopA.set(); ta.join()
tb.join(5)
print(res, 'B alive:', tb.is_alive())
