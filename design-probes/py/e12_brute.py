import itertools, os, sys, tempfile, threading, queue, time
from aiuti.filelock import FileLock
import aiuti.filelock as FL
print(FL.__file__)
class Worker(threading.Thread):
    def __init__(self):
        super().__init__(daemon=True); self.q = queue.Queue(); self.r = queue.Queue(); self.start()
    def run(self):
        while True:
            f = self.q.get()
            try: self.r.put(('ok', f()))
            except BaseException as e: self.r.put(('exc', repr(e)))
    def do(self, f):
        self.q.put(f); return self.r.get()
WS = [Worker(), Worker()]
def nfds(): return len(os.listdir('/proc/self/fd'))
def run(seq, reentrant_cfg, path):
    objs = [FileLock(path, reentrant=r) for r in reentrant_cfg]
    ws = WS
    base = nfds()
    # reference: holder of path: (obj, thread, depth) or None
    hold = None
    trace = []
    for (op, o, t) in seq:
        if op == 'acq':
            exp = hold is None or (hold[0] == o and hold[1] == t and reentrant_cfg[o])
            # a non-reentrant re-acquire by the same thread / other thread: False (non-blocking)
            got = ws[t].do(lambda: objs[o].acquire(blocking=False))
            if exp: hold = (o, t, (hold[2] + 1 if hold else 1))
        elif op == 'acq0':   # timed, timeout=0
            exp = hold is None or (hold[0] == o and hold[1] == t and reentrant_cfg[o])
            got = ws[t].do(lambda: objs[o].acquire(timeout=0, poll_interval=0.001))
            if exp: hold = (o, t, (hold[2] + 1 if hold else 1))
        elif op in ('rel', 'relf'):
            force = op == 'relf'
            if hold is not None and hold[0] == o and hold[1] != t:
                ws[hold[1]].do(lambda: objs[hold[0]].release(force=True))
                return None   # outside the contract: releasing another thread's lock
            got = ws[t].do(lambda: objs[o].release(force=force))
            exp = None
            if hold is not None and hold[0] == o:
                d = 0 if force else hold[2] - 1
                hold = None if d == 0 else (o, t, d)
        got = got if got[0] == 'exc' else got[1]
        locked = [ob.is_locked for ob in objs]
        exp_locked = [hold is not None and hold[0] == i for i in range(len(objs))]
        fds = nfds() - base
        exp_fds = 1 if hold else 0
        trace.append((op, o, t, got, locked, fds))
        if got != exp or locked != exp_locked or fds != exp_fds:
            for i, ob in enumerate(objs):
                ob.release(force=True)
                for w in ws: w.do(lambda: ob.release(force=True))
            return ('MISMATCH', trace, 'expected', exp, exp_locked, exp_fds)
    # cleanup + final re-acquirability by every (obj, thread) after full release
    if hold is not None:
        ws[hold[1]].do(lambda: objs[hold[0]].release(force=True)); hold = None
    for o in range(len(objs)):
        for t in range(2):
            g = ws[t].do(lambda: objs[o].acquire(blocking=False))
            if g != ('ok', True): return ('MISMATCH-final-reacquire', trace, o, t, g)
            ws[t].do(lambda: objs[o].release())
    if nfds() - base != 0: return ('FD-LEAK', trace)
    return 'ok'
ops = [(op, o, t) for op in ('acq', 'acq0', 'rel', 'relf') for o in (0, 1) for t in (0, 1)]
d = tempfile.mkdtemp(); n = 0; bad = []; skipped = 0
L = int(sys.argv[1])
t0 = time.time()
for cfg in [(False, False), (True, False), (True, True)]:
    for seq in itertools.product(ops, repeat=L):
        r = run(seq, cfg, os.path.join(d, 'l.lock'))
        if r is None: skipped += 1; continue
        n += 1
        if r != 'ok':
            bad.append((cfg, r))
            if len(bad) >= 3: break
    if len(bad) >= 3: break
print('L', L, 'ran', n, 'skipped(out of contract)', skipped, 'bad', len(bad), 'wall', round(time.time() - t0, 1))
for b in bad[:3]: print(b)
