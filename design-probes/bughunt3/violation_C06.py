"""
C06 - a threadsafe_async_cache call made in a forked child never ends when
the fork happened while the parent was computing the same key.

Property C06: "A call to a threadsafe_async_cache function ends in exactly
one of three ways: it returns the cached/computed value for its key, it
raises an exception raised by an invocation of the wrapped function that
this very call performed, or it is cancelled because its own task was
cancelled."  (... other callers are never delayed "beyond a recomputation".)

Use (public API only, single threaded parent):
  * the parent's event loop is computing load('cfg') (takes 0.5 s);
  * meanwhile the parent starts worker processes with the multiprocessing
    'fork' start method (the default on Linux for Python 3.12, and what
    loop.run_in_executor(ProcessPoolExecutor(), ...) does as well);
  * each worker runs its own fresh event loop and calls load('cfg').

The child inherits a copy of the cache's private in-flight table with the
marker (parent loop, event) for 'cfg'.  The copied loop object still says
is_running() and not is_closed(), but no thread runs it in the child and the
computing task does not exist there.  The child's call therefore parks a
proxy wait on that dead loop, waits for the 60 s safety time-out, finds the
very same marker again, parks the next proxy wait ... for ever.  It never
computes the value itself, never returns, never raises.

Two workers are used:
  * worker "real": normal loop; its call is given 8 s (16 computations);
  * worker "fast": a loop whose clock (the documented, overridable
    loop.time()) runs 60x faster, so that ten of the 60 s safety time-outs
    elapse within 10 s of wall time: the call is still pending after all of
    them, i.e. this is not the documented one-off 60 s stall.
Both workers first call load('other') as a control: that one finishes after
one computation, so fork + asyncio as such work fine.
"""
import asyncio as aio
import multiprocessing as mp
import os
import sys
import time

from aiuti.asyncio import threadsafe_async_cache

COMPUTE = 0.5          # seconds one computation takes
REAL_BUDGET = 8.0      # wall seconds granted to the child's call
FAST_FACTOR = 60       # clock speed-up of the "fast" worker
FAST_BUDGET = 600.0    # loop seconds (= 10 safety time-outs, 10 s of wall)


@threadsafe_async_cache
async def load(key):
    await aio.sleep(COMPUTE)
    return (key, os.getpid())


class FastLoop(aio.SelectorEventLoop):
    """Event loop whose clock runs FAST_FACTOR times faster."""

    def time(self):
        return super().time() * FAST_FACTOR


def worker(conn, fast):
    """Runs in the forked child: a fresh loop calling the cached function."""
    loop = FastLoop() if fast else aio.new_event_loop()
    aio.set_event_loop(loop)
    factor = FAST_FACTOR if fast else 1
    report = {}

    async def ticker():  # keeps the fast loop looking at its clock
        while True:
            await aio.sleep(0.25)

    async def timed(key, budget):
        t0, l0 = time.monotonic(), loop.time()
        try:
            value = await aio.wait_for(load(key), budget)
            outcome = ('value', value)
        except aio.TimeoutError:
            outcome = ('still pending when the budget ran out', None)
        except BaseException as e:  # noqa
            outcome = ('raised', repr(e))
        return outcome + (round(time.monotonic() - t0, 2),
                          round(loop.time() - l0, 1))

    async def main():
        tick = aio.ensure_future(ticker())
        try:
            # control: a key nobody was computing at fork time
            report['control'] = await timed('other', 5 * factor)
            # the key the parent was computing when it forked
            report['cfg'] = await timed(
                'cfg', FAST_BUDGET if fast else REAL_BUDGET)
        finally:
            tick.cancel()

    try:
        loop.run_until_complete(main())
    except BaseException as e:  # noqa
        report['crash'] = repr(e)
    conn.send(report)
    conn.close()


async def parent():
    loop = aio.get_running_loop()
    computing = aio.create_task(load('cfg'))
    await aio.sleep(COMPUTE / 2)          # 'cfg' is being computed now
    assert not computing.done()

    ctx = mp.get_context('fork')
    procs = []
    for fast in (False, True):
        recv, send = ctx.Pipe(duplex=False)
        p = ctx.Process(target=worker, args=(send, fast), daemon=True)
        p.start()
        send.close()
        procs.append((fast, p, recv))

    t0 = time.monotonic()
    own = await computing                  # the parent itself is fine
    own_time = time.monotonic() - t0 + COMPUTE / 2

    reports = {}
    for fast, p, recv in procs:
        def get(recv=recv):
            try:
                return recv.recv() if recv.poll(30) else None
            except EOFError:
                return None
        reports[fast] = await loop.run_in_executor(None, get)
        await loop.run_in_executor(None, p.join, 5)
        if p.is_alive():
            p.kill()
    return own, own_time, reports


def main():
    own, own_time, reports = aio.run(parent())
    print(f"parent: load('cfg') -> {own!r} after {own_time:.2f} s")
    for fast in (False, True):
        print(f"child ({'fast clock' if fast else 'real clock'}):",
              reports[fast])

    real, fast = reports[False], reports[True]
    if not real or not fast or 'crash' in real or 'crash' in fast:
        print("OK (inconclusive: a worker did not report)")
        return 0
    controls_fine = (real['control'][0] == 'value'
                     and fast['control'][0] == 'value')
    real_stuck = real['cfg'][0].startswith('still pending')
    fast_stuck = fast['cfg'][0].startswith('still pending')
    if controls_fine and real_stuck and fast_stuck:
        print(
            "VIOLATION: C06 promises that a cache call ends by returning "
            "the value, raising its own invocation's exception or being "
            "cancelled with its own task, and that nobody is delayed beyond "
            "a recomputation. A worker forked (multiprocessing 'fork') while "
            f"the parent was computing load('cfg') ({COMPUTE} s) called "
            "load('cfg') on its own fresh loop: the call neither returned, "
            f"raised nor computed anything within {real['cfg'][2]} s "
            f"({real['cfg'][2] / COMPUTE:.0f} computations), and with a 60x "
            f"faster loop clock it was still pending after {fast['cfg'][3]} "
            f"loop-seconds = {int(fast['cfg'][3] // 60)} of the 60 s safety "
            "time-outs, although load('other') finished normally in the "
            f"same workers ({real['control'][2]} s). The child waits for "
            "ever on the inherited in-flight marker of the parent's loop, "
            "which reports is_running() but is run by nobody in the child."
        )
        return 1
    print("OK")
    return 0


if __name__ == '__main__':
    sys.exit(main())
