"""
C17: ensure_aw(aw, loop) must give the caller exactly the result of the
awaitable when the target loop is idle, and complete when the awaitable does.

Use: a loop is started with loop_in_thread and stopped again; the stop
function is called a second time (e.g. once in a ``finally`` and once more in
an ``atexit`` / clean-up hook - nothing forbids that and it returns silently).
Afterwards the (idle, open) loop is used as the target of ensure_aw, exactly
like the docstring of ensure_aw uses ``e_loop``.

Public API only: aiuti.asyncio.ensure_aw / loop_in_thread.
"""
import asyncio
import sys
import threading

from aiuti.asyncio import ensure_aw, loop_in_thread

state = {'started': False, 'finished': False}


async def work(tag):
    state['started'] = True
    await asyncio.sleep(0.3)      # any awaitable which needs the loop to turn
    state['finished'] = True
    return tag


def call_ensure_aw(target, tag):
    """One caller thread with its own loop awaiting work() on ``target``."""
    out = {}

    def caller():
        own = asyncio.new_event_loop()
        try:
            out['result'] = own.run_until_complete(
                asyncio.wait_for(ensure_aw(work(tag), target), 20))
        except BaseException as e:  # noqa
            out['error'] = e
        finally:
            own.close()

    th = threading.Thread(target=caller, daemon=True)
    th.start()
    th.join(30)
    if th.is_alive():
        out['error'] = TimeoutError('caller thread still blocked after 30 s')
    return out


def main():
    # Control: start, stop ONCE, then use the loop as an idle target.
    control = asyncio.new_event_loop()
    stop = loop_in_thread(control)
    stop()
    out = call_ensure_aw(control, 'control')
    if out.get('result') != 'control':
        print("OK (control scenario itself did not work: %r)" % (out,))
        return 0

    # Same, but the stop function is called twice.
    target = asyncio.new_event_loop()
    stop = loop_in_thread(target)
    stop()
    stop()                        # returns silently, the loop is idle and open
    assert not target.is_running() and not target.is_closed()

    state.update(started=False, finished=False)
    out = call_ensure_aw(target, 'twice')

    if out.get('result') == 'twice':
        print('OK')
        return 0

    print("VIOLATION: C17 promises that ensure_aw(aw, idle_loop) gives the "
          "caller exactly the result of the awaitable and completes when "
          "the awaitable does; here the awaitable returns 'twice' after "
          "0.3 s and never raises, but after loop_in_thread(loop) + stop() + "
          "stop() the caller of ensure_aw got %r (awaitable started=%s, "
          "finished=%s: it was left half-run on the target loop). With a "
          "single stop() the same call returned %r."
          % (out.get('error'), state['started'], state['finished'],
             'control'))
    return 1


if __name__ == '__main__':
    rc = main()
    sys.stdout.flush()
    import os
    os._exit(rc)
