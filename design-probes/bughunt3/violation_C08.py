"""
C08 - buffer_until_timeout debounce: "the function is not called while
submissions keep arriving less than `timeout` apart, and all arguments of a
burst are delivered in a single call that starts `timeout` after the last".

Only immediately available arguments are used: plain calls and ONE synchronous
iterable - a plain generator which never blocks, it just has many elements.
No wait() / forced flush, the wrapped function never fails, one loop.

BufferAsyncCalls.map() hands a generator to to_async_iter(), which moves the
elements across from a helper thread one by one (about 20 us per element), so
taking such an iterable in takes the *library* a while (about a second here).
_process_queue does not account for that time:

  part 1  the timer of the first submission (armed before loading it) runs
          out while the loading is still going on; when the loading is done
          the stale time-out is acted upon without looking at the queue, so
          the function is called in the middle of a run of plain submissions
          that arrive timeout/3 apart (the last one < timeout/3 ago).

  part 2  an iterable received while waiting is loaded *before* the timer is
          armed again, so the quiet period is counted from the end of the
          loading, not from the last submission: the call starts a whole
          extra `timeout` after everything has long been available.
"""
import asyncio as aio
import logging
import sys
import time

from aiuti.asyncio import buffer_until_timeout, to_async_iter

logging.disable(logging.CRITICAL)

TIMEOUT = 0.3
GAP = 0.1          # plain submissions arrive this far apart (< TIMEOUT)
MARGIN = 0.04      # ties closer than this are not judged
LOAD_TARGET = 3.0  # wanted loading time of the big generator, seconds


async def calibrate() -> int:
    """Number of generator elements whose loading takes ~LOAD_TARGET."""
    n = 20000
    t = time.perf_counter()
    async for _ in to_async_iter(iter(range(n))):
        pass
    per_element = (time.perf_counter() - t) / n
    return max(20000, min(2_000_000, int(LOAD_TARGET / per_element)))


class Recorder:
    def __init__(self, loop):
        self.loop = loop
        self.t0 = loop.time()
        self.calls = []       # (start, args)
        self.arrivals = []    # (time, arg)
        self.running = 0
        self.overlap = False

    def now(self):
        return self.loop.time() - self.t0

    async def func(self, args):
        self.running += 1
        self.overlap |= self.running > 1
        self.calls.append((self.now(), set(args)))
        await aio.sleep(0.01)
        self.running -= 1

    def submit(self, buf, arg):
        self.arrivals.append((self.now(), arg))
        buf(arg)


async def part1(n):
    """Generator first, quiet for > TIMEOUT, then a run of plain calls."""
    loop = aio.get_running_loop()
    rec = Recorder(loop)
    buf = buffer_until_timeout(rec.func, timeout=TIMEOUT)
    await aio.sleep(0.05)
    rec.t0 = loop.time()

    exhausted = []

    def gen():
        for i in range(n):
            yield -1 - i          # negative: elements of the generator
        exhausted.append(rec.now())

    rec.arrivals.append((rec.now(), 'gen'))
    buf.map(gen())
    await aio.sleep(TIMEOUT * 1.5)      # a real quiet period: 0.45 s
    k = 0
    # plain calls GAP apart until well after the first call of the function
    while rec.now() < 25:
        rec.submit(buf, k)
        k += 1
        await aio.sleep(GAP)
        if rec.calls and rec.now() > rec.calls[0][0] + 3 * GAP:
            break
    await aio.sleep(TIMEOUT + 0.3)       # let the last call happen

    msgs = []
    for start, args in rec.calls:
        recent = [(t, a) for t, a in rec.arrivals
                  if start - TIMEOUT + MARGIN < t < start - MARGIN]
        later = [t for t, a in rec.arrivals if t > start + MARGIN]
        if recent and later:
            t, a = recent[-1]
            missing = [a for t2, a in rec.arrivals[1:]
                       if t2 < start - MARGIN and a not in args]
            msgs.append(
                f"part 1: timeout={TIMEOUT}, function idle, no wait(): the "
                f"function must not be called while submissions keep "
                f"arriving less than `timeout` apart, but it was called at "
                f"t={start:.3f} only {start - t:.3f}s after the plain "
                f"submission {a!r} (t={t:.3f}) in the middle of a run of "
                f"{k} plain submissions {GAP}s apart (first t="
                f"{rec.arrivals[1][0]:.3f}, last t={rec.arrivals[-1][0]:.3f})"
                f"; that call got {len(args)} arguments of the generator "
                f"submitted at t=0 (exhausted t={exhausted[0]:.3f}) and "
                f"left out all {len(missing)} plain arguments submitted before "
                f"it ({missing[0]!r}..{missing[-1]!r})")
            break
    if rec.overlap or any(not a for _, a in rec.calls):
        msgs.append("part 1: overlapping or empty call")
    return msgs


async def part2(n):
    """One burst: plain call, generator 0.1 s later, plain call 0.1 s later."""
    loop = aio.get_running_loop()
    rec = Recorder(loop)
    buf = buffer_until_timeout(rec.func, timeout=TIMEOUT)
    await aio.sleep(0.05)
    rec.t0 = loop.time()

    exhausted = []

    def gen():
        for i in range(n):
            yield -1 - i
        exhausted.append(rec.now())

    rec.submit(buf, 'a')
    await aio.sleep(GAP)
    rec.arrivals.append((rec.now(), 'gen'))
    buf.map(gen())
    await aio.sleep(GAP)
    rec.submit(buf, 'b')
    last = rec.arrivals[-1][0]
    while not rec.calls and rec.now() < 40:
        await aio.sleep(0.02)
    await aio.sleep(0.2)

    msgs = []
    if not rec.calls:
        return ["part 2: the function was never called"]
    start, args = rec.calls[0]
    available = max(last + TIMEOUT, exhausted[0] if exhausted else 0)
    if start > available + TIMEOUT - MARGIN:
        msgs.append(
            f"part 2: timeout={TIMEOUT}: one burst (plain 'a' t=0, generator "
            f"t={rec.arrivals[1][0]:.3f}, plain 'b' t={last:.3f}; gaps < "
            f"timeout) must be delivered in a single call starting `timeout` "
            f"after the last submission, i.e. t={last + TIMEOUT:.3f}; the "
            f"generator was exhausted at t={exhausted[0]:.3f}, yet the call "
            f"started at t={start:.3f}: {start - last:.3f}s after the last "
            f"submission and {start - available:.3f}s (a whole extra "
            f"timeout) after everything was available")
    return msgs


async def main():
    n = await calibrate()
    msgs = await part1(n)
    msgs += await part2(n)
    return n, msgs


if __name__ == '__main__':
    n, msgs = aio.run(main())
    if msgs:
        for m in msgs:
            print("VIOLATION:", m, f"[generator of {n} elements]")
        sys.exit(1)
    print("OK")
    sys.exit(0)
