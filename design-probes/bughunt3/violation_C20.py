"""
C20: gather_excs must yield exactly the exceptions raised that are instances
of `only`, one per awaitable given, in input order.

Residual of F24 (CancelledError-derived failures): gather_excs gets the real
cancellation error with fut.exception(), but asyncio hands the stored
CancelledError object out only ONCE per future (Future._make_cancelled_error
clears _cancelled_exc); every later look gets a fresh plain CancelledError().
gather_excs itself looks once per *entry* of `aws`, so as soon as the same
Task is listed twice (asyncio.gather explicitly supports duplicates, and
gather_excs reports an ordinary exception of a duplicated task twice), the
second entry loses type and arguments and an `only=` filter naming the class
does not match it any more.

Public API only; no timing sensitivity (a single 10 ms sleep).
"""
import asyncio as aio
import sys

from aiuti.asyncio import gather_excs


class Base(Exception):
    pass


class MyCancel(aio.CancelledError):
    pass


async def fail(kind, arg):
    await aio.sleep(0.01)
    raise kind(arg)


async def collect(aws, only=BaseException):
    return [e async for e in gather_excs(aws, only)]


async def main():
    problems = []

    # Control: a duplicated task failing with an ordinary exception is
    # reported once per entry given (so duplicates are supported).
    t = aio.ensure_future(fail(Base, 'plain'))
    got = await collect([t, t], only=Base)
    if not (len(got) == 2 and got[0] is got[1] and type(got[0]) is Base):
        print("OK")  # control does not hold: premise of the report is gone
        print("control gave", got)
        return 0

    # 1. Same thing, failure class derived from CancelledError, filtered.
    t = aio.ensure_future(fail(MyCancel, 'boom'))
    got = await collect([t, t], only=MyCancel)
    if [type(e) for e in got] != [MyCancel, MyCancel]:
        problems.append(
            f"gather_excs([t, t], only=MyCancel) with t raising "
            f"MyCancel('boom') yielded {got!r} instead of two MyCancel('boom')"
        )

    # 2. Unfiltered: second entry is a fresh plain CancelledError().
    t = aio.ensure_future(fail(MyCancel, 'boom'))
    got = await collect([t, t])
    if not (len(got) == 2 and got[1] is got[0]):
        problems.append(
            f"gather_excs([t, t]) yielded {got!r}: the second entry is not "
            f"the exception which was raised (type/arguments lost)"
        )

    # 3. Plain CancelledError raised with arguments: arguments lost.
    t = aio.ensure_future(fail(aio.CancelledError, 'why'))
    got = await collect([t, t])
    if [e.args for e in got] != [('why',), ('why',)]:
        problems.append(
            f"gather_excs([t, t]) with t raising CancelledError('why') "
            f"yielded args {[e.args for e in got]!r}"
        )

    if problems:
        print(
            "VIOLATION: C20 promises that gather_excs yields exactly the "
            "exceptions raised which are instances of `only`, one per "
            "awaitable given, in input order; for a Task listed twice whose "
            "failure derives from CancelledError only the first entry gets "
            "the real exception, the second one gets a fresh plain "
            "CancelledError() (and is dropped by only=<that class>): "
            + " | ".join(problems)
        )
        return 1
    print("OK")
    return 0


if __name__ == '__main__':
    sys.exit(aio.run(main()))
