"""
C13 - "A crashed holder never leaves the FileLock stuck".

A process takes a FileLock in its main thread while another of its threads
starts a few (fork-based) multiprocessing workers - an ordinary thing for an
application to do.  The process is then SIGKILLed while holding the lock.
The property promises that another process can acquire the same lock file
promptly afterwards.  Instead the lock stays held for as long as one of the
orphaned workers lives, although no worker ever touched the lock.

Only the public API is used: FileLock(path), acquire(), the with statement.
"""
import os
import signal
import subprocess
import sys
import tempfile
import time

ROUNDS = 100           # independent holder processes tried, at most (~0.3 s each)
WORKER_LIFETIME = 45   # seconds an (unrelated) worker of the holder lives
PROMPTLY = 3.0         # seconds a survivor waits for the lock after the crash


def holder(path: str) -> None:
    import threading
    import multiprocessing
    from aiuti.filelock import FileLock

    ctx = multiprocessing.get_context('fork')
    lock = FileLock(path)
    go = threading.Event()

    def start_workers() -> None:
        go.wait()
        for _ in range(3):
            ctx.Process(target=time.sleep, args=(WORKER_LIFETIME,)).start()

    # The application has used a worker before (multiprocessing is warm)
    first = ctx.Process(target=time.sleep, args=(0,))
    first.start()
    first.join()

    starter = threading.Thread(target=start_workers)
    starter.start()
    go.set()
    with lock:                      # blocking acquire in the main thread
        starter.join()
        print('HELD', flush=True)
        time.sleep(120)             # ... holds the lock until it is killed


def kill_group(pgid: int) -> None:
    try:
        os.killpg(pgid, signal.SIGKILL)
    except ProcessLookupError:
        pass


def main() -> int:
    import warnings
    warnings.simplefilter('ignore')
    from aiuti.filelock import FileLock

    tmp = tempfile.mkdtemp(prefix='c13-')
    deadline = time.time() + 42
    for i in range(ROUNDS):
        if time.time() > deadline:
            break
        path = os.path.join(tmp, 'round%d.lock' % i)
        proc = subprocess.Popen(
            [sys.executable, '-W', 'ignore', os.path.abspath(__file__),
             'holder', path],
            stdout=subprocess.PIPE, start_new_session=True,
        )
        try:
            line = proc.stdout.readline()
            assert line.strip() == b'HELD', line
            # The holder dies while holding the lock
            os.kill(proc.pid, signal.SIGKILL)
            proc.wait()

            survivor = FileLock(path)
            t0 = time.time()
            got = survivor.acquire(timeout=PROMPTLY)
            waited = time.time() - t0
            if got:
                survivor.release()
                continue

            # Show what keeps it: the holder's orphaned workers
            kill_group(proc.pid)
            time.sleep(0.5)
            after = survivor.acquire(timeout=PROMPTLY)
            if after:
                survivor.release()
            print(
                'VIOLATION: C13 promises that once a FileLock holder has '
                'died another process can acquire the same lock file '
                'promptly, but after the holder (pid %d, round %d) was '
                'SIGKILLed and reaped, FileLock(%r).acquire(timeout=%s) '
                'returned False after %.1f s: a multiprocessing worker which '
                'another thread of the holder started while acquire() was '
                'inside os.open() inherited the not-yet-recorded lock '
                'descriptor and keeps the flock alive (for %d s, the '
                "worker's lifetime). Acquirable once the orphaned workers "
                'were killed too: %s.'
                % (proc.pid, i, path, PROMPTLY, waited, WORKER_LIFETIME,
                   after)
            )
            return 1
        finally:
            kill_group(proc.pid)
            proc.stdout.close()
    print('OK')
    return 0


if __name__ == '__main__':
    if len(sys.argv) > 2 and sys.argv[1] == 'holder':
        holder(sys.argv[2])
    else:
        sys.exit(main())
