"""
C02 - FileLock mutual exclusion: a holder loses the lock through the
*with-block exit of another thread*.

Thread T1 uses the pattern of the library's own test
``test_nested_forced_release``::

    with lock:                      # reentrant lock
        lock.acquire()
        lock.release(force=True)    # lock fully released, on purpose
        ...                         # (still inside the with block)
    # __exit__ -> lock.release()

Between the forced release and the end of T1's with-block, thread T2
acquires the same FileLock object (acquire() returns True).  When T1 then
leaves its with-block, ``release()`` only looks at ``is_locked`` - which is
True because of *T2* - and drops the OS lock T2 is holding.  T2 is still
inside its section; a third contender (another FileLock object on the same
path, i.e. what another process would do as well) now acquires the lock too.

Variant B shows the same with a plain (non-reentrant) lock and three
threads on ONE object: here the in-process lock is handed out as well.
"""
import os
import sys
import tempfile
import threading

from aiuti.filelock import FileLock

WAIT = 20  # generous margin for every hand-shake


def variant(reentrant: bool) -> str:
    """Return a description of the violation, or '' if none showed."""
    tmp = tempfile.mkdtemp(prefix='c02-')
    path = os.path.join(tmp, 'file.lock')
    lock = FileLock(path, reentrant=reentrant)
    other = FileLock(path)            # a second object on the same path

    t1_released = threading.Event()   # T1 did its forced release
    t2_inside = threading.Event()     # T2's acquire() returned True
    t1_left_with = threading.Event()  # T1 left its with-block
    t2_may_leave = threading.Event()
    result = {}
    errors = []

    def t1() -> None:
        try:
            with lock:
                if reentrant:
                    lock.acquire()
                lock.release(force=True)
                assert not lock.is_locked
                t1_released.set()
                # still in the with-block, but no longer in the section
                assert t2_inside.wait(WAIT)
            t1_left_with.set()
        except BaseException as e:  # noqa
            errors.append(('t1', repr(e)))
            t1_left_with.set()

    def t2() -> None:
        try:
            assert t1_released.wait(WAIT)
            got = lock.acquire(timeout=WAIT)
            result['t2_acquired'] = got
            t2_inside.set()
            if not got:
                return
            # ---- T2's critical section starts: it holds the lock ----
            assert t1_left_with.wait(WAIT)
            result['t2_still_is_locked'] = lock.is_locked
            assert t2_may_leave.wait(WAIT)
            # ---- T2's critical section ends ----
            lock.release()
        except BaseException as e:  # noqa
            errors.append(('t2', repr(e)))
            t2_inside.set()

    def t3() -> None:
        """Contender on the SAME object, while T2 is inside."""
        try:
            got = lock.acquire(blocking=False)
            result['t3_same_object'] = got
            if got:
                lock.release()
        except BaseException as e:  # noqa
            errors.append(('t3', repr(e)))

    th1 = threading.Thread(target=t1)
    th2 = threading.Thread(target=t2)
    th1.start(), th2.start()
    assert t1_left_with.wait(WAIT) and t2_inside.wait(WAIT)

    msgs = []
    if result.get('t2_acquired'):
        # T2 is inside its section now (it waits for t2_may_leave).
        # 1. contender through another object (same as another process)
        got_other = other.acquire(blocking=False)
        if got_other:
            msgs.append('a second FileLock object on the same path '
                        'acquired the lock (acquire(blocking=False) -> True)')
            other.release()
        # 2. contender through the same object from a third thread
        th3 = threading.Thread(target=t3)
        th3.start()
        th3.join(WAIT)
        if result.get('t3_same_object'):
            msgs.append('a third thread acquired the SAME FileLock object '
                        '(acquire(blocking=False) -> True)')
        if result.get('t2_still_is_locked') is False:
            msgs.append('is_locked of the object T2 holds was False')

    t2_may_leave.set()
    th1.join(WAIT), th2.join(WAIT)
    if errors:
        print('unexpected errors:', errors)
    if not msgs:
        return ''
    kind = 'reentrant' if reentrant else 'non-reentrant'
    return (f'[{kind} lock] while thread T2 was inside its section '
            f'(its acquire() had returned True and it had not released): '
            + '; '.join(msgs))


def main() -> int:
    found = [m for m in (variant(True), variant(False)) if m]
    if found:
        print('VIOLATION: C02 promises that a contender whose acquire() '
              'reported success is the only holder until it releases. '
              'Instead, the with-block exit of another thread (T1, which had '
              'already given the lock up with release(force=True), as in the '
              "library's own test_nested_forced_release) released the lock "
              'T2 was holding, and further contenders got in: '
              + ' || '.join(found))
        return 1
    print('OK')
    return 0


if __name__ == '__main__':
    sys.exit(main())
