"""
C07 - "wait() itself always returns once the wrapped function can succeed
... for both cancel=True and cancel=False ... failing function invocations".

Program (public API only, one loop, one thread):

  * a buffer with timeout=0.5 s;
  * a background task which keeps submitting an argument every 0.1 s (a
    perfectly ordinary producer, e.g. metrics / log records);
  * the wrapped function fails ONCE (first call, transient error) and
    succeeds on every later call;
  * a task submits 'x' and calls `await buffer.wait(cancel=True)`.

wait(cancel=True) cancels the timed read exactly once.  That forced call is
the one which fails.  Afterwards wait() sits in `event.wait()` and nothing
forces another call: the retry only happens after a full quiet period of
`timeout` seconds, which never comes while the other producer is alive.  The
function could succeed at any time (it is never even tried again), yet
wait() does not return: it is blocked for as long as the producer runs
(here 8 s = 16 x timeout = 80 submissions), i.e. without bound.

The control run (same producer, function never fails) shows that the
steady producer alone is not the reason: there wait(cancel=True) is back
within milliseconds.
"""
import asyncio as aio
import logging
import sys
import time

from aiuti.asyncio import buffer_until_timeout

logging.disable(logging.CRITICAL)  # the library logs the failed call

TIMEOUT = 0.5      # quiet period of the buffer
PERIOD = 0.1       # the background producer submits this often
PATIENCE = 8.0     # how long we let wait(cancel=True) try (16 x TIMEOUT)


async def scenario(fail_first: bool) -> dict:
    calls = []          # (time, args) of every invocation of the function
    delivered = set()   # args of the invocations which succeeded

    @buffer_until_timeout(timeout=TIMEOUT)
    async def buf(args):
        calls.append((time.monotonic(), set(args)))
        if fail_first and len(calls) == 1:
            raise OSError("transient failure")
        delivered.update(args)

    stop = False

    async def producer():
        i = 0
        while not stop:
            buf(('p', i))
            i += 1
            await aio.sleep(PERIOD)

    prod = aio.ensure_future(producer())
    await aio.sleep(0.25)

    t0 = time.monotonic()
    buf('x')
    waiter = aio.ensure_future(buf.wait(cancel=True))
    done, _ = await aio.wait([waiter], timeout=PATIENCE)
    returned = bool(done)
    blocked_for = time.monotonic() - t0
    calls_while_waiting = len(calls)

    # Let the producer go quiet: now (and only now) the retry happens
    stop = True
    await prod
    t1 = time.monotonic()
    done, _ = await aio.wait([waiter], timeout=10 * TIMEOUT)
    after_quiet = time.monotonic() - t1 if done else None
    if not done:
        waiter.cancel()
    return dict(returned=returned, blocked_for=blocked_for,
                calls_while_waiting=calls_while_waiting,
                after_quiet=after_quiet, x_delivered='x' in delivered)


def main() -> int:
    loop = aio.new_event_loop()
    aio.set_event_loop(loop)

    control = loop.run_until_complete(scenario(fail_first=False))
    if not (control['returned'] and control['blocked_for'] < 0.3
            and control['x_delivered']):
        print("OK (inconclusive: control run did not behave as expected: "
              f"{control})")
        return 0

    res = loop.run_until_complete(scenario(fail_first=True))
    if res['returned']:
        print("OK")
        return 0

    print(
        "VIOLATION: C07 promises that wait() always returns once the wrapped "
        "function can succeed (cancel=True, failing function invocations). "
        "Here the function fails only on its first call and would succeed on "
        "any later one, but wait(cancel=True) was still blocked after "
        f"{res['blocked_for']:.1f} s (= {res['blocked_for'] / TIMEOUT:.0f} x "
        f"timeout) while another task kept submitting every {PERIOD} s; the "
        f"function was called {res['calls_while_waiting']} time(s) in that "
        "period, i.e. never retried. The one-shot cancel of wait() was spent "
        "on the failing call and the retry needs a full quiet period, so "
        "wait() stays blocked for as long as the other producer lives "
        "(control without the failure: back after "
        f"{control['blocked_for'] * 1000:.1f} ms). Once the producer stopped, "
        "wait() returned after "
        + (f"{res['after_quiet']:.2f} s" if res['after_quiet'] is not None
           else "more than 5 s")
        + "."
    )
    return 1


if __name__ == '__main__':
    sys.exit(main())
