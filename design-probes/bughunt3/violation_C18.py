"""
C18: split(iterable, condition) promises that the first iterator yields
exactly the elements whose condition is truthy and the second exactly those
whose condition is falsy, for every order of consumption, including
abandoning one side.

Use shown here (public API only):

    where_true, where_false = split(values, is_odd)

where ``is_odd`` raises for ONE element (a bad record).  The consumer of
``where_true`` sees that exception and gives up on its side (abandons it).
The consumer of ``where_false`` never sees any exception at all - and is
silently handed elements whose condition is TRUTHY, while elements whose
condition is falsy are silently dropped.

Mechanism: split() keeps the elements (tee i1/i2) and the decisions
(tee c1/c2) in two separate streams and relies on itertools.compress to keep
them in step.  compress takes the datum first and the selector second; when
the selector raises, side 1 has taken datum k but the decisions tee has stored
nothing for k.  Side 2 then pairs datum k with decision k+1, datum k+1 with
decision k+2, ...: every later element is judged by its neighbour's condition.
"""
import sys

from aiuti.itertools import split


def is_odd_pure(x):
    return x % 2 == 1


def scenario_callable():
    calls = []

    def is_odd(x):
        calls.append(x)
        if x == 2:
            raise ValueError('bad record: %r' % (x,))
        return x % 2 == 1

    values = [1, 2, 3, 4, 5, 6]
    where_true, where_false = split(values, is_odd)

    got_true = []
    error = None
    try:
        for x in where_true:
            got_true.append(x)
    except ValueError as e:  # the consumer of the true side gives up here
        error = e
    assert error is not None and got_true == [1], (error, got_true)

    # The other side is consumed on its own; it never raises anything.
    got_false = list(where_false)

    problems = []
    wrong = [x for x in got_false if is_odd_pure(x)]
    if wrong:
        problems.append(
            'callable condition raising for element 2 only (true side saw '
            'the ValueError and was abandoned): the where_false iterator, '
            'without raising anything, yielded %r; elements %r have a TRUTHY '
            'condition (is_odd), and the falsy elements %r were never '
            'yielded by it' % (
                got_false, wrong,
                [x for x in values
                 if x != 2 and not is_odd_pure(x) and x not in got_false]))
    if calls != values:
        problems.append('condition calls were %r, expected once per element '
                        '%r' % (calls, values))
    return problems


class Flag:
    """A condition value; the truth value of one of them is ambiguous (as
    for instance a numpy array's is)."""

    def __init__(self, v):
        self.v = v

    def __bool__(self):
        if self.v is None:
            raise TypeError('truth value is ambiguous')
        return self.v


def scenario_condition_values():
    values = ['a', 'b', 'c', 'd']
    truth = [True, None, True, False]
    where_true, where_false = split(values, [Flag(t) for t in truth])
    got_true = []
    try:
        for x in where_true:
            got_true.append(x)
    except TypeError:
        pass
    got_false = list(where_false)
    wrong = [x for x in got_false if truth[values.index(x)] is True]
    missing = [x for x, t in zip(values, truth)
               if t is False and x not in got_false]
    if wrong or missing:
        return ['condition list [True, <ambiguous>, True, False] over %r: '
                'where_false yielded %r - %r has a True condition, and %r '
                '(condition False) was never yielded' % (
                    values, got_false, wrong, missing)]
    return []


def main():
    problems = scenario_callable() + scenario_condition_values()
    if problems:
        print('VIOLATION: split() promises that the second iterator yields '
              'exactly the elements whose condition is falsy (and the first '
              'exactly the truthy ones), whatever the order of consumption '
              'and also when one side is abandoned. Instead: '
              + ' || '.join(problems))
        return 1
    print('OK')
    return 0


if __name__ == '__main__':
    sys.exit(main())
