"""
C19 - parse_to_dict: "every string value is replaced by the Python literal it
denotes" - is false when something that is NOT a parse failure is raised while
the default parser (ast.literal_eval) is running: try_parse() uses a bare
``except:`` and therefore also swallows KeyboardInterrupt (Ctrl-C), and
RecursionError coming from the caller's own stack depth.  The call then
returns normally, with a value that *is* a literal left as an unparsed string,
and the interruption / error is lost.

Check 1 (Ctrl-C): a real SIGINT is delivered to the process while
    parse_to_dict is working through a long list of 'key=value' strings with
    the default parser.  Expected: KeyboardInterrupt propagates (or at the
    very least, every value of a returned dictionary is parsed).
Check 2 (stack depth): parse_to_dict({'k': '[1, 2]'}) is called from a
    recursive caller at various depths.  Expected at every depth: either the
    right answer {'k': [1, 2]} or a RecursionError - never a wrong answer.

Public API only; the files under aiuti/ are not modified.
"""
import ast
import os
import signal
import sys
import threading
import time

from aiuti.parsing import parse_to_dict


def check_ctrl_c():
    signal.signal(signal.SIGINT, signal.default_int_handler)
    # every value is a perfectly good literal (a list of 3000 ints), ~5 ms
    # to parse: practically all the time of the call is spent in the parser
    value = '[' + ','.join(map(str, range(3000))) + ']'
    assert isinstance(ast.literal_eval(value), list)
    t0 = time.monotonic()
    for _ in range(20):
        ast.literal_eval(value)
    per_item = (time.monotonic() - t0) / 20
    n = max(200, min(20000, int(6.0 / per_item)))      # about 6 s of work
    items = [f'k{i}={value}' for i in range(n)]

    for attempt in range(4):
        def ctrl_c():
            time.sleep(1.0)
            os.kill(os.getpid(), signal.SIGINT)       # what Ctrl-C does
        th = threading.Thread(target=ctrl_c, daemon=True)
        started = time.monotonic()
        th.start()
        try:
            result = parse_to_dict(items)
        except KeyboardInterrupt:
            th.join()
            continue            # delivered outside the parser: try again
        took = time.monotonic() - started
        th.join()
        if took < 1.0:
            return None         # machine too fast, signal came after the end
        unparsed = [k for k, v in result.items() if isinstance(v, str)]
        if unparsed:
            return (f"a SIGINT (Ctrl-C) delivered 1.0 s into a {took:.1f} s "
                    f"parse_to_dict call (default parser) did not raise "
                    f"KeyboardInterrupt: the call returned normally with "
                    f"{len(result)} items, of which {unparsed!r} still hold "
                    f"the unparsed string although ast.literal_eval() of "
                    f"that very string gives a list")
        return ("a SIGINT (Ctrl-C) delivered during parse_to_dict vanished: "
                "no KeyboardInterrupt was raised")
    return None


def check_stack_depth():
    def deep(n):
        if n == 0:
            return parse_to_dict({'k': '[1, 2]'})
        return deep(n - 1)

    limit = sys.getrecursionlimit()
    wrong = []
    for d in range(max(0, limit - 120), limit + 5):
        try:
            r = deep(d)
        except RecursionError:
            continue
        if r != {'k': [1, 2]}:
            wrong.append((d, r))
    if wrong:
        d, r = wrong[0]
        return (f"called from a recursive caller {d} frames deep (recursion "
                f"limit {limit}) parse_to_dict({{'k': '[1, 2]'}}) returned "
                f"{r!r} instead of {{'k': [1, 2]}} or a RecursionError "
                f"({len(wrong)} such depths)")
    return None


def main():
    found = []
    for check in (check_ctrl_c, check_stack_depth):
        msg = check()
        if msg:
            found.append(msg)
    if found:
        for msg in found:
            print("VIOLATION: C19 promises that every string value is "
                  "replaced by the Python literal it denotes (unchanged only "
                  "when it is not a literal), but " + msg)
        sys.exit(1)
    print("OK")
    sys.exit(0)


if __name__ == '__main__':
    main()
