"""
C12 - FileLock obeys the Lock/RLock contract and leaves no residue on failure.

A reentrant FileLock is used for what reentrant locks are made for: a
recursive function which takes the lock on every level.  The recursion gets
too deep, Python raises RecursionError (an ordinary Exception), every
``with`` block is left again while the error travels up, and the caller
catches it.  With a plain threading.RLock the lock is free afterwards.  With
FileLock the failed acquire() - the one the RecursionError came out of - has
already taken the in-process lock and bumped the nesting counter, and nothing
undoes that: the OS lock stays held for ever although no ``with`` block is
active any more.

Second part: the same hole for a non-reentrant lock - a single
``with lock: pass`` near the recursion limit fails with RecursionError and
keeps the in-process lock, so that nobody can acquire the object again.

Public API only.  Prints VIOLATION: ... and exits 1 if the defect shows,
prints OK and exits 0 otherwise.
"""

import logging
import os
import sys
import tempfile
import threading

from aiuti.filelock import FileLock

# the library logs the failed attempt with a traceback; keep the output short
logging.disable(logging.CRITICAL)

tmpdir = tempfile.mkdtemp(prefix='c12-')
path = os.path.join(tmpdir, 'file.lock')


def in_other_thread(fn):
    out = []
    t = threading.Thread(target=lambda: out.append(fn()))
    t.start()
    t.join(30)
    return out[0] if out else 'thread did not finish'


def try_once(lock):
    """Non-blocking acquire + release; True if the lock could be taken."""
    ok = lock.acquire(blocking=False)
    if ok:
        lock.release()
    return ok


problems = []

# ---------------------------------------------------------------- part 1
# control: the contract, as shown by threading.RLock
rlock = threading.RLock()


def walk_rlock():
    with rlock:
        walk_rlock()


try:
    walk_rlock()
except RecursionError:
    pass
control = in_other_thread(lambda: rlock.acquire(blocking=False))

lock = FileLock(path, reentrant=True)
levels = 0


def walk():
    global levels
    with lock:
        levels += 1
        walk()


try:
    walk()
    caught = False
except RecursionError:
    caught = True

# every with-block has been left: the release matching the outermost
# acquire has run, so the lock must be free
still_locked = lock.is_locked
second_object = try_once(FileLock(path))
other_thread = in_other_thread(lambda: try_once(lock))

if caught and (still_locked or not second_object or not other_thread):
    problems.append(
        'reentrant FileLock taken by a recursive function (with lock: '
        'recurse()), RecursionError after %d nested levels caught by the '
        'caller, all with-blocks left: is_locked=%r (promised False), '
        'a second FileLock object on the path acquire(blocking=False)=%r '
        '(promised True), another thread on the same object '
        'acquire(blocking=False)=%r (promised True); a threading.RLock used '
        'the same way is free afterwards (%r)'
        % (levels, still_locked, second_object, other_thread, control))

# clean up for part 2 whatever happened
lock.release(force=True)

# ---------------------------------------------------------------- part 2


def at_depth(n, fn):
    if n == 0:
        return fn()
    return at_depth(n - 1, fn)


base = None
for n in range(50, sys.getrecursionlimit() + 50):
    try:
        at_depth(n, lambda: None)
    except RecursionError:
        base = n
        break

if base is not None:
    for k in range(0, 30):
        plain = FileLock(path)  # non-reentrant

        def use():
            with plain:
                pass

        try:
            at_depth(base - k, use)
            failed = False
        except RecursionError:
            failed = True
        if not failed:
            continue
        if plain.is_locked:
            problems.append(
                'non-reentrant FileLock, "with lock: pass" %d frames below '
                'the recursion limit raised RecursionError and is_locked '
                'stayed True' % k)
            plain.release(force=True)
            break
        again = in_other_thread(lambda: try_once(plain))
        if again is not True:
            plain.release()  # releasing an unheld lock: a no-op, no help
            again2 = in_other_thread(lambda: try_once(plain))
            problems.append(
                'non-reentrant FileLock, "with lock: pass" %d frames below '
                'the recursion limit: the failed attempt raised '
                'RecursionError, is_locked is False, yet the object kept its '
                'internal lock: acquire(blocking=False) from another thread '
                '-> %r, and after release() -> %r (promised: failed attempts '
                'keep no internal lock, anybody can acquire again)'
                % (k, again, again2))
            break

if problems:
    print('VIOLATION: C12 promises that a failed acquire leaves everything '
          'as it was (no internal lock kept), that a reentrant lock is '
          'released by the release matching its outermost acquire and that '
          'is_locked is true exactly while held. Instead: '
          + ' || '.join(problems))
    sys.exit(1)

print('OK')
sys.exit(0)
