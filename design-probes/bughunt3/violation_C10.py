"""
C10 - concurrency limit of AsyncBackgroundBatcher.

The property promises: never more than max_concurrent_batches executions
of the batch function are in progress at once.

The batch function's declared type is

    Callable[[Iterable[Tuple[str, A]]], AsyncIterable[Tuple[str, R]]]

i.e. it may return ANY async iterable, not only an async generator
object.  A very common way to write an async iterable is a class whose
``__aiter__`` is an async generator method.  ``_process_batch`` iterates
``results`` with ``async for`` (which iterates ``results.__aiter__()``)
but, when the loop is left early, it only finishes ``results`` itself
(``getattr(results, 'aclose', None)``).  For such an iterable the
generator which is really running the batch stays suspended, the
concurrency slot is released, and the generator's clean-up runs later
(from the loop's asyncgen finalizer) concurrently with the next batch.

Public API only; max_concurrent_batches=1.
"""
import asyncio
import sys

from aiuti.asyncio import AsyncBackgroundBatcher

BATCH_TIMEOUT = 0.05
CLEANUP = 0.5       # time the batch function needs to release its resource
WORK = 0.2          # time the batch function works on a batch

in_progress = 0
max_in_progress = 0
events = []


def log(msg):
    events.append(f"{asyncio.get_running_loop().time() - T0:6.3f}s {msg}")


class Lookup:
    """
    Batch 'function': ``Lookup(batch)`` is an async iterable of
    (key, result) tuples - exactly the documented signature.
    """

    def __init__(self, batch):
        self.batch = list(batch)

    async def __aiter__(self):
        global in_progress, max_in_progress
        in_progress += 1
        max_in_progress = max(max_in_progress, in_progress)
        log(f"START  {self.batch} (in progress: {in_progress})")
        try:
            # e.g. "async with connection:" - the resource is in use from
            # here until the finally block below has completed
            await asyncio.sleep(WORK)
            for key, value in self.batch:
                if value == 'bad':
                    # A result the batcher refuses (unknown key): the
                    # batch fails, which is fine - but see below
                    yield 'no-such-key', None
                yield key, value
        finally:
            await asyncio.sleep(CLEANUP)  # release the resource
            in_progress -= 1
            log(f"FINISH {self.batch} (in progress: {in_progress})")


async def call(batcher, arg):
    try:
        return await batcher(arg)
    except Exception as e:
        return e


async def main():
    global T0
    T0 = asyncio.get_running_loop().time()
    batcher = AsyncBackgroundBatcher(
        Lookup,
        max_batch_size=1,
        max_concurrent_batches=1,
        batch_timeout=BATCH_TIMEOUT,
    )
    # Three calls -> three batches of one, strictly one after the other
    # because only ONE execution may be in progress at a time.
    results = await asyncio.wait_for(
        asyncio.gather(*(call(batcher, a) for a in ('bad', 'x', 'y'))),
        timeout=30,
    )
    # let pending clean-ups complete so the log is complete
    await asyncio.sleep(CLEANUP + 0.3)
    return results


if __name__ == '__main__':
    results = asyncio.run(main())
    for e in events:
        print('   ', e)
    print('    results:', results)
    if max_in_progress > 1:
        print(
            "VIOLATION: C10 promises that never more than "
            "max_concurrent_batches (=1) executions of the batch function "
            f"are in progress at once, but {max_in_progress} were: after "
            "the batcher refused a result of the first batch it released "
            "the concurrency slot while the async generator behind the "
            "returned AsyncIterable was still suspended (only `results` "
            "itself is looked at for aclose(), not the iterator "
            "`async for` really iterates), so its clean-up ran while the "
            "next batch was already executing."
        )
        sys.exit(1)
    print('OK')
    sys.exit(0)
