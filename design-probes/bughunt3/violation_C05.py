"""
C05 - cached calls always terminate, promptly, even if the computing loop
dies: "... if the computing loop is stopped or closed mid-computation,
callers on other loops recover by recomputing within that [60 s] safety
window instead of waiting or spinning forever."

Use shown here (public API only):

  * a single-threaded asyncio program has a cached call ``f(1)`` in flight,
  * at that moment it starts a worker process (``multiprocessing``, start
    method ``fork`` - what ``ProcessPoolExecutor`` / ``Process`` do by default
    on Linux with Python 3.12),
  * the worker runs its own event loop and calls ``f(1)`` as well.

In the worker the loop that "is computing" f(1) does not exist any more (only
the forking thread survives a fork; asyncio itself resets its running-loop
state in the child for exactly this use).  The worker's call must therefore
recover by recomputing - at the latest after the 60 s safety time-out.  It
never does: the in-flight marker copied by fork still names the parent's loop
object, whose copy reports ``is_running() == True`` and ``is_closed() ==
False`` for ever, so after each 60 s time-out the worker just waits on it
again.

To see more than one safety window in well under a minute, the WORKER's event
loop uses a clock that runs 50x faster than real time (an ordinary subclass
overriding the public ``loop.time()``); the parent is a plain ``asyncio.run``.
The worker gives its call 400 virtual seconds (more than six safety windows).

Two controls: a worker forked while nothing is in flight finishes normally
(fork + fast clock are harmless), and the same fast-clock caller whose
computing loop is stopped in another THREAD recovers after one safety window
(about 61 virtual seconds), which is what the property promises.
"""
import asyncio as aio
import multiprocessing as mp
import os
import sys
import threading
import time

from aiuti.asyncio import threadsafe_async_cache

SPEED = 50.0          # worker clock: 1 real second = 50 virtual seconds
VIRT_LIMIT = 400.0    # virtual seconds the worker grants its call (> 6 x 60)
COMPUTE = 1.0         # (virtual) seconds one computation takes

CALLS = []            # pid of every invocation of the wrapped function


@threadsafe_async_cache
async def f(x):
    CALLS.append(os.getpid())
    await aio.sleep(COMPUTE)
    return x * 2


@threadsafe_async_cache
async def g(x):       # control: never in flight at fork time
    CALLS.append(os.getpid())
    await aio.sleep(COMPUTE)
    return x * 3


class FastClockLoop(aio.SelectorEventLoop):
    """Ordinary selector loop whose clock runs SPEED times faster."""

    _t0 = time.monotonic()

    def time(self):
        return self._t0 + (time.monotonic() - self._t0) * SPEED


def worker(conn, func):
    """Runs in the forked child: call func(1) on a fresh loop."""
    loop = FastClockLoop()
    aio.set_event_loop(loop)
    stop = threading.Event()

    def ticker():   # wake the selector often so the fast timers fire on time
        while not stop.is_set():
            try:
                loop.call_soon_threadsafe(lambda: None)
            except RuntimeError:
                return
            time.sleep(0.005)

    threading.Thread(target=ticker, daemon=True).start()
    t0 = loop.time()
    try:
        value = loop.run_until_complete(aio.wait_for(func(1), VIRT_LIMIT))
        state = 'finished'
    except aio.TimeoutError:
        value = None
        state = 'still waiting'
    except BaseException as e:  # any other outcome is a finished call too
        value = repr(e)
        state = 'finished'
    waited = loop.time() - t0
    stop.set()
    mine = sum(1 for pid in CALLS if pid == os.getpid())
    conn.send((state, value, waited, mine))
    conn.close()


@threadsafe_async_cache
async def h(x):       # control: computing loop dies in another THREAD
    await aio.sleep(COMPUTE)
    return x * 5


def thread_control():
    """
    Same fast-clock caller, threads only: loop A is stopped mid-computation
    and never restarted. Returns (value, virtual seconds the caller needed).
    """
    loop_a = aio.new_event_loop()

    def thread_a():
        aio.set_event_loop(loop_a)
        loop_a.create_task(h(1))
        loop_a.call_later(0.5, loop_a.stop)
        loop_a.run_forever()

    ta = threading.Thread(target=thread_a)
    ta.start()
    time.sleep(0.2)             # h(1) is in flight on the live loop A
    loop = FastClockLoop()
    stop = threading.Event()

    def ticker():
        while not stop.is_set():
            loop.call_soon_threadsafe(lambda: None)
            time.sleep(0.005)

    threading.Thread(target=ticker, daemon=True).start()
    t0 = loop.time()
    try:
        value = loop.run_until_complete(aio.wait_for(h(1), VIRT_LIMIT))
    except aio.TimeoutError:
        value = None
    waited = loop.time() - t0
    stop.set()
    ta.join()
    # Tidy up: let the abandoned computation on loop A end, close both loops
    pending = aio.all_tasks(loop_a)
    for task in pending:
        task.cancel()
    loop_a.run_until_complete(aio.gather(*pending, return_exceptions=True))
    loop_a.close()
    loop.close()
    return value, waited


async def run_worker(ctx, func):
    """Fork a worker from the running loop's thread and await its report."""
    parent_conn, child_conn = ctx.Pipe(duplex=False)
    proc = ctx.Process(target=worker, args=(child_conn, func))
    proc.start()
    child_conn.close()
    deadline = time.monotonic() + 40
    while not parent_conn.poll():
        if time.monotonic() > deadline:
            proc.kill()
            return ('no report', None, float('inf'), 0)
        await aio.sleep(0.05)   # the parent's loop stays alive and responsive
    report = parent_conn.recv()
    proc.join(5)
    return report


async def main():
    ctx = mp.get_context('fork')

    # Control: nothing in flight when the worker is forked
    control = await run_worker(ctx, g)

    # The use under test: f(1) is in flight in this (single-threaded) process
    # when the worker is forked
    computing = aio.create_task(f(1))
    await aio.sleep(0.2)
    assert not computing.done() and CALLS.count(os.getpid()) == 1
    assert threading.active_count() == 1, "parent must be single-threaded"
    worker_report = run_worker(ctx, f)
    report, parent_value = await aio.gather(worker_report, computing)
    return control, report, parent_value


if __name__ == '__main__':
    control, report, parent_value = aio.run(main())
    t_value, t_waited = thread_control()   # after the forks: uses threads
    c_state, c_value, c_waited, c_calls = control
    state, value, waited, calls = report
    print(f"control worker (nothing in flight at fork): {c_state}, value "
          f"{c_value!r} after {c_waited:.1f} virtual s, {c_calls} computation")
    print(f"control with threads only (computing loop stopped in another "
          f"thread): value {t_value!r} after {t_waited:.1f} virtual s "
          f"(recovers after one safety window, as promised)")
    print(f"parent: f(1) == {parent_value!r} (computed once, in "
          f"{COMPUTE:.0f} s, its loop stayed alive)")
    print(f"worker forked while f(1) was in flight: {state}, value {value!r} "
          f"after {waited:.1f} virtual s, {calls} computation(s) of its own")
    if c_state != 'finished' or c_value != 3:
        print("OK (harness problem: the control worker did not finish, "
              "nothing can be concluded)")
        sys.exit(0)
    if state != 'finished':
        print(
            "VIOLATION: C05 promises that every call of a "
            "threadsafe_async_cache function finishes and that, when the "
            "computing loop is gone mid-computation, callers on other loops "
            "recover by recomputing within the 60 s safety window instead of "
            "waiting for ever. A worker process forked (multiprocessing "
            "'fork', from a single-threaded asyncio program) while f(1) was "
            "in flight called f(1) on its own loop: the loop marked as "
            "computing does not exist in that process, yet after "
            f"{waited:.0f} virtual seconds (> 6 safety windows) the call had "
            f"neither returned, raised nor recomputed ({calls} computations "
            "in the worker) - after every 60 s time-out it waits again on "
            "the copied marker, whose loop still reports is_running(), so it "
            "never finishes. The same worker finishes in about "
            f"{c_waited:.0f} virtual s when nothing is in flight at fork."
        )
        sys.exit(1)
    print("OK")
    sys.exit(0)
