"""
C03 demo: arguments handed to BufferAsyncCalls.map() are lost when the caller
re-uses its (list) container after map() has returned.

map() returns None synchronously and gives the caller no handle to learn when
the library is done with the iterable, yet it only iterates the iterable later,
on the event loop.  The idiomatic "fill a batch, hand it over, clear it" loop
therefore loses every element, silently, and wait() reports "all processed".
"""
import asyncio as aio
import logging
import sys
import threading

from aiuti.asyncio import buffer_until_timeout

logging.disable(logging.CRITICAL)


async def run(snapshot: bool, foreign_thread: bool):
    calls = []

    @buffer_until_timeout(timeout=0.05)
    async def flush(args):
        calls.append(set(args))

    submitted = set()

    def producer():
        batch = []
        for i in range(6):
            batch.append(i)
            if len(batch) == 3:
                # hand the three arguments to the wrapper ...
                flush.map(tuple(batch) if snapshot else batch)
                submitted.update(batch)
                # ... and start the next batch in the same list
                batch.clear()

    if foreign_thread:
        t = threading.Thread(target=producer)
        # The loop thread is busy (blocked here) while the other thread
        # submits: a fixed, repeatable schedule.
        t.start()
        t.join()
    else:
        producer()

    await flush.wait()
    await aio.sleep(0.5)  # many timeouts: anything pending would be flushed
    await flush.wait()
    delivered = set().union(*calls) if calls else set()
    return submitted, delivered, calls


def main() -> int:
    bad = False
    for foreign in (False, True):
        where = "foreign thread" if foreign else "loop thread"
        sub_c, del_c, _ = aio.run(run(snapshot=True, foreign_thread=foreign))
        print(f"control ({where}, map(tuple(batch))): submitted={sorted(sub_c)} "
              f"delivered={sorted(del_c)}")
        sub, dele, calls = aio.run(run(snapshot=False, foreign_thread=foreign))
        print(f"case    ({where}, map(batch); batch.clear()): "
              f"submitted={sorted(sub)} delivered={sorted(dele)} calls={calls}")
        missing = sub - dele
        if missing:
            bad = True
            print(f"VIOLATION: arguments {sorted(missing)} were handed to the "
                  f"wrapper via map() from the {where} but were never passed to "
                  f"the wrapped function ({len(calls)} call(s) made, wait() "
                  f"returned as if everything was processed); C03 promises every "
                  f"argument handed to map() eventually reaches the function in "
                  f"a successful call.")
    return 1 if bad else 0


if __name__ == '__main__':
    sys.exit(main())
