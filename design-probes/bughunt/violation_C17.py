"""
C17 demo: an awaitable that raises SystemExit, proxied with ensure_aw onto a
loop that is running via loop_in_thread, leaves the caller pending forever
(and kills the target loop), although the awaitable has completed (by raising).

The very same call onto an IDLE target loop hands the SystemExit to the caller,
and a custom BaseException onto the running loop is handed over as well, so the
helpers themselves treat "deliver whatever the awaitable raised" as the contract.

Run:  PYTHONPATH=/tmp/wx-C17 timeout 120 /venv/bin/python violation_C17.py
"""
import asyncio as aio
import sys
import time

from aiuti.asyncio import ensure_aw, loop_in_thread

WAIT = 5.0          # how long the caller is given (the awaitable needs ~0.01s)
completed = {}      # label -> monotonic time at which the awaitable finished


class Custom(BaseException):
    pass


async def raiser(label, exc):
    """The awaitable: sleeps a little on the target loop, then raises."""
    try:
        await aio.sleep(0.01)
        raise exc
    finally:
        completed[label] = time.monotonic()


async def call(label, exc, target):
    """One ensure_aw call; returns a description of what the caller saw."""
    t0 = time.monotonic()
    try:
        res = await aio.wait_for(ensure_aw(raiser(label, exc), target), WAIT)
        return 'returned %r' % (res,)
    except aio.TimeoutError:
        done_after = completed.get(label)
        return ('PENDING after %.1fs (awaitable finished after %s)' % (
            time.monotonic() - t0,
            'never' if done_after is None else '%.3fs' % (done_after - t0)))
    except BaseException as e:  # what the awaitable raised, we hope
        return 'raised %s(%s)' % (type(e).__name__, e)


async def main():
    # 1. idle target: SystemExit raised by the awaitable reaches the caller
    idle = aio.new_event_loop()
    seen_idle = await call('idle', SystemExit(7), idle)
    print('idle target,            awaitable raises SystemExit(7): caller',
          seen_idle)

    # 2. target running via loop_in_thread, custom BaseException: reaches caller
    target = aio.new_event_loop()
    stop = loop_in_thread(target)
    seen_custom = await call('custom', Custom('c'), target)
    print('loop_in_thread target,  awaitable raises Custom("c")  : caller',
          seen_custom)

    # 3. same running target, SystemExit: the caller never gets anything
    seen_running = await call('running', SystemExit(7), target)
    print('loop_in_thread target,  awaitable raises SystemExit(7): caller',
          seen_running)
    still_running = target.is_running()
    print('target loop still running afterwards:', still_running)

    try:        # clean up (the error only shows up here, in another place)
        stop()
    except BaseException as e:
        print('stop() raised %s(%s)' % (type(e).__name__, e))
    idle.close()
    target.close()

    ok = (seen_idle == 'raised SystemExit(7)'
          and seen_custom == 'raised Custom(c)'
          and seen_running == 'raised SystemExit(7)')
    if not ok:
        print('VIOLATION: ensure_aw(aw, loop) onto a loop running via '
              'loop_in_thread: the awaitable completed (raised SystemExit(7) '
              'after ~0.01s) but the ensure_aw call was still pending %.0fs '
              'later and the target loop was dead (is_running=%s); the '
              'property promises the caller exactly the exception of the '
              'awaitable and that every ensure_aw call completes when its '
              'awaitable does (the idle-target path does deliver '
              'SystemExit(7): %r).' % (WAIT, still_running, seen_idle))
    return ok


if __name__ == '__main__':
    loop = aio.new_event_loop()
    try:
        ok = loop.run_until_complete(main())
    finally:
        loop.close()
    sys.stdout.flush()
    sys.exit(0 if ok else 1)
