"""
C05 violation demo: a caller on another loop is woken only by the 60 s
safety timeout although the computing loop was alive for the whole
computation, the computation ended normally and the value is in the cache.

Thread A (the computing loop) uses the classic idiom

    loop = asyncio.new_event_loop()
    value = loop.run_until_complete(cached(1))
    ... synchronous work with the value ...
    loop.run_until_complete(<next thing>)   # loop re-used later, closed at exit

run_until_complete() stops the loop in the very same iteration in which the
relay task (event.wait() scheduled on loop A by run_coroutine_threadsafe for
the caller on loop B) finishes, so the relay's done-callback - the only thing
that would complete B's bridged future - stays queued in A's ready list.
Loop A is never stopped or closed *mid-computation* and is never closed
while B waits.
"""
import asyncio as aio
import sys
import threading
import time

from aiuti.asyncio import threadsafe_async_cache

T0 = time.monotonic()
PROMPT_LIMIT = 5.0      # generous: "as soon as the computation ends"
calls = []
cache = {}


def now() -> float:
    return time.monotonic() - T0


@threadsafe_async_cache(cache=cache)
async def cached(x):
    calls.append(x)
    await aio.sleep(0.5)          # the computation: ends normally at t~0.5
    return x * x


computation_ended = []
b_done = threading.Event()
b_result = {}


def thread_a():
    loop = aio.new_event_loop()
    try:
        value = loop.run_until_complete(cached(1))
        computation_ended.append(now())
        assert value == 1
        # synchronous use of the value; loop A stays open (alive, re-usable)
        b_done.wait(90)
        # the loop is perfectly usable afterwards
        assert loop.run_until_complete(cached(1)) == 1
    finally:
        loop.close()


def thread_b():
    async def main():
        await aio.sleep(0.2)      # loop A is computing key 1 by now
        t = now()
        v = await cached(1)       # waits for loop A (cross-loop)
        b_result.update(value=v, started=t, finished=now())
    aio.run(main())
    b_done.set()


ta = threading.Thread(target=thread_a)
tb = threading.Thread(target=thread_b)
ta.start()
tb.start()

# Observe at t = 5 s: computation long finished, value cached, B still pending
time.sleep(PROMPT_LIMIT)
snapshot = dict(
    t=now(), cached=dict(cache), computation_ended=list(computation_ended),
    b_finished=b_done.is_set(),
)
print(f"t={snapshot['t']:.1f}s computation ended at "
      f"{snapshot['computation_ended']}, cache={snapshot['cached']}, "
      f"caller on loop B finished: {snapshot['b_finished']}", flush=True)

tb.join(100)
ta.join(100)

if not b_result:
    print("VIOLATION: caller on loop B never finished at all")
    sys.exit(1)

waited_after_end = b_result['finished'] - computation_ended[0]
print(f"wrapped function invoked {len(calls)} time(s); computation ended at "
      f"t={computation_ended[0]:.2f}s; caller on loop B finished at "
      f"t={b_result['finished']:.2f}s with value {b_result['value']}")

if waited_after_end > PROMPT_LIMIT:
    print(
        "VIOLATION: the computation on loop A ended normally at "
        f"t={computation_ended[0]:.2f}s (value cached, loop A never stopped "
        "or closed mid-computation and still open), but the caller waiting "
        f"on loop B completed only {waited_after_end:.1f}s later, i.e. via "
        "the 60-second safety timeout, whereas C05 promises that callers on "
        "another loop complete as soon as the computation ends rather than "
        "after the 60-second safety timeout."
    )
    sys.exit(1)

print("OK: caller on loop B completed promptly "
      f"({waited_after_end:.3f}s after the computation ended)")
sys.exit(0)
