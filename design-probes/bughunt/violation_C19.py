"""C19: parse_to_dict with parse_keys=True (the default) cannot return a
dictionary when a string key denotes an unhashable Python literal
(list / dict / set): it raises TypeError from dict() instead of returning the
promised dictionary (or retaining the key 'as is', as the docstring promises
for keys that cannot be used parsed)."""
import sys
from aiuti.parsing import parse_to_dict

KEYS = ['[1, 2]', '{}', '{1, 2}', '[]', "{'a': 1}"]
problems = []
for key in KEYS:
    shapes = {
        'mapping': {key: '3'},
        'pairs': [(key, '3')],
        'strings': [f'{key}=3'],
    }
    for shape, items in shapes.items():
        # control: the same input is fine with parse_keys=False
        assert parse_to_dict(items, parse_keys=False) == {key: 3}
        try:
            out = parse_to_dict(items)          # parse_keys=True is the default
        except ValueError as e:                 # only a missing separator may do this
            problems.append(f'{shape} {items!r}: ValueError {e}')
        except TypeError as e:
            problems.append(f'{shape} {items!r}: TypeError: {e}')
        else:
            if not isinstance(out, dict) or len(out) != 1:
                problems.append(f'{shape} {items!r}: returned {out!r}')

# one such key among well-behaved items destroys the whole result
try:
    parse_to_dict(['a=1', '[1, 2]=3', 'b=2'])
except TypeError as e:
    problems.append(f"mixed ['a=1', '[1, 2]=3', 'b=2']: TypeError: {e}")

if problems:
    print('VIOLATION: parse_to_dict promises to RETURN a dictionary for every '
          'well-formed item list (only a separator-less string may raise, and '
          'that is ValueError; unusable parses are "retained as is"), but for '
          'string keys that denote unhashable literals it raises TypeError in '
          f'{len(problems)} cases, e.g. {problems[0]}')
    for p in problems:
        print('  ', p)
    sys.exit(1)
print('no violation')
sys.exit(0)
