"""C18 demo: split() with a callable condition that lets a StopIteration escape
for ONE element silently shifts the condition stream against the source stream.

The callable below is stateful-free and is called on a small value domain of
strings: "is the first letter of the word upper case?".  It is written with the
classic next(<generator expression>) idiom, which raises StopIteration for a
word without letters ("42").  No error is ever shown to the user; instead the
two result iterators return elements paired with the condition of the NEXT
element, and the result depends on which iterator is consumed first.
"""
import sys
from aiuti.itertools import split

WORDS = ['Ab', 'cd', '42', 'Ef', 'gh', 'Ij']

calls = []


def first_letter_is_upper(word):
    calls.append(word)
    return next(ch for ch in word if ch.isalpha()).isupper()


def truth(word):
    try:
        return bool(next(ch for ch in word if ch.isalpha()).isupper())
    except StopIteration:
        return None          # condition has no value for this element


def run(order):
    del calls[:]
    t, f = split(iter(WORDS), first_letter_is_upper)
    out = {}
    for name in order:
        out[name] = list(t if name == 't' else f)   # no exception is raised here
    return out['t'], out['f'], list(calls)


problems = []
results = {}
for order in ('tf', 'ft'):
    got_t, got_f, got_calls = run(order)
    results[order] = (got_t, got_f)
    print(f'order={order}: where_true={got_t} where_false={got_f} calls={got_calls}')
    wrong_t = [w for w in got_t if truth(w) is not True]
    wrong_f = [w for w in got_f if truth(w) is not False]
    if wrong_t:
        problems.append(f'order {order}: where_true yielded {wrong_t}, whose condition is not truthy')
    if wrong_f:
        problems.append(f'order {order}: where_false yielded {wrong_f}, whose condition is not falsy')
    # every element for which the callable returned a value must be in exactly one output
    evaluated = [w for w in got_calls if truth(w) is not None]
    lost = [w for w in evaluated if w not in got_t + got_f]
    if lost:
        problems.append(f'order {order}: the condition was evaluated (and returned a bool) for {lost}, '
                        f'but neither iterator yielded them')

if results['tf'] != results['ft']:
    problems.append(f"result depends on consumption order: t-then-f gives {results['tf']}, "
                    f"f-then-t gives {results['ft']}")

if problems:
    print('VIOLATION: split(iter(%r), first_letter_is_upper) raised nothing, yet: %s. '
          'The property promises that the two iterators yield exactly the elements whose '
          'condition is truthy / falsy, in source order, identically for every consumption order.'
          % (WORDS, '; '.join(problems)))
    sys.exit(1)
print('no violation observed')
sys.exit(0)
