"""
C06 demo: timing out the COMPUTING caller delays a WAITING caller on another
loop by the full 60 s safety-net timeout instead of "a recomputation".

Thread T1:  loop1 = new_event_loop()
            loop1.run_until_complete(wait_for(cached('k'), 1.0))  -> TimeoutError
            loop1.close()
Main:       asyncio.run(cached('k'))   (started while T1 is computing)

The property promises that timing out the computing caller "never cancels,
fails or delays any other caller beyond a recomputation" (a recomputation
takes 0.05 s here), for all loop life-cycle histories including shutdown of a
loop that hosts other loops' proxy waits.
"""
import asyncio as aio
import sys
import threading
import time

from aiuti.asyncio import threadsafe_async_cache

RECOMPUTE = 0.05


def scenario(use_asyncio_run: bool) -> float:
    """Return how long after the computing caller's time-out the waiter ended."""
    delays = [30.0, RECOMPUTE]          # 1st invocation is slow, 2nd is fast
    started = threading.Event()
    timed_out_at = []

    @threadsafe_async_cache
    async def cached(k):
        d = delays.pop(0)
        started.set()
        await aio.sleep(d)
        return 'value'

    async def computing_caller():
        await aio.wait_for(cached('k'), 1.0)     # times out: only THIS caller

    def t1():
        if use_asyncio_run:
            try:
                aio.run(computing_caller())
            except aio.TimeoutError:
                timed_out_at.append(time.monotonic())
        else:
            loop1 = aio.new_event_loop()
            try:
                loop1.run_until_complete(computing_caller())
            except aio.TimeoutError:
                timed_out_at.append(time.monotonic())
            finally:
                loop1.close()

    th = threading.Thread(target=t1)
    th.start()
    assert started.wait(10)
    time.sleep(0.2)                      # computing caller is inside sleep(30)

    async def waiting_caller():
        return await cached('k')         # waits for loop1, through a proxy

    res = aio.run(waiting_caller())
    ended = time.monotonic()
    th.join()
    assert res == 'value', res
    assert timed_out_at, "computing caller did not time out?"
    return ended - timed_out_at[0]


def main() -> int:
    ctl = scenario(use_asyncio_run=True)
    print(f"control  (computing loop driven by asyncio.run): waiter ended "
          f"{ctl:.2f}s after the computing caller timed out")
    lag = scenario(use_asyncio_run=False)
    print(f"scenario (run_until_complete + close):            waiter ended "
          f"{lag:.2f}s after the computing caller timed out")
    if lag > 5.0:
        print(f"VIOLATION: timing out the computing caller delayed the waiting "
              f"caller on another loop by {lag:.1f}s (the 60 s safety-net "
              f"wait_for), although a recomputation takes {RECOMPUTE}s; C06 "
              f"promises that timing out one caller never delays another "
              f"caller beyond a recomputation, for every loop life-cycle "
              f"history (here: the computing loop stops and is closed right "
              f"after its caller timed out, dropping the proxy's wake-up).")
        return 1
    print("OK: waiter was only delayed by a recomputation")
    return 0


if __name__ == '__main__':
    sys.exit(main())
