"""Scripted scenarios: stand-alone programs (most of them written by independent sub-agents hunting for violations on
the unmodified library) that drive the real code with real threads / processes / loops through one precise history
and judge it themselves.  `PYTHONPATH` points at /repo; a scenario prints a line starting with `VIOLATION:` and exits
1 when the property fails on that history, exits 2 when it could not set its history up (no verdict), 0 otherwise.  They complement the generated explorations with
histories that are awkward to generate (fork during a blocking acquire, a loop that is not running while the wall
clock advances, garbage collection inside a critical section, ...)."""
import os
import shutil
import subprocess
import sys
import tempfile

from .common import Outcome, REPO, fingerprint

DIR = os.path.join(os.path.dirname(os.path.dirname(os.path.abspath(__file__))), 'scenarios')


def _run(name, env):
    try:
        return subprocess.run([sys.executable, os.path.join(DIR, name)], env=env, stdin=subprocess.DEVNULL,
                              stdout=subprocess.PIPE, stderr=subprocess.PIPE, text=True, timeout=300)
    except subprocess.TimeoutExpired:
        return None


def run_scenarios(prop, quick, only=None):
    """Run every scenario of the property (`<Cxx>_<name>.py`; `<Cxx>_<name>.slow.py` only in the thorough tier)."""
    out = Outcome()
    try:
        names = sorted(n for n in os.listdir(DIR) if n.startswith(prop + '_') and n.endswith('.py'))
    except FileNotFoundError:
        return out
    for name in names:
        if only is not None and name != only:
            continue
        if quick and name.endswith('.slow.py'):
            continue
        out.evaluations += 1
        case = {'scenario': name}
        scratch = tempfile.mkdtemp(prefix='aiuti-verif-scn-')     # the scenarios' lock files etc.; removed afterwards
        env = dict(os.environ, PYTHONPATH=REPO, TMPDIR=scratch)
        try:
            p = _run(name, env)
        finally:
            shutil.rmtree(scratch, ignore_errors=True)
        if p is None:
            out.concrete.append({'case': case, 'what': f'scenario {name} did not finish within 300 s',
                                 'signature': {'kind': 'scenario-hang', 'name': name}})
            continue
        lines = [l for l in p.stdout.splitlines() if l.startswith('VIOLATION:')]
        if p.returncode == 1 and lines:
            out.concrete.append({'case': case, 'what': f'scenario {name}: {lines[0][:700]}', 'observed': p.stdout[-1500:],
                                 'signature': {'kind': 'scenario', 'name': name}})
        elif p.returncode == 2:
            # the scenario could not set its history up (a control phase was disturbed, e.g. by machine load): no verdict
            out.count('scenario-skipped:' + name[:-3])
        elif p.returncode != 0:
            # the scripted history no longer runs as it does on the pinned tree (an exception nobody expected): that
            # breaks the tie between this scenario and the code, it is not by itself a failing input
            out.diffs.append({'case': case, 'impl': (p.stderr or p.stdout)[-1500:], 'model': 'scenario runs to its verdict',
                              'where': f'scenario {name} failed to run (exit {p.returncode}): '
                                       f'{(p.stderr or p.stdout).strip().splitlines()[-1][:300] if (p.stderr or p.stdout).strip() else ""}'})
        else:
            out.traces_validated += 1
            out.fingerprints.add(fingerprint(case))
            out.count('scenario:' + name[:-3])
    return out
