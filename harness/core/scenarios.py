"""Scripted scenarios: stand-alone programs (most of them written by independent sub-agents hunting for violations on
the unmodified library) that drive the real code with real threads / processes / loops through one precise history
and judge it themselves.  `PYTHONPATH` points at /repo; a scenario prints a line starting with `VIOLATION:` and exits
1 when the property fails on that history, exits 0 otherwise.  They complement the generated explorations with
histories that are awkward to generate (fork during a blocking acquire, a loop that is not running while the wall
clock advances, garbage collection inside a critical section, ...)."""
import os
import subprocess
import sys

from .common import Outcome, REPO, fingerprint

DIR = os.path.join(os.path.dirname(os.path.dirname(os.path.abspath(__file__))), 'scenarios')


def run_scenarios(prop, quick, only=None):
    """Run every scenario of the property (`<Cxx>_<name>.py`; `<Cxx>_<name>.slow.py` only in the thorough tier)."""
    out = Outcome()
    try:
        names = sorted(n for n in os.listdir(DIR) if n.startswith(prop + '_') and n.endswith('.py'))
    except FileNotFoundError:
        return out
    for name in names:
        if only is not None and name != only:
            continue
        if quick and name.endswith('.slow.py'):
            continue
        out.evaluations += 1
        case = {'scenario': name}
        env = dict(os.environ, PYTHONPATH=REPO)
        try:
            p = subprocess.run([sys.executable, os.path.join(DIR, name)], env=env, stdin=subprocess.DEVNULL,
                               stdout=subprocess.PIPE, stderr=subprocess.PIPE, text=True, timeout=300)
        except subprocess.TimeoutExpired:
            out.concrete.append({'case': case, 'what': f'scenario {name} did not finish within 300 s',
                                 'signature': {'kind': 'scenario-hang', 'name': name}})
            continue
        lines = [l for l in p.stdout.splitlines() if l.startswith('VIOLATION:')]
        if p.returncode == 1 and lines:
            out.concrete.append({'case': case, 'what': f'scenario {name}: {lines[0][:700]}', 'observed': p.stdout[-1500:],
                                 'signature': {'kind': 'scenario', 'name': name}})
        elif p.returncode != 0:
            out.concrete.append({'case': case, 'what': f'scenario {name} failed to run (exit {p.returncode}): '
                                                      f'{(p.stderr or p.stdout)[-400:]}',
                                 'signature': {'kind': 'scenario-error', 'name': name}})
        else:
            out.traces_validated += 1
            out.fingerprints.add(fingerprint(case))
            out.count('scenario:' + name[:-3])
    return out
