"""Lean side of a check: build, axiom audit, forbidden-token scan, model driver."""
import fcntl
import os
import re
import subprocess
import tempfile

from .common import LEAN_DIR, ALLOWED_AXIOMS, InternalError

FORBIDDEN = re.compile(r'\bsorry\b|\badmit\b|^\s*axiom\s|native_decide|bv_decide|implemented_by|'
                       r'\bunsafe\s|maxHeartbeats\s+0\b', re.M)


class _BuildLock:
    def __enter__(self):
        os.makedirs(os.path.join(LEAN_DIR, '.lake'), exist_ok=True)
        self.f = open(os.path.join(LEAN_DIR, '.lake', 'verif.lock'), 'w')
        fcntl.flock(self.f, fcntl.LOCK_EX)
        return self

    def __exit__(self, *a):
        fcntl.flock(self.f, fcntl.LOCK_UN)
        self.f.close()


def _run(cmd, timeout=1800, **kw):
    return subprocess.run(cmd, cwd=LEAN_DIR, stdout=subprocess.PIPE, stderr=subprocess.STDOUT,
                          text=True, timeout=timeout, **kw)


def build(targets):
    """lake build <targets>. Returns (ok, log)."""
    with _BuildLock():
        p = _run(['lake', 'build'] + list(targets))
    return p.returncode == 0, p.stdout


def strip_comments(src):
    src = re.sub(r'/-.*?-/', '', src, flags=re.S)
    return re.sub(r'--.*', '', src)


def scan_forbidden(subdirs):
    """Look for sorry/axiom/native_decide/... outside comments in the given lean sub-directories."""
    hits = []
    for sub in subdirs:
        root = os.path.join(LEAN_DIR, sub)
        paths = []
        if os.path.isfile(root):
            paths = [root]
        else:
            for d, _, fs in os.walk(root):
                paths += [os.path.join(d, f) for f in fs if f.endswith('.lean')]
        for p in sorted(paths):
            with open(p) as f:
                body = strip_comments(f.read())
            for m in FORBIDDEN.finditer(body):
                hits.append((os.path.relpath(p, LEAN_DIR), m.group(0).strip()))
    return hits


def audit(module, theorems):
    """#print axioms for every theorem. Returns dict name -> (ok, axioms or error text)."""
    src = f'import {module}\n' + ''.join(f'#print axioms {t}\n' for t in theorems)
    with _BuildLock():
        with tempfile.NamedTemporaryFile('w', suffix='.lean', dir=LEAN_DIR, delete=False) as f:
            f.write(src)
            tmp = f.name
        try:
            p = _run(['lake', 'env', 'lean', tmp])
        finally:
            os.unlink(tmp)
    out = p.stdout
    res = {}
    for t in theorems:
        m = re.search(r"'" + re.escape(t) + r"' depends on axioms: \[(.*?)\]", out, re.S)
        if m:
            axs = {a.strip() for a in m.group(1).replace('\n', ' ').split(',') if a.strip()}
            res[t] = (axs <= ALLOWED_AXIOMS, sorted(axs))
        elif re.search(r"'" + re.escape(t) + r"' does not depend on any axioms", out):
            res[t] = (True, [])
        else:
            res[t] = (False, 'not found: ' + out[-400:])
    return res


class Driver:
    """The compiled model driver; batch mode (all lines in, all answers out)."""

    def __init__(self):
        self.exe = os.path.join(LEAN_DIR, '.lake', 'build', 'bin', 'driver')
        if not os.path.exists(self.exe):
            raise InternalError('model driver not built: ' + self.exe)

    def ask(self, lines, timeout=1800):
        if not lines:
            return []
        data = '\n'.join(lines) + '\n'
        p = subprocess.run([self.exe], input=data, stdout=subprocess.PIPE, stderr=subprocess.PIPE,
                           text=True, timeout=timeout)
        if p.returncode != 0:
            raise InternalError('model driver failed: ' + p.stderr[-400:])
        out = p.stdout.split('\n')
        if out and out[-1] == '':
            out.pop()
        if len(out) != len(lines):
            raise InternalError(f'model driver answered {len(out)} lines for {len(lines)} cases')
        return out
