"""Hook-free instrumentation, attached by *object identity*, not by name.

The harnesses replace what the library calls (`threading.Lock`, `os.open`, `fcntl.flock`, `time.sleep`,
`ThreadPoolExecutor`, `asyncio.Event`, ...) by cooperative / recording stand-ins.  How a module spells its imports is
not behaviour (`import time` + `time.sleep(0)`, `from time import sleep`, `import time as _t`), so the replacement
looks at the *values* of the module's globals:

  * a global that **is** one of the real objects is rebound to its stand-in;
  * a global that is one of the real *modules* is rebound to a `Proxy` of it whose attributes that are real objects
    are the stand-ins (recursively, for `concurrent.futures` reached through `concurrent`), everything else falling
    through to the real module.

`substitute` first undoes whatever an earlier call installed in that module, so several harness modes can take turns
in one process.  It returns the list of real objects that were found nowhere (the caller decides whether the code can
still be driven without them).
"""
import types

_ORIG = {}          # module name -> {global name: original value}


class AttachError(RuntimeError):
    """The code under test no longer offers a place where the instrumentation can be attached: the tie between the
    model and this code is broken (reported as such, never as a failing input and never as a harness crash)."""


class Proxy(types.ModuleType):
    def __init__(self, real, over):
        super().__init__(getattr(real, '__name__', 'proxy'))
        self.__dict__['_real'] = real
        self.__dict__.update(over)

    def __getattr__(self, n):
        return getattr(self.__dict__['_real'], n)


def restore(mod):
    for name, val in _ORIG.pop(mod.__name__, {}).items():
        setattr(mod, name, val)


def _proxy_for(real_mod, by_id, modules, hit, depth=0):
    over = {}
    for attr, val in list(vars(real_mod).items()):
        if attr.startswith('__'):
            continue
        if id(val) in by_id:
            over[attr] = by_id[id(val)][1]
            hit.add(id(val))
        elif depth < 2 and isinstance(val, types.ModuleType) and any(val is m for m in modules):
            sub = _proxy_for(val, by_id, modules, hit, depth + 1)
            if sub is not None:
                over[attr] = sub
    return Proxy(real_mod, over) if over else None


def substitute(mod, pairs, modules=()):
    """pairs: iterable of (real object, stand-in); modules: the real modules the real objects live in.
    Returns the real objects of `pairs` that the module references in no way."""
    restore(mod)
    by_id = {id(r): (r, s) for r, s in pairs}
    saved = {}
    hit = set()
    for name, val in list(vars(mod).items()):
        if name.startswith('__'):
            continue
        if id(val) in by_id:
            saved[name] = val
            setattr(mod, name, by_id[id(val)][1])
            hit.add(id(val))
        elif isinstance(val, types.ModuleType) and any(val is m for m in modules):
            p = _proxy_for(val, by_id, modules, hit)
            if p is not None:
                saved[name] = val
                setattr(mod, name, p)
    _ORIG[mod.__name__] = saved
    return [r for i, (r, s) in by_id.items() if i not in hit]
