"""Run chunks of cases in worker processes under a wall-clock watchdog and merge the Outcomes.

Every execution of the real code happens in a forked worker.  A worker that does not finish its
chunk within the limit is a *hang of the code under test* (a busy loop, a blocked lock …): the
parent asks it (SIGUSR1) for the case it is executing, kills it, and reports that case as a
concrete violation with signature kind 'hang' — never as a harness error.
"""
import json
import multiprocessing as mp
import os
import pickle
import signal
import tempfile
import time
import traceback

from .common import Outcome
from .attach import AttachError

_current = [None]


def mark(case):
    """Called by a worker before it executes `case` on the real code."""
    _current[0] = case


def _worker(fn, payload, conn, marker_path):
    def dump(signum, frame):
        try:
            with open(marker_path, 'w') as f:
                json.dump(_current[0], f, default=repr)
        finally:
            os._exit(3)
    signal.signal(signal.SIGUSR1, dump)
    import sys, threading
    sys.unraisablehook = lambda *a: None          # finalizers of abandoned loops / generators
    threading.excepthook = lambda *a: None
    import warnings
    warnings.simplefilter('ignore')
    try:
        out = fn(payload)
        conn.send(('ok', pickle.dumps(out)))
    except AttachError as e:
        conn.send(('attach', str(e)))
    except BaseException:  # noqa
        conn.send(('err', traceback.format_exc()))
    finally:
        conn.close()
    os._exit(0)


def run_chunks(fn, payloads, workers, limit_s=240):
    """fn(payload) -> Outcome. `limit_s`: wall-clock limit per chunk."""
    total = Outcome()
    ctx = mp.get_context('fork')
    pending = list(enumerate(payloads))
    live = {}
    tmpdir = tempfile.mkdtemp(prefix='aiuti-verif-')
    errors = []
    durations = []
    try:
        while pending or live:
            if sum(1 for c in total.concrete if c.get('signature', {}).get('kind') == 'hang') >= 2:
                pending = []          # the code under test hangs: no point in starting more chunks
            while pending and len(live) < max(1, workers):
                idx, payload = pending.pop(0)
                parent, child = ctx.Pipe(duplex=False)
                mpath = os.path.join(tmpdir, f'marker-{idx}.json')
                p = ctx.Process(target=_worker, args=(fn, payload, child, mpath), daemon=True)
                p.start()
                child.close()
                live[idx] = (p, parent, time.time(), payload, mpath)
            time.sleep(0.01)
            for idx in list(live):
                p, conn, t0, payload, mpath = live[idx]
                if conn.poll():
                    try:
                        kind, data = conn.recv()
                    except EOFError:
                        kind, data = 'err', 'worker died without a result'
                    p.join(5)
                    if kind == 'ok':
                        durations.append(time.time() - t0)
                        total.merge(pickle.loads(data))
                    elif kind == 'attach':
                        total.diffs.append({'case': {'chunk': repr(payload)}, 'impl': data, 'model': None,
                                            'where': 'cannot attach the instrumentation: ' + data})
                    else:
                        errors.append(data)
                    del live[idx]
                elif not p.is_alive():
                    errors.append(f'worker for chunk {idx} exited with {p.exitcode} and no result')
                    del live[idx]
                elif time.time() - t0 > (min(limit_s, max(30.0, 40 * max(durations))) if durations else limit_s):
                    os.kill(p.pid, signal.SIGUSR1)
                    p.join(3)
                    if p.is_alive():
                        p.kill()
                        p.join(3)
                    case = None
                    try:
                        with open(mpath) as f:
                            case = json.load(f)
                    except Exception:  # noqa
                        pass
                    total.concrete.append({
                        'case': case if case is not None else {'chunk': repr(payload)},
                        'what': f'the code under test did not return within {limit_s} s of wall-clock time '
                                '(hang / busy loop) while executing this case',
                        'signature': {'kind': 'hang'}})
                    total.evaluations += 1
                    del live[idx]
    finally:
        for idx, (p, conn, *_rest) in live.items():
            p.kill()
        try:
            for f in os.listdir(tmpdir):
                os.unlink(os.path.join(tmpdir, f))
            os.rmdir(tmpdir)
        except OSError:
            pass
    if errors:
        from .common import InternalError
        raise InternalError('worker failed:\n' + errors[0][-1500:])
    return total
