"""Baton scheduler: real threads, exactly one runnable at a time, a shared virtual clock.

A controlled thread reaches a *schedule point* `point(label, enabled, deadline)` whenever it is about
to touch shared state through a harness-owned object.  The strategy picks the next enabled thread;
a thread whose `enabled()` is false is blocked; when nobody is enabled the virtual clock advances to
the earliest deadline; when there is no deadline either the run is a **deadlock / hang** and is
reported with every thread's last label.  Every choice comes from one `random.Random(seed)` (or from
a recorded choice list), so a run replays exactly.
"""
import random
import threading


class Hang(Exception):
    pass


class Sched:
    def __init__(self, seed=0, choices=None, max_steps=20000, pct_depth=0, preempt=None):
        """`preempt` (a dict: decision index -> k) switches to the non-preemptive policy used by the systematic
        exploration: the running thread keeps the baton while it is enabled, otherwise the first enabled
        thread (in spawn order) gets it - except at the listed decision indices, where the k-th *other*
        enabled thread is chosen.  `branching` records, per decision, how many others were enabled."""
        self.preempt = preempt
        self.branching = []
        self.last = None
        self.rng = random.Random(seed)
        self.vt = 0.0
        self.threads = {}        # name -> record
        self.order = []
        self.trace = []          # names chosen, in order
        self.choices = list(choices) if choices is not None else None
        self.hung = None
        self.max_steps = max_steps
        self.steps = 0
        self.done = threading.Event()
        self.errors = []
        self.current = None
        # PCT-style priorities: a fixed random priority per thread, lowered at `pct_depth` random steps
        self.pct_depth = pct_depth
        self.prio = {}
        self.change_at = sorted(self.rng.randrange(1, 400) for _ in range(pct_depth)) if pct_depth else []

    # ---------------------------------------------------------------- thread management
    def spawn(self, name, fn):
        rec = dict(sem=threading.Semaphore(0), enabled=(lambda: True), deadline=None, alive=True,
                   label='start', thread=None)
        self.threads[name] = rec
        self.order.append(name)
        self.prio[name] = self.rng.random()

        def body():
            rec['sem'].acquire()
            self.current = name
            try:
                fn()
            except Hang:
                pass
            except BaseException as e:  # noqa
                self.errors.append((name, repr(e)))
            finally:
                rec['alive'] = False
                rec['enabled'] = None
                self._handoff(None)
        t = threading.Thread(target=body, name=name, daemon=True)
        rec['thread'] = t
        t.start()

    def run(self, wall_timeout=60):
        """Called from the uncontrolled main thread: start the first thread, wait for all."""
        self._pick_and_release()
        if not self.done.wait(wall_timeout):
            self.hung = [('wall-clock watchdog', self.current)]
            # release everybody so that daemon threads can die
            for r in self.threads.values():
                r['abort'] = True
                r['sem'].release()
        if self.hung:
            # let the aborted threads unwind (their `finally` / `__exit__` blocks run harness code) before the
            # caller starts the next case: nothing of this run may leak into the next one
            for r in list(self.threads.values()):
                t = r['thread']
                if t is not None and t is not threading.current_thread():
                    t.join(1.0)
        return self.hung

    # ---------------------------------------------------------------- scheduling
    def _candidates(self):
        out = self._candidates0()
        # a thread that yielded (`sleep(0)`) runs again only when nobody else can: a strict-priority schedule
        # would otherwise let a spin-wait starve the thread it is waiting for
        rest = [n for n in out if not self.threads[n].get('yielding')]
        return rest if rest else out

    def _candidates0(self):
        out = []
        for n in self.order:
            r = self.threads[n]
            if r['alive'] and r['enabled'] is not None:
                try:
                    ok = r['enabled']() or (r['deadline'] is not None and self.vt >= r['deadline'])
                except BaseException as e:  # noqa
                    self.errors.append((n, 'enabled(): ' + repr(e)))
                    ok = True
                if ok:
                    out.append(n)
        return out

    def _choose(self, cands):
        if self.choices is not None:
            if self.choices:
                c = self.choices.pop(0)
                if c in cands:
                    return c
            return cands[0]
        if self.preempt is not None:
            d = len(self.branching)
            others = [n for n in cands if n != self.last]
            self.branching.append(len(others) if self.last in cands else max(0, len(cands) - 1))
            if d in self.preempt:
                pool = others if self.last in cands else cands[1:]
                if pool:
                    return pool[self.preempt[d] % len(pool)]
            return self.last if self.last in cands else cands[0]
        if self.pct_depth:
            if self.change_at and self.steps >= self.change_at[0]:
                self.change_at.pop(0)
                victim = max(cands, key=lambda n: self.prio[n])
                self.prio[victim] = -self.steps
            return max(cands, key=lambda n: self.prio[n])
        return self.rng.choice(cands)

    def _pick_and_release(self):
        while True:
            if self.done.is_set():
                return None          # the run is over (aborted): nobody is scheduled any more
            self.steps += 1
            if self.steps > self.max_steps:
                self.hung = [('step budget', n, r['label']) for n, r in self.threads.items() if r['alive']]
                self._abort_all()
                return None
            c = self._candidates()
            if c:
                n = self._choose(c)
                self.last = n
                self.trace.append(n)
                r = self.threads[n]
                r['enabled'] = None
                self.current = n
                r['sem'].release()
                return n
            dl = [r['deadline'] for r in self.threads.values()
                  if r['alive'] and r['enabled'] is not None and r['deadline'] is not None]
            if not dl:
                alive = [(n, r['label']) for n, r in self.threads.items() if r['alive']]
                if alive:
                    self.hung = alive
                    self._abort_all()
                self.done.set()
                return None
            self.vt = max(self.vt, min(dl))

    def _abort_all(self):
        for r in self.threads.values():
            if r['alive']:
                r['abort'] = True
                r['sem'].release()
        self.done.set()

    def _handoff(self, me):
        nxt = self._pick_and_release()
        if me is not None:
            r = self.threads[me]
            r['sem'].acquire()
            if r.get('abort'):
                raise Hang()
            self.current = me

    def point(self, label, enabled=None, deadline=None, yield_=False):
        """Schedule point of the calling (controlled) thread. Returns True if it was woken because
        `enabled()` held, False if only because its deadline passed."""
        me = threading.current_thread().name
        r = self.threads.get(me)
        if r is None or r['thread'] is not threading.current_thread():
            return True              # an uncontrolled thread (or a left-over of an earlier, aborted run): no scheduling
        if self.done.is_set():
            raise Hang()             # this run was aborted: keep unwinding
        r['label'] = label
        r['deadline'] = deadline
        en = enabled if enabled is not None else (lambda: True)
        r['enabled'] = en
        r['yielding'] = yield_
        try:
            self._handoff(me)
        finally:
            r['yielding'] = False
        r['deadline'] = None
        try:
            return bool(en())
        except BaseException:  # noqa
            return True


# ---------------------------------------------------------------------- event loops under the baton
import asyncio
import selectors


class CoopSelector(selectors.SelectSelector):
    """The loop's idle wait is a schedule point: enabled when a registered descriptor is readable (the
    self-pipe written by call_soon_threadsafe), with the loop's next timer as deadline."""

    def __init__(self, sched):
        super().__init__()
        self.sched = sched

    def select(self, timeout=None):
        ev = super().select(0)
        if ev or timeout == 0:
            return ev
        deadline = None if timeout is None else self.sched.vt + timeout
        peek = super().select
        self.sched.point('loop.idle', enabled=lambda: bool(peek(0)), deadline=deadline)
        return super().select(0)


class BLoop(asyncio.SelectorEventLoop):
    """Event loop driven by the baton scheduler: shared virtual clock, cooperative idle wait."""

    def __init__(self, sched):
        super().__init__(CoopSelector(sched))
        self.sched = sched
        self._clock_resolution = 1e-9

    def time(self):
        return self.sched.vt
