"""Virtual-time event loop: time() is a virtual clock that jumps to the next timer when the loop
is otherwise idle. Never jumps while work handed to an executor is in flight."""
import asyncio
import heapq


class VLoop(asyncio.SelectorEventLoop):
    def __init__(self):
        super().__init__()
        self._vt = 0.0
        self._clock_resolution = 1e-9
        self._inflight = set()
        self.horizon = None          # virtual-time bound: exceeding it raises (hang detector)
        self.raise_on_idle = False   # single-threaded cases: nothing ready and no timer = hang

    def time(self):
        return self._vt

    def block(self, dt):
        """Virtual time passes without the loop doing anything: the loop is not running (between two
        run_until_complete calls) or one of its callbacks keeps it busy with synchronous work.  Timers that become
        due are run, as on a real loop, after whatever is already ready."""
        self._vt += dt

    def run_in_executor(self, executor, func, *args):
        fut = super().run_in_executor(executor, func, *args)
        self._inflight.add(fut)
        fut.add_done_callback(self._inflight.discard)
        return fut

    def _run_once(self):
        while self._scheduled and self._scheduled[0]._cancelled:
            h = heapq.heappop(self._scheduled)
            h._scheduled = False
            self._timer_cancelled_count -= 1
        if not self._ready and not self._stopping:
            ev = self._selector.select(0.002 if self._inflight else 0)
            if ev:
                self._process_events(ev)
            if not self._ready:
                if self._inflight:
                    return
                if self._scheduled:
                    self._vt = max(self._vt, self._scheduled[0]._when)
                    if self.horizon is not None and self._vt > self.horizon:
                        raise VirtualTimeout(self._vt)
                elif self.raise_on_idle:
                    raise Idle()
        super()._run_once()


class Idle(Exception):
    """The loop has nothing ready, no timer and nothing in flight: it would block for ever."""


class VirtualTimeout(Exception):
    """Virtual time passed the horizon with the main coroutine still unfinished."""


def vrun(coro, horizon=None, raise_on_idle=True):
    """Run a coroutine on a fresh virtual-time loop. Raises Idle if it can never finish."""
    loop = VLoop()
    loop.horizon = horizon
    loop.raise_on_idle = raise_on_idle
    asyncio.set_event_loop(loop)
    try:
        return loop.run_until_complete(coro)
    finally:
        try:
            loop.close()
        finally:
            asyncio.set_event_loop(None)


TICK = 1.0 / 1024      # all harness instants are multiples of this: exact in binary floating point


def ticks(t):
    return int(round(t / TICK))
