"""Shared plumbing of the checks: paths, PRNG, evidence, known findings, verdict logic."""
import hashlib
import json
import os
import random
import sys
import time

VERIF = os.path.dirname(os.path.dirname(os.path.dirname(os.path.abspath(__file__))))
REPO = os.environ.get('AIUTI_REPO', '/repo')
LEAN_DIR = os.path.join(VERIF, 'lean')
EVIDENCE_DIR = os.path.join(VERIF, 'evidence')
REPLAY_DIR = os.path.join(VERIF, 'replays')
CORPUS_DIR = os.path.join(VERIF, 'corpus')
KNOWN_FINDINGS = os.path.join(VERIF, 'known_findings.json')

ALLOWED_AXIOMS = {'propext', 'Classical.choice', 'Quot.sound'}
TRUSTED_BASE = [
    'Lean 4.33.0 kernel',
    'axioms propext, Classical.choice, Quot.sound (audited per theorem with #print axioms on every run)',
    'hand-written Lean model of the component (tied to /repo by the correspondence check of this run)',
    'the correspondence harness (Python): instrumentation proxies, virtual clock, canonicaliser',
]


class InternalError(Exception):
    """Harness problem (never reported as a VIOLATION): exit status 2."""


def import_aiuti():
    """Import aiuti from /repo's working tree and make sure that is what we got."""
    if REPO not in sys.path:
        sys.path.insert(0, REPO)
    import aiuti
    here = os.path.realpath(os.path.dirname(aiuti.__file__))
    want = os.path.realpath(os.path.join(REPO, 'aiuti'))
    if here != want:
        raise InternalError(f'aiuti imported from {here}, expected {want}')
    return aiuti


def seed_from_env():
    try:
        return int(os.environ.get('VERIF_SEED', '0'))
    except ValueError:
        return 0


def rng_for(seed, *salt):
    h = hashlib.sha256(repr((seed,) + salt).encode()).digest()
    return random.Random(int.from_bytes(h[:8], 'big'))


def fingerprint(obj):
    return hashlib.sha256(json.dumps(obj, sort_keys=True, default=repr).encode()).hexdigest()[:16]


class Outcome:
    """What one run of a property's check found."""

    def __init__(self):
        self.evaluations = 0            # cases executed on the real code
        self.traces_validated = 0       # cases also replayed on the Lean model and compared
        self.fingerprints = set()       # distinct non-trivial cases
        self.samples = []               # a few actual cases
        self.concrete = []              # monitor failures on the real code: dict(case, what, signature)
        self.diffs = []                 # model/impl differences: dict(case, impl, model, where)
        self.histogram = {}             # branch / label / kind histogram
        self.extra = {}                 # further coverage keys
        self.exhaustive = False
        self.notes = []

    def count(self, key, n=1):
        self.histogram[key] = self.histogram.get(key, 0) + n

    def sample(self, case, limit=4):
        if len(self.samples) < limit:
            self.samples.append(case)

    def merge(self, other):
        self.evaluations += other.evaluations
        self.traces_validated += other.traces_validated
        self.fingerprints |= other.fingerprints
        for s in other.samples:
            self.sample(s)
        self.concrete += other.concrete
        self.diffs += other.diffs
        for k, v in other.histogram.items():
            self.count(k, v)
        self.extra.update(other.extra)
        self.notes += other.notes


def load_known_findings(prop):
    try:
        with open(KNOWN_FINDINGS) as f:
            data = json.load(f)
    except FileNotFoundError:
        return []
    return [e for e in data.get('findings', [])
            if e.get('property') == prop and e.get('status') == 'known']


def write_replay(prop, payload):
    os.makedirs(REPLAY_DIR, exist_ok=True)
    name = f'{prop}-{fingerprint(payload)}.json'
    path = os.path.join(REPLAY_DIR, name)
    with open(path, 'w') as f:
        json.dump(payload, f, indent=1, sort_keys=True, default=repr)
    return os.path.relpath(path, VERIF)


def write_evidence(prop, tier, seed, coverage, assumptions, wall_s, violations):
    os.makedirs(EVIDENCE_DIR, exist_ok=True)
    doc = {
        'property_id': prop, 'tier': tier, 'seed': seed, 'level': 'proof',
        'coverage': coverage, 'assumptions': assumptions,
        'wall_s': round(wall_s, 3), 'violations': violations,
    }
    tmp = os.path.join(EVIDENCE_DIR, f'.{prop}.json.{os.getpid()}.tmp')   # two runs of one check may overlap
    with open(tmp, 'w') as f:
        json.dump(doc, f, indent=1, sort_keys=True, default=repr)
    os.replace(tmp, os.path.join(EVIDENCE_DIR, f'{prop}.json'))


class Clock:
    def __init__(self):
        self.t0 = time.time()

    def elapsed(self):
        return time.time() - self.t0
