"""C13 — a crashed holder never leaves the FileLock stuck (crash-point enumeration)."""
import logging
import os
import signal
import subprocess
import sys
import time

from ..core import lean
from ..core.common import Outcome, fingerprint, REPO, VERIF
from ..core.par import run_chunks, mark
from ..comp import filelock as F
from . import c02

ID = 'C13'
MODULE = 'AiutiVerif.FileLock.SmallProps'
LEAN_SUBDIRS = ['AiutiVerif/FileLock', 'AiutiVerif/Core', 'Driver.lean']
THEOREMS = [
    'AiutiVerif.FileLock.Small.inv_kill',
    'AiutiVerif.FileLock.Small.C02_mutex',
    'AiutiVerif.FileLock.Small.C13_lock_not_left_behind',
    'AiutiVerif.FileLock.Small.C13_available_after_kill',
]
ASSUMPTIONS = [
    'the kernel closes every descriptor of a killed process and thereby drops its flock (this is the assumption '
    'the `kill` label of the model encodes; the crash-point enumeration exercises it on the real kernel)',
    'the lock file itself is never unlinked or inspected by FileLock (no on-disk ownership state)',
]
RULE = ('a child process runs a script (blocking, timed, nested reentrant acquire/hold/release) on the real FileLock '
        'with a line tracer on aiuti/filelock.py and SIGKILLs itself at the i-th line event, for every i of every '
        'script; it logs its shared-access labels to a file as it goes; after each kill a fresh FileLock in another '
        'process must acquire within a bound, the recorded label prefix + kill + fresh acquisition must be an execution '
        'of the Lean small-step model, and 0..2 free-running contender processes with an O_EXCL marker watch for '
        'overlap; distinct = distinct (script, kill index, contenders)')

CHILD = r'''
import os, sys, signal, types
sys.path.insert(0, sys.argv[1])
import aiuti.filelock as FL
path, kill_at, script, logpath = sys.argv[2], int(sys.argv[3]), sys.argv[4], sys.argv[5]
log = os.open(logpath, os.O_WRONLY | os.O_CREAT | os.O_TRUNC | os.O_APPEND)
ctx = [None]
def emit(s):
    os.write(log, (s + '\n').encode())
import threading as _th, fcntl as _fc, time as _tm
_os = os
class L:
    def __init__(self, re):
        self.l = _th.RLock() if re else _th.Lock()
    def acquire(self, blocking=True, timeout=-1):
        ok = self.l.acquire(blocking, timeout)
        emit('ta:0:0:%d' % (1 if ok else 0)); return ok
    def release(self):
        self.l.release()
        emit('gu:0' if ctx[0] == 'acquire' else 'tr:0')
class TP(types.ModuleType):
    def __getattr__(self, n): return getattr(_th, n)
    Lock = staticmethod(lambda: L(False)); RLock = staticmethod(lambda: L(True))
class OP(types.ModuleType):
    def __getattr__(self, n): return getattr(_os, n)
    @staticmethod
    def open(p, m, *a):
        fd = _os.open(p, m, *a); emit('op:0:1'); return fd
    @staticmethod
    def close(fd):
        _os.close(fd); emit('ca:0' if ctx[0] == 'acquire' else 'cr:0')
class FP(types.ModuleType):
    def __getattr__(self, n): return getattr(_fc, n)
    @staticmethod
    def flock(fd, op):
        if op == _fc.LOCK_UN:
            _fc.flock(fd, op); emit('ul:0'); return
        try: _fc.flock(fd, op)
        except OSError:
            emit('fl:0:0'); raise
        emit('fl:0:1')
class MP(types.ModuleType):
    def __getattr__(self, n): return getattr(_tm, n)
    @staticmethod
    def sleep(d):
        emit('rt:0'); _tm.sleep(d)
sys.path.insert(0, sys.argv[6])
from harness.core import attach
attach.substitute(FL, [(_th.Lock, TP.Lock), (_th.RLock, TP.RLock), (_os.open, OP.open), (_os.close, OP.close),
                       (_fc.flock, FP.flock), (_tm.sleep, MP.sleep)], (_th, _os, _fc, _tm))
n = [0]
target = FL.__file__
def tr(frame, event, arg):
    if frame.f_code.co_filename != target: return None
    if event == 'line':
        n[0] += 1
        if n[0] == kill_at: _os.kill(_os.getpid(), signal.SIGKILL)
    return tr
l = FL.FileLock(path, reentrant=(script == 'nested'))
def acq(**kw):
    ctx[0] = 'acquire'
    try: return l.acquire(**kw)
    finally: ctx[0] = None
def rel(force=False):
    emit('rb:0:0:%d' % (1 if force else 0)); ctx[0] = 'release'
    try: l.release(force=force)
    finally: ctx[0] = None
sys.settrace(tr)
if script == 'plain':
    acq(); emit('en:0'); emit('ex:0'); rel()
elif script == 'timed':
    if acq(timeout=0.05, poll_interval=0.01): emit('en:0'); emit('ex:0'); rel()
elif script == 'nested':
    acq(); acq(); emit('en:0'); emit('ex:0'); rel(); rel(force=True)
sys.settrace(None)
print(n[0])
'''

SCRIPTS = ['plain', 'timed', 'nested']


def child(work, path, kill_at, script, tag):
    logp = os.path.join(work, f'labels-{tag}.txt')
    p = subprocess.run([sys.executable, '-c', CHILD, REPO, path, str(kill_at), script, logp, VERIF],
                       stdout=subprocess.PIPE, stderr=subprocess.PIPE, text=True, timeout=120)
    labels = []
    try:
        with open(logp) as f:
            labels = [x for x in f.read().split('\n') if x]
        os.unlink(logp)
    except OSError:
        pass
    return p, labels


def _chunk(payload):
    logging.disable(logging.CRITICAL)
    script, kills, ncont, seed = payload
    from aiuti.filelock import FileLock
    out = Outcome()
    drv = lean.Driver()
    work = F.mkworkdir()
    conts = []
    try:
        path = os.path.join(work, 'crash.lock')
        marker = os.path.join(work, 'marker')
        for k in range(ncont):
            conts.append(subprocess.Popen([sys.executable, '-c', c02.SOAK, REPO, path, marker, '3600', str(seed * 10 + k)],
                                          stdout=subprocess.PIPE, stderr=subprocess.PIPE, text=True))
        lines = []
        cases = []
        for i in kills:
            case = {'script': script, 'kill_at': i, 'contenders': ncont}
            mark(case)
            out.evaluations += 1
            if ncont == 0:
                # a lock file nobody has used yet: the crash may hit its very first creation
                path = os.path.join(work, f'crash-{i}.lock')
            p, labels = child(work, path, i, script, f'{script}-{i}')
            if p.returncode != -signal.SIGKILL:
                # the script finished before the i-th line event (timing-dependent paths): not a crash case
                out.count('kill-index-beyond-run')
                continue
            t0 = time.time()
            fresh = FileLock(path)
            ok = fresh.acquire(timeout=3.0, poll_interval=0.002)
            dt = time.time() - t0
            if ok:
                fresh.release()
            out.count('killed-at:' + (labels[-1].split(':')[0] if labels else 'before-first-access'))
            out.fingerprints.add(fingerprint(case))
            if not ok:
                out.concrete.append({'case': case, 'what': f'after SIGKILL at line event {i} of script {script!r} a fresh '
                                     f'process could not acquire the lock within 3 s (labels so far: {labels[-6:]})',
                                     'signature': {'kind': 'stuck-after-kill', 'script': script}})
            out.extra['worst_acquire_after_kill_s'] = round(max(out.extra.get('worst_acquire_after_kill_s', 0), dt), 4)
            if ncont == 0:
                lines.append("flocksm reent=%d,0 procT=0,1 procO=0,1 labels=%s" % (
                    1 if script == 'nested' else 0, ';'.join(labels + ['kl:0', 'ta:1:1:1', 'op:1:1', 'fl:1:1'])))
                cases.append((case, labels))
            if len(out.samples) < 1 and len(labels) >= 3:
                out.sample({'case': case, 'labels_before_kill': labels})
        for (case, labels), a in zip(cases, drv.ask(lines)):
            out.traces_validated += 1
            if a != 'ok':
                out.diffs.append({'case': case, 'impl': labels, 'model': a,
                                  'where': 'recorded labels + kill + fresh acquisition is not an execution of the model'})
        for c in conts:
            c.send_signal(signal.SIGTERM)
        for c in conts:
            try:
                so, se = c.communicate(timeout=30)
                r, o = map(int, so.split())
                out.count('contender-sections', r)
                if o:
                    out.concrete.append({'case': {'script': script, 'contenders': ncont},
                                         'what': f'{o} overlapping critical sections among the surviving contenders '
                                                 'while holders were being killed',
                                         'signature': {'kind': 'overlap', 'part': 'survivors'}})
            except (subprocess.TimeoutExpired, ValueError):
                out.concrete.append({'case': {'script': script, 'contenders': ncont},
                                     'what': 'a surviving contender never finished (lock stuck after a kill)',
                                     'signature': {'kind': 'hang', 'part': 'survivors'}})
    finally:
        for c in conts:
            try:
                c.kill()
            except OSError:
                pass
        F.rmworkdir(work)
    return out


QUEUED = r"""
import sys, os, signal, time
sys.path.insert(0, sys.argv[1])
from aiuti.filelock import FileLock
path, role, reent = sys.argv[2], sys.argv[3], sys.argv[4] == '1'
l = FileLock(path, reentrant=reent)
def say(x):
    sys.stdout.write(x + '\n'); sys.stdout.flush()
if role == 'holder':
    l.acquire()
    if reent:
        l.acquire()
    say('held')
    sys.stdin.readline()                    # 'die'
    os.kill(os.getpid(), signal.SIGKILL)
else:
    say('start')
    l.acquire()                             # blocking, no time-out: parks in the OS lock queue
    say('got')
    sys.stdin.readline()                    # 'release'
    l.release()
    say('released')
"""


def _readline(proc, timeout):
    """One line of a child's stdout within `timeout` seconds, else None."""
    import select
    r, _, _ = select.select([proc.stdout], [], [], timeout)
    return proc.stdout.readline().strip() if r else None


def _waiting_in_flock(pids, timeout=2.0):
    """True once every pid shows up as a blocked waiter (`->`) in /proc/locks; best effort."""
    end = time.time() + timeout
    while time.time() < end:
        try:
            with open('/proc/locks') as f:
                blocked = {int(x.split()[5]) for x in f if '->' in x and len(x.split()) > 5 and x.split()[5].isdigit()}
        except (OSError, ValueError):
            blocked = set()
        if all(p in blocked for p in pids):
            return True
        time.sleep(0.01)
    return False


def queued_survivors(out, reent):
    """A holder dies while TWO contenders are already parked in blocking acquires: exactly one of them gets the
    lock; the other only after the first released (mutual exclusion among the survivors), and promptly."""
    work = F.mkworkdir()
    procs = []
    case = {'part': 'queued-survivors', 'reentrant': reent}
    mark(case)
    out.evaluations += 1

    def spawn(role):
        p = subprocess.Popen([sys.executable, '-u', '-c', QUEUED, REPO, os.path.join(work, 'q.lock'), role,
                              '1' if reent else '0'], stdin=subprocess.PIPE, stdout=subprocess.PIPE,
                             stderr=subprocess.PIPE, text=True)
        procs.append(p)
        return p
    try:
        h = spawn('holder')
        if _readline(h, 20) != 'held':
            out.count('queued-survivors:setup-failed')
            return
        b, c = spawn('cont'), spawn('cont')
        for p in (b, c):
            _readline(p, 20)                # 'start'
        parked = _waiting_in_flock([b.pid, c.pid])
        if not parked:
            time.sleep(0.3)
        out.count('queued-survivors:parked' if parked else 'queued-survivors:parked-unconfirmed')
        h.stdin.write('die\n')
        h.stdin.flush()
        h.wait(timeout=20)
        t0 = time.time()
        first = None
        while time.time() - t0 < 5 and first is None:
            for p in (b, c):
                if _readline(p, 0.02) == 'got':
                    first = p
                    break
        if first is None:
            out.concrete.append({'case': case, 'what': 'the holder was SIGKILLed with two contenders parked in blocking '
                                 'acquires: neither of them obtained the lock within 5 s',
                                 'signature': {'kind': 'stuck-after-kill', 'part': 'queued-survivors'}})
            return
        out.extra['queued_survivor_acquire_s'] = round(time.time() - t0, 4)
        other = c if first is b else b
        if _readline(other, 1.0) == 'got':
            out.concrete.append({'case': case, 'what': 'the holder was SIGKILLed with two contenders parked in blocking '
                                 'acquires: BOTH survivors then held the lock at once (the second acquired while the '
                                 'first had not released)',
                                 'signature': {'kind': 'overlap', 'part': 'queued-survivors'}})
            return
        first.stdin.write('release\n')
        first.stdin.flush()
        if _readline(other, 5.0) != 'got':
            out.concrete.append({'case': case, 'what': 'after the first survivor released, the second survivor did not '
                                 'obtain the lock within 5 s',
                                 'signature': {'kind': 'stuck-after-kill', 'part': 'queued-survivors-second'}})
            return
        other.stdin.write('release\n')
        other.stdin.flush()
        out.traces_validated += 1
        out.fingerprints.add(fingerprint(case))
    finally:
        for p in procs:
            try:
                p.kill()
                p.communicate(timeout=10)
            except Exception:  # noqa
                pass
        F.rmworkdir(work)


SPAWNER = r"""
import sys, os, signal, subprocess
sys.path.insert(0, sys.argv[1])
from aiuti.filelock import FileLock
path, closed, how, pidfile = sys.argv[2], sys.argv[3], sys.argv[4], sys.argv[5]
if closed != '-':
    os.close(int(closed))                   # a daemon-like process without one of its standard streams
how, _, when = how.partition('@')
l = FileLock(path)
if when == 'between':
    # the object has a history: it was used (twice) before, and the child is started while the lock is NOT held
    for _ in range(2):
        l.acquire()
        l.release()
elif when != 'before':
    l.acquire()
if how == 'popen':
    pid = subprocess.Popen(['sleep', '30'], close_fds=False).pid
elif how == 'fork':
    # a worker forked while the lock is held (multiprocessing's default start method on Linux): it never touches
    # the lock, but it shares the holder's open file descriptions
    pid = os.fork()
    if pid == 0:
        import time
        time.sleep(30)
        os._exit(0)
else:
    pid = os.spawnv(os.P_NOWAIT, '/bin/sleep', ['sleep', '30'])
if when in ('between', 'before'):
    l.acquire()                              # ... and is taken (again) afterwards: the holder dies holding it
with open(pidfile, 'w') as f:
    f.write(str(pid))
os.kill(os.getpid(), signal.SIGKILL)
"""


def holder_with_child(out, closed, how):
    """The holder starts a long-lived child process while it holds the lock, then dies: the child must not keep
    the lock alive (the lock's descriptor is not inherited), whatever descriptors the holder had closed."""
    from aiuti.filelock import FileLock
    work = F.mkworkdir()
    case = {'part': 'holder-with-child', 'closed_fd': closed, 'spawn': how}
    mark(case)
    out.evaluations += 1
    child = None
    try:
        path = os.path.join(work, 'c.lock')
        pidfile = os.path.join(work, 'child.pid')
        devnull = subprocess.DEVNULL      # no pipes: the long-lived child would inherit them and keep them open
        p = subprocess.run([sys.executable, '-c', SPAWNER, REPO, path, closed, how, pidfile], stdin=devnull,
                           stdout=devnull, stderr=devnull, timeout=60)
        try:
            with open(pidfile) as f:
                child = int(f.read().strip())
        except (OSError, ValueError):
            child = None
        if p.returncode != -signal.SIGKILL or child is None:
            out.count('holder-with-child:setup-failed')
            return
        t0 = time.time()
        fresh = FileLock(path)
        ok = fresh.acquire(timeout=3.0, poll_interval=0.002)
        if ok:
            fresh.release()
        else:
            out.concrete.append({'case': case, 'what': 'the holder (standard stream %s closed) started a child process '
                                 'with %s (default: while holding the lock; @between: between two uses of the lock object, then took it again; '
                                 '@before: before its first use) and was SIGKILLed while holding it: 3 s later the lock still cannot be '
                                 'acquired - the child keeps it alive' % (closed, how),
                                 'signature': {'kind': 'stuck-after-kill', 'part': 'holder-with-child'}})
        out.extra['worst_acquire_after_kill_s'] = round(max(out.extra.get('worst_acquire_after_kill_s', 0),
                                                            time.time() - t0), 4)
        out.traces_validated += 1
        out.fingerprints.add(fingerprint(case))
        out.count('holder-with-child')
    finally:
        if child is not None:
            try:
                os.kill(child, signal.SIGKILL)
            except OSError:
                pass
        F.rmworkdir(work)


def _chunk_queued(payload):
    logging.disable(logging.CRITICAL)
    out = Outcome()
    for reent in payload[1]:
        queued_survivors(out, reent)
    for closed, how in payload[2] if len(payload) > 2 else []:
        holder_with_child(out, closed, how)
    return out


def _dispatch(payload):
    if payload[0] == 'queued':
        return _chunk_queued(payload)
    return _chunk(payload)


def total_lines(script):
    work = F.mkworkdir()
    try:
        p, _ = child(work, os.path.join(work, 'n.lock'), 0, script, 'count')
        return int(p.stdout.strip())
    finally:
        F.rmworkdir(work)


def run(ctx):
    chunks = []
    scripts = ['nested'] if ctx.quick else SCRIPTS
    if ctx.quick:
        scripts = [SCRIPTS[ctx.seed % 3], 'nested'] if SCRIPTS[ctx.seed % 3] != 'nested' else ['nested', 'plain']
    for script in scripts:
        n = total_lines(script)
        idx = list(range(1, n + 1))
        groups = 8 if ctx.quick else 16
        for ncont in ([0] if ctx.quick else [0, 1, 2]):
            for g in range(groups):
                part = idx[g::groups]
                if part:
                    chunks.append((script, part, ncont, ctx.seed + g))
        if ctx.quick:
            chunks.append((script, idx[::7], 2, ctx.seed))
    chunks += ([('queued', [False], [('0', 'popen'), ('-', 'spawnv'), ('-', 'fork'), ('-', 'fork@between')]),
                ('queued', [True], [('1', 'spawnv'), ('2', 'popen'), ('0', 'fork'), ('-', 'fork@before'), ('-', 'popen@between')])]
               if ctx.quick else
               [('queued', [False, True], [(c, h) for c in ('-', '0', '1', '2') for h in ('popen', 'spawnv', 'fork', 'fork@between', 'fork@before', 'popen@between', 'spawnv@between')])] * 4)
    out = run_chunks(_dispatch, chunks, 8 if ctx.quick else ctx.workers, limit_s=240 if ctx.quick else 1800)
    out.exhaustive = True
    return out


def search(ctx, outcome):
    return Outcome()


def replay(ctx, payload):
    case = payload.get('case') or (payload.get('first_differing_case') or {}).get('case')
    if case.get('part') == 'holder-with-child':
        out = Outcome()
        holder_with_child(out, case['closed_fd'], case['spawn'])
        return {'case': case, 'violations': [c['what'] for c in out.concrete], 'fails': bool(out.concrete)}
    if case.get('part') == 'queued-survivors':
        out = Outcome()
        queued_survivors(out, case['reentrant'])
        return {'case': case, 'violations': [c['what'] for c in out.concrete], 'fails': bool(out.concrete)}
    from aiuti.filelock import FileLock
    work = F.mkworkdir()
    try:
        path = os.path.join(work, 'crash.lock')
        p, labels = child(work, path, case['kill_at'], case['script'], 'replay')
        fresh = FileLock(path)
        ok = fresh.acquire(timeout=3.0, poll_interval=0.002)
        if ok:
            fresh.release()
    finally:
        F.rmworkdir(work)
    return {'case': case, 'child_exit': p.returncode, 'labels': labels, 'fresh_acquired': ok, 'fails': not ok}
