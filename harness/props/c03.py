"""C03 — see DESIGN.md §5 (Buffer component)."""
from . import _buffer

ID = 'C03'
MODULE = _buffer.MODULE
LEAN_SUBDIRS = _buffer.LEAN_SUBDIRS
THEOREMS = ['AiutiVerif.Buffer.C03_exactly_once', 'AiutiVerif.Buffer.C03_conservation', 'AiutiVerif.Buffer.C03_conservation_final',
            'AiutiVerif.Buffer.C03_only_submitted', 'AiutiVerif.Buffer.C03_all_delivered_at_rest',
            'AiutiVerif.Buffer.C03_all_delivered_when_nothing_can_move', 'AiutiVerif.Buffer.C03_failed_call_is_offered_again',
            'AiutiVerif.Buffer.C07_C03_left_alone_everything_completes',
            'AiutiVerif.Buffer.C03_kept_on_failure', 'AiutiVerif.Buffer.C03_delivered_on_success',
            'AiutiVerif.Buffer.addInputs_superset', 'AiutiVerif.Buffer.runProgram_K', 'AiutiVerif.Buffer.K_fresh']
ASSUMPTIONS = list(_buffer.ASSUMPTIONS_COMMON)
RULE = ('timed programs of up to 8 submissions (plain / awaitable / sync iterable / async iterable with producer delays and failures at any position) and wait() calls over a grid of gaps straddling the timeout (including same-instant submissions), any subset of the first 6 function invocations failing, function durations 0 / T/2 / 2T; every program runs on the real BufferAsyncCalls under a virtual clock and on the Lean machine, '
        'the event streams are compared on the components this property mentions, and an independent monitor '
        'judges the real execution; one program in five is drawn from the other buffer flavours; '
        'distinct = distinct (timeout, program, outcomes) with at least two inputs')
run, search, replay = _buffer.make('C03', 'c03', 1600, 60000, shutdown=False)
