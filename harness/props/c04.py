"""C04 — see DESIGN.md §5 (Batcher component)."""
from . import _batcher

ID = 'C04'
MODULE = _batcher.MODULE
LEAN_SUBDIRS = _batcher.LEAN_SUBDIRS
THEOREMS = ['AiutiVerif.Batcher.C04_all_answered_at_rest','AiutiVerif.Batcher.C04_waiters_are_in_flight','AiutiVerif.Batcher.C04_waiters_are_in_flight_prefix','AiutiVerif.Batcher.C04_every_call_is_served','AiutiVerif.Batcher.C04_pump_is_runScript','AiutiVerif.Batcher.C04_outcome','AiutiVerif.Batcher.C04_no_cross_key','AiutiVerif.Batcher.C04_always_answers','AiutiVerif.Batcher.behaviourGo_ends', 'AiutiVerif.Batcher.C04_answer_is_final']
ASSUMPTIONS = list(_batcher.ASSUMPTIONS_COMMON)
RULE = ('timed programs of up to 10 calls, keys from a domain of 1..4 (so keys repeat), gaps straddling batch_timeout, max_batch_size 1..5, max_concurrent_batches 1..3, retention 0 / >0; per key and occurrence the batch function yields a value, yields an Exception, omits the key, yields it twice, yields an unknown key, or raises mid-batch; result order forward / reverse / rotated; per-item and tail delays; every program runs on the real AsyncBackgroundBatcher under a virtual clock and on the Lean '
        'machine, the event streams are compared on the components this property mentions, and an independent '
        'monitor judges the real execution; one program in five is drawn from the other batcher flavours; '
        'distinct = distinct (config, inputs, plan) with at least two calls')
run, search, replay = _batcher.make('C04', 'c04', 1600, 60000)
