"""C12 — FileLock obeys the Lock/RLock contract and leaves no residue on failure."""
import itertools
import logging

from ..core import lean
from ..core.common import Outcome, rng_for, fingerprint
from ..core.par import run_chunks, mark
from ..comp import filelock as F

ID = 'C12'
MODULE = 'AiutiVerif.FileLock.C12All'
LEAN_SUBDIRS = ['AiutiVerif/FileLock', 'AiutiVerif/Core', 'Driver.lean']
THEOREMS = [
    'AiutiVerif.FileLock.C12_refines_contract',
    'AiutiVerif.FileLock.C12_acquire_true_iff_held',
    'AiutiVerif.FileLock.C12_false_leaves_state',
    'AiutiVerif.FileLock.C12_is_locked_iff',
    'AiutiVerif.FileLock.C12_reacquirable',
    'AiutiVerif.FileLock.C12_forced_release_frees',
    'AiutiVerif.FileLock.C12_unheld_release_noop',
    'AiutiVerif.FileLock.C12_no_fd_leak',
    'AiutiVerif.FileLock.C12_time_bounds',
    'AiutiVerif.FileLock.Small.C12_inside_is_locked',
    'AiutiVerif.FileLock.Small.C12_thread_lock_not_left_behind',
    'AiutiVerif.FileLock.Small.C12_unowned_is_pristine',
    'AiutiVerif.FileLock.Small.C12_reacquirable_under_contention',
    'AiutiVerif.FileLock.Small.C12_calls_never_stuck',
    'AiutiVerif.FileLock.Small.C12_nobody_enters_during_a_call',
]
ASSUMPTIONS = [
    'kernel flock contract (per open file description, exclusive, dropped on close) - the real kernel is used '
    'by the correspondence run, so this assumption of the model is validated on every case',
    'threading.Lock / RLock semantics as re-implemented by the harness lock for sequential runs (a contended '
    'acquire cannot succeed while its caller waits)',
    'a close() that reports an error has still closed the descriptor (Linux)',
]
RULE = ('bounded-exhaustive operation sequences over 2 lock objects x 2 threads on one real lock file: '
        'acquire non-blocking / timed 0 / timed 120 ticks / blocking, release, release(force=True), and whole with-blocks '
        '(acquire_ctx non-blocking / timed / blocking and the plain with-statement; a block counts as its acquire plus, only '
        'if entered, a plain release; sequences containing one are enumerated one step shorter); all sequences up to '
        'length 3 (quick) / 4 (thorough) for reentrancy configurations FF, TF, TT, each followed by a full release and '
        'a re-acquire probe by every (object, thread); random sequences up to length 12; every single and double '
        'OSError injection into open / lock / unlock / close at each call index over the sequences up to length 2 '
        '(quick) / 3; each runs on the real FileLock (module-global proxies, virtual time) and on the Lean model and '
        'is judged by an independent contract monitor; plus 1000 (quick) / 24000+ random multi-thread scenarios on the real code under the baton scheduler (every access to the thread lock, the descriptor and flock a scheduling point; monitor: is_locked while inside, re-acquirable after the releases, no residue, no exception); distinct = distinct (config, faults, sequence) of length >= 2')

MODES = ['n', 't0', 't120', 'b']
ALPHABET = ([('a', o, t, m) for o in (0, 1) for t in (0, 1) for m in MODES] +
            [('r', o, t, f) for o in (0, 1) for t in (0, 1) for f in (False, True)])
# whole with-blocks: `with obj.acquire_ctx(blocking=False / timeout / blocking)` and the plain `with obj:`
XMODES = ['n', 't0', 't120', 'b', 'w', 'we']
ALPHABET_X = ALPHABET + [('x', o, t, m) for o in (0, 1) for t in (0, 1) for m in XMODES]
CONFIGS = [(False, False), (True, False), (True, True)]


def closing_ops(reent, ops, results=None):
    """Full release by the holder, then a re-acquire probe by everybody (None if the sequence leaves the
    contract: a thread releasing another thread's lock).  With `results` (of a run with injected faults, `ops`
    then being the expanded list) an acquire counts only if it really returned True."""
    hold = None
    for k, op in enumerate(ops):
        if op[0] == 'a':
            _, o, t, m = op
            ok = hold is None or (hold[0] == o and hold[1] == t and reent[o])
            if results is not None and k < len(results):
                ok = results[k].startswith('T')
            if ok:
                hold = (o, t, (hold[2] + 1) if (hold and hold[0] == o and hold[1] == t) else 1)
        elif op[0] == 'x':
            pass                 # a with-block gives back what it took
        else:
            _, o, t, force = op
            if hold is not None and hold[0] == o:
                if hold[1] != t:
                    return None
                d = 0 if force else hold[2] - 1
                hold = None if d == 0 else (o, t, d)
    tail = []
    if hold is not None:
        tail.append(('r', hold[0], hold[1], True))
    for o in range(len(reent)):
        for t in (0, 1):
            tail += [('a', o, t, 'n'), ('r', o, t, False)]
    return tail


def run_case(case, workdir):
    full = case['ops'] + (case['tail'] or [])
    mark(case)
    res, env, flat = F.run_seq(case['reent'], case['faults'], full, workdir, expand=True, ctor=case.get('ctor'),
                               interrupts=case.get('interrupts', ()))
    return res, env, flat


def check_case(drv_answers, case, out, real):
    reent, faults, ops, tail = case['reent'], case['faults'], case['ops'], case['tail']
    res, env, full = real
    out.evaluations += 1
    model = drv_answers.partition('res=')[2].split(';') if drv_answers.partition('res=')[2] else []
    out.traces_validated += 1
    if case.get('interrupts'):
        # a KeyboardInterrupt in the middle of an acquire is outside the model: judged by the no-residue monitor,
        # for which an interrupted acquire is a failed acquire
        res = ['X' + r[len('EXC-KeyboardInterrupt'):] if r.startswith('EXC-KeyboardInterrupt') else r for r in res]
        msg = fault_monitor(reent, full, res, env)
        if msg:
            out.concrete.append({'case': case, 'what': 'KeyboardInterrupt during acquire: ' + msg, 'observed': res,
                                 'signature': {'kind': 'interrupt-residue'}})
        out.count('interrupted-acquires')
        return env
    if res != model:
        k = next((i for i, (a, b) in enumerate(zip(res, model)) if a != b), min(len(res), len(model)))
        out.diffs.append({'case': case, 'impl': res, 'model': model,
                          'where': f'FileLock sequential: first difference at op {k} ({full[k] if k < len(full) else "?"})'})
    msg = None
    if not faults:
        msg = F.contract(reent, full, res)
        kind = 'contract'
    else:
        msg = fault_monitor(reent, full, res, env)
        kind = 'fault-residue'
    if msg:
        out.concrete.append({'case': case, 'what': msg, 'observed': res, 'signature': {'kind': kind}})
    if len(ops) >= 2:
        out.fingerprints.add(fingerprint(case))
    out.count('len:%d' % len(ops))
    out.count('faults:%d' % len(faults))
    out.count('with-blocks:%d' % sum(1 for o in ops if o[0] == 'x'))
    if case.get('ctor'):
        out.count('constructor-default-timeout')
    for r in res:
        out.count('res:' + r.split('/')[0])
    return env


def fault_monitor(reent, ops, res, env):
    """No residue: an acquire that failed (False or OSError) leaves every is_locked flag and the number of open
    descriptors as they were; at the end (after the closing release) nothing is held and nothing is open;
    and every probe acquire of the tail succeeds."""
    prev_locked = '0' * len(reent)
    prev_open = 0
    for k, (op, r) in enumerate(zip(ops, res)):
        rr, locked, nopen, dt = r.split('/')
        if op[0] == 'a' and rr in ('F', 'X'):
            if locked != prev_locked or int(nopen) != prev_open:
                return (f'op {k} {op}: failed acquire left residue: is_locked {prev_locked}->{locked}, '
                        f'open descriptors {prev_open}->{nopen}')
        prev_locked, prev_open = locked, int(nopen)
    # after the closing release every probe acquire must succeed and nothing may stay behind
    kinds = {env.calls[f] for f in env.faults if f < len(env.calls)}
    ntail = 8
    if len(ops) >= ntail:
        for k in range(len(ops) - ntail, len(ops)):
            rr = res[k].split('/')[0]
            hit = False
            if ops[k][0] == 'a' and rr != 'T':
                # a probe may itself be the target of an injected open/lock fault
                hit = True
            if hit and not (kinds & {'open', 'lock'} and rr in ('F', 'X')):
                return f'after the full release, probe {ops[k]} gave {rr} (faults in: {sorted(kinds)})'
        last = res[-1].split('/')
        if '1' in last[1] or int(last[2]) != 0:
            return f'after everything was released: is_locked {last[1]}, {last[2]} descriptors open (faults in: {sorted(kinds)})'
    return None


def threads_monitor(r):
    if r['notheld']:
        return ('acquire reported success to thread(s) %s but the object says is_locked == False while they are inside'
                % r['notheld'])
    if r['hung']:
        return 'after the releases the lock cannot be acquired again: threads wait for ever at %s' % (r['hung'],)
    if any(r['still_locked']):
        return 'an object still reports is_locked after every thread has released'
    if r['errors']:
        return 'exception out of acquire / release in a contender: %s' % (r['errors'][:2],)
    return None


def _chunk(payload):
    logging.disable(logging.CRITICAL)
    kind, quick, seed, part, nparts = payload
    out = Outcome()
    drv = lean.Driver()
    work = F.mkworkdir()
    try:
        cases = []
        if kind == 'threads':
            # the contract under real contention: several threads on the same objects, every access of the code to
            # its thread lock / descriptor / flock is a scheduling point (baton scheduler, as in C02's check)
            import random
            for i in range(part):
                cseed = ((seed * 1000 + nparts) << 20) + i
                rng = random.Random(cseed)
                scn = F.gen_threads(rng)
                pct = rng.choice([0, 0, 1, 2, 3])
                case = {'scenario': scn, 'seed': cseed, 'pct': pct}
                mark(case)
                out.evaluations += 1
                r = F.run_threads(scn, cseed, work, pct=pct)
                case['schedule'] = r['trace']
                out.fingerprints.add(fingerprint(('threads', scn, r['trace'])))
                out.count('threads-part:threads:%d' % len(scn['scripts']))
                msg = threads_monitor(r)
                if msg:
                    out.concrete.append({'case': case, 'what': msg, 'observed': r['labels'][-30:],
                                         'signature': {'kind': 'contract', 'part': 'threads'}})
            return out
        if kind == 'exhaustive':
            L = 3 if quick else 4
            idx = 0
            for cfg in CONFIGS:
                for n in range(1, L + 1):
                    for seq in itertools.product(ALPHABET, repeat=n):
                        idx += 1
                        if idx % nparts != part:
                            continue
                        ops = list(seq)
                        cases.append({'reent': list(cfg), 'faults': [], 'ops': ops, 'tail': closing_ops(cfg, ops)})
            # with-blocks: every sequence over the extended alphabet that contains one, one step shorter
            for cfg in CONFIGS:
                for n in range(1, L):
                    for seq in itertools.product(ALPHABET_X, repeat=n):
                        if not any(o[0] == 'x' for o in seq):
                            continue
                        idx += 1
                        if idx % nparts != part:
                            continue
                        ops = list(seq)
                        cases.append({'reent': list(cfg), 'faults': [], 'ops': ops, 'tail': closing_ops(cfg, ops)})
        elif kind == 'random':
            rng = rng_for(seed, 'c12', part)
            for _ in range(600 if quick else 20000):
                cfg = rng.choice(CONFIGS)
                n = rng.randint(4, 12)
                ops = []
                alpha = ALPHABET_X if rng.random() < 0.5 else ALPHABET
                for _ in range(n):
                    ops.append(rng.choice(alpha))
                cases.append({'reent': list(cfg), 'faults': [], 'ops': ops, 'tail': closing_ops(cfg, ops)})
            # objects constructed with a default timeout (`FileLock(path, timeout=T)`): their plain acquire() and
            # `with obj:` are timed; every short sequence with a with-block or a blocking acquire, and random ones
            for cfg, ctor in (((False, False), (None, 120)), ((True, False), (120, None)), ((True, True), (0, 120))):
                for n in (1, 2):
                    for seq in itertools.product(ALPHABET_X, repeat=n):
                        if part != 0 or not any(o[0] == 'x' or o[3] == 'b' for o in seq):
                            continue
                        ops = list(seq)
                        cases.append({'reent': list(cfg), 'ctor': list(ctor), 'faults': [], 'ops': ops,
                                      'tail': closing_ops(cfg, ops)})
                for _ in range(100 if quick else 3000):
                    ops = [rng.choice(ALPHABET_X) for _ in range(rng.randint(3, 10))]
                    cases.append({'reent': list(cfg), 'ctor': list(ctor), 'faults': [], 'ops': ops,
                                  'tail': closing_ops(cfg, ops)})
        else:  # faults: every single and double injection over short sequences
            L = 2 if quick else 3
            rng = rng_for(seed, 'c12f', part)
            idx = 0
            base = []
            for cfg in CONFIGS:
                for n in range(1, L + 1):
                    for seq in itertools.product(ALPHABET_X, repeat=n):
                        idx += 1
                        if idx % nparts != part:
                            continue
                        if n == L and rng.random() < (0.8 if quick else 0.9):
                            continue
                        base.append((cfg, list(seq)))
            for cfg, ops in base:
                tail = closing_ops(cfg, ops)
                if tail is None:
                    continue
                full = ops + tail
                res0, env0 = F.run_seq(cfg, (), full, work)
                if any(r.startswith('B') for r in res0):
                    continue       # an operation that would block for ever is not combined with faults
                def tail_for(faults):
                    # what is really held after the faulty run decides who has to release at the end
                    r, _, flat = F.run_seq(cfg, faults, ops, work, expand=True)
                    return closing_ops(cfg, flat, r)
                for i in range(env0.ncall):
                    if env0.calls[i] in ('open', 'lock') and rng.random() < 0.5:
                        # Ctrl-C arriving inside that OS call of an acquire
                        r, _, flat = F.run_seq(cfg, (), ops, work, expand=True, interrupts=(i,))
                        r = ['F' + x[len('EXC-KeyboardInterrupt'):] if x.startswith('EXC-KeyboardInterrupt') else x
                             for x in r]
                        ti = closing_ops(cfg, flat, r)
                        if ti is not None and i < len(F.run_seq(cfg, (), ops, work)[1].calls):
                            cases.append({'reent': list(cfg), 'faults': [], 'interrupts': [i], 'ops': ops, 'tail': ti})
                    t1 = tail_for((i,))
                    if t1 is None:
                        continue
                    cases.append({'reent': list(cfg), 'faults': [i], 'ops': ops, 'tail': t1})
                    if rng.random() < 0.15:
                        _, env1 = F.run_seq(cfg, (i,), ops + t1, work)
                        for j in range(i + 1, env1.ncall):
                            if rng.random() < 0.5:
                                t2 = tail_for((i, j))
                                if t2 is not None:
                                    cases.append({'reent': list(cfg), 'faults': [i, j], 'ops': ops, 'tail': t2})
        B = 4000
        for k in range(0, len(cases), B):
            batch = cases[k:k + B]
            reals = [run_case(c, work) for c in batch]
            answers = drv.ask([F.model_line(c['reent'], c['faults'], r[2]) for c, r in zip(batch, reals)])
            for c, a, r in zip(batch, answers, reals):
                env = check_case(a, c, out, r)
                if c['faults']:
                    for f in c['faults']:
                        if f < len(env.calls):
                            out.count('fault-in:' + env.calls[f])
            if len(out.concrete) + len(out.diffs) > 60:
                break
        if out.samples == [] and cases:
            c = cases[len(cases) // 2]
            out.sample({'case': c})
    finally:
        F.rmworkdir(work)
    return out


def run(ctx):
    n = 4 if ctx.quick else ctx.workers
    chunks = [('exhaustive', ctx.quick, ctx.seed, k, n) for k in range(n)]
    chunks += [('random', ctx.quick, ctx.seed, k, n) for k in range(n)]
    chunks += [('faults', ctx.quick, ctx.seed, k, n) for k in range(n)]
    chunks += [('threads', ctx.quick, ctx.seed, 250 if ctx.quick else 6000, k) for k in range(n)]
    out = run_chunks(_chunk, chunks, n, limit_s=300 if ctx.quick else 3000)
    out.exhaustive = True
    out.extra['exhaustive_part'] = 'all sequences over the 24-operation alphabet up to length %d, 3 reentrancy configs' % (
        3 if ctx.quick else 4)
    return out


def search(ctx, outcome):
    out = Outcome()
    work = F.mkworkdir()
    try:
        for d in outcome.diffs[:40]:
            c = d['case']
            ops = [tuple(o) for o in c['ops']]
            for k in range(1, len(ops) + 1):
                pre = ops[:k]
                tail = closing_ops(c['reent'], pre)
                if tail is None:
                    break
                full = pre + tail
                res, env, full = F.run_seq(c['reent'], c['faults'], full, work, expand=True)
                out.evaluations += 1
                msg = F.contract(c['reent'], full, res) if not c['faults'] else fault_monitor(c['reent'], full, res, env)
                if msg:
                    out.concrete.append({'case': dict(c, ops=pre, tail=tail), 'what': msg, 'observed': res,
                                         'signature': {'kind': 'contract' if not c['faults'] else 'fault-residue'}})
                    return out
    finally:
        F.rmworkdir(work)
    return out


def replay(ctx, payload):
    c = payload.get('case') or (payload.get('first_differing_case') or {}).get('case')
    if 'scenario' in c:
        scn = c['scenario']
        scn = {'reent': scn['reent'], 'scripts': [[tuple(r) for r in s] for s in scn['scripts']]}
        work = F.mkworkdir()
        try:
            r = F.run_threads(scn, c['seed'], work, choices=c.get('schedule'), pct=0)
        finally:
            F.rmworkdir(work)
        msg = threads_monitor(r)
        return {'case': c, 'labels': r['labels'], 'monitor': msg, 'fails': bool(msg)}
    ops = [tuple(o) for o in c['ops']] + [tuple(o) for o in (c.get('tail') or [])]
    work = F.mkworkdir()
    try:
        res, env, ops = F.run_seq(c['reent'], c['faults'], ops, work, expand=True)
    finally:
        F.rmworkdir(work)
    ans = ctx.driver.ask([F.model_line(c['reent'], c['faults'], ops)])[0]
    msg = F.contract(c['reent'], ops, res) if not c['faults'] else fault_monitor(c['reent'], ops, res, env)
    return {'case': c, 'impl': res, 'model': ans, 'monitor': msg, 'fails': bool(msg)}
