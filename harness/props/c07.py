"""C07 — see DESIGN.md §5 (Buffer component)."""
from . import _buffer

ID = 'C07'
MODULE = _buffer.MODULE
LEAN_SUBDIRS = _buffer.LEAN_SUBDIRS
THEOREMS = ['AiutiVerif.Buffer.C07_barrier', 'AiutiVerif.Buffer.C07_barrier_prefix',
            'AiutiVerif.Buffer.C07_blocked_waiter_covered', 'AiutiVerif.Buffer.C07_unfinished_exact',
            'AiutiVerif.Buffer.C07_wait_always_returns', 'AiutiVerif.Buffer.C07_wait_always_returns_prefix',
            'AiutiVerif.Buffer.C07_open_foreign_clear_blocks', 'AiutiVerif.Buffer.atRest_iff',
            'AiutiVerif.Buffer.C07_C03_left_alone_everything_completes', 'AiutiVerif.Buffer.C07_runProgram_is_ticks',
            'AiutiVerif.Buffer.ticks_reach_rest',
            'AiutiVerif.Buffer.C07_shutdown_partial','AiutiVerif.Buffer.C07_counterexample_shutdown_timer_armed','AiutiVerif.Buffer.C07_counterexample_shutdown_function_running','AiutiVerif.Buffer.C07_counterexample_shutdown_loading_captured']
ASSUMPTIONS = list(_buffer.ASSUMPTIONS_COMMON)
RULE = ('timed programs of submissions interleaved with wait(cancel=True/False) at grid instants, with empty / failing / slow producers and failing function invocations, several concurrent waiters; plus asyncio.run-style shutdown at instants spread over each program (idle, loading, timer armed, loading a captured producer, function running); every program runs on the real BufferAsyncCalls under a virtual clock and on the Lean machine, '
        'the event streams are compared on the components this property mentions, and an independent monitor '
        'judges the real execution; one program in five is drawn from the other buffer flavours; '
        'distinct = distinct (timeout, program, outcomes) with at least two inputs')
run, search, replay = _buffer.make('C07', 'c07', 1600, 60000, shutdown=True)
