"""C10 — see DESIGN.md §5 (Batcher component)."""
from . import _batcher

ID = 'C10'
MODULE = _batcher.MODULE
LEAN_SUBDIRS = _batcher.LEAN_SUBDIRS
THEOREMS = ['AiutiVerif.Batcher.C10_batch_sizes', 'AiutiVerif.Batcher.C10_batch_sizes_out',
            'AiutiVerif.Batcher.C10_batch_sizes_prefix', 'AiutiVerif.Batcher.C10_batch_sizes_fixed',
            'AiutiVerif.Batcher.C10_concurrency', 'AiutiVerif.Batcher.C10_fifo', 'AiutiVerif.Batcher.C10_fifo_final',
            'AiutiVerif.Batcher.fire_eq', 'AiutiVerif.Batcher.C11_fresh_adds_work', 'AiutiVerif.Batcher.C10_on_time']
ASSUMPTIONS = list(_batcher.ASSUMPTIONS_COMMON)
RULE = ('arrival sequences of up to 12 calls with distinct keys over a grid straddling batch_timeout (including same-instant calls), max_batch_size 1..5 (also mutated while running), max_concurrent_batches 1..3, batch durations from 0 to several batch_timeouts; every program runs on the real AsyncBackgroundBatcher under a virtual clock and on the Lean '
        'machine, the event streams are compared on the components this property mentions, and an independent '
        'monitor judges the real execution; one program in five is drawn from the other batcher flavours; '
        'distinct = distinct (config, inputs, plan) with at least two calls')
run, search, replay = _batcher.make('C10', 'c10', 1600, 60000)
