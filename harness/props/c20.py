"""C20 — gather_excs reports exactly the failures, in input order, after all finish."""
import asyncio
import itertools

from ..core import lean
from ..core.common import Outcome, rng_for, fingerprint
from ..core.par import run_chunks, mark
from ..core.vtime import vrun, TICK, ticks

ID = 'C20'
MODULE = 'AiutiVerif.Gather.Props'
LEAN_SUBDIRS = ['AiutiVerif/Gather', 'AiutiVerif/Core', 'Driver.lean']
THEOREMS = [
    'AiutiVerif.Gather.C20_all_slots_filled',
    'AiutiVerif.Gather.C20_runs_all',
    'AiutiVerif.Gather.C20_exact_in_input_order',
    'AiutiVerif.Gather.C20_independent_of_timing',
    'AiutiVerif.Gather.C20_raise_first',
    'AiutiVerif.Gather.C20_returned_not_reported',
]
ASSUMPTIONS = [
    'asyncio.gather(*aws, return_exceptions=True) runs every child to completion, cancels nothing and '
    'slots results by input index (modelled in Gather/Model.lean; validated by the completion log)',
    'isinstance(exc, only) = the issubclass table the harness computes for the seven classes used',
]
RULE = ('all lists of 0..N awaitables (N=4 quick, 5 thorough), each returning or raising one of '
        '{Base(Exception), Sub(Base), Other(Exception), BOnly(BaseException), CancelledError} after a delay; delays are '
        'a permutation-inducing assignment (every finishing permutation of every outcome list up to N=3, '
        'random permutations beyond), given as coroutines, tasks or futures, each failing with an exception object of its own or several sharing one object; `only` over the eight classes (a subclass of CancelledError included) and four tuples of classes (the empty tuple included), `aws` as a list or a one-shot generator; '
        'run under a virtual clock; distinct = distinct (outcomes, delays, only, kinds) with >= 2 awaitables')


class Base(Exception):
    pass


class Sub(Base):
    """instances are falsy: an exception is an exception whatever its truth value"""
    def __bool__(self):
        return False


class Other(Exception):
    """falsy through __len__ (an aggregate error with an empty list of sub-errors)"""
    def __len__(self):
        return 0


class BOnly(BaseException):
    pass


class Shutdown(asyncio.CancelledError):
    """an application's own cancellation-like error"""


CLASSES = [BaseException, Exception, Base, Sub, Other, BOnly, asyncio.CancelledError, Shutdown]
RAISABLE = [2, 3, 4, 5, 6, 7]       # class ids an awaitable may raise (6: it ends cancelled, e.g. an awaited task that
                                 # its owner cancelled - for gather(return_exceptions=True) one more failure)
# what `only` may be: one of the classes, or a tuple of classes (isinstance accepts both), the empty tuple included
ONLY = CLASSES + [(Base, BOnly), (Other, asyncio.CancelledError), (Sub, Exception), ()]
NCLS = len(ONLY)
RETURNED = 100                   # outcome code 100 + c: returns (does not raise) an instance of class c
SUBTAB = ';'.join(','.join('1' if issubclass(c, d) else '0' for d in ONLY) for c in CLASSES)


def run_impl(case, which):
    """Returns (yielded [(idx, cls)], completion log, first-yield time, raised-or-None)."""
    from aiuti.asyncio import gather_excs, raise_first_exc
    done = []
    specs = case['aws']
    # `shared`: awaitables failing with the same class fail with the very same exception OBJECT (several of them wait
    # for one shared future, or re-raise one pre-built error): still one failure per failing awaitable
    shared = {} if case.get('shared') else None

    async def child(i, delay, cls):
        try:
            await asyncio.sleep(delay * TICK)
        finally:
            done.append(i)
        if cls is not None and cls >= RETURNED:
            # the awaitable finishes normally; its *result* happens to be an exception object (a worker that hands
            # back the error it dealt with): nothing was raised, nothing is to be reported
            e = CLASSES[cls - RETURNED](i)
            e.idx = i
            return e
        if cls is not None:
            if shared is not None:
                if cls not in shared:
                    shared[cls] = CLASSES[cls](i)
                    shared[cls].idx = -1
                raise shared[cls]
            e = CLASSES[cls](i)
            e.idx = i
            raise e
        return ('value', i)

    async def main():
        loop = asyncio.get_running_loop()
        aws = []
        for i, (d, c, kind) in enumerate(specs):
            co = child(i, d, c)
            if kind == 'task':
                aws.append(loop.create_task(co))
            elif kind == 'future':
                aws.append(asyncio.ensure_future(co))
            else:
                aws.append(co)
        if (len(specs) + case['only']) % 3 == 0:
            aws = (a for a in aws)          # `aws` is any iterable: a one-shot generator will do
        only = ONLY[case['only']]
        if which == 'gather':
            out = []
            first_t = None
            async for e in gather_excs(aws, only):
                if first_t is None:
                    first_t = ticks(loop.time())
                    ndone = len(done)
                out.append((getattr(e, 'idx', -1), CLASSES.index(type(e)) if type(e) in CLASSES else -1))
            return out, (first_t, ndone if first_t is not None else None)
        try:
            r = await raise_first_exc(aws, only)
            res = ('returned', r)
        except BaseException as e:  # noqa
            res = ('raised', getattr(e, 'idx', -1), CLASSES.index(type(e)) if type(e) in CLASSES else -1)
        # let the remaining children finish so the completion log is complete
        await asyncio.sleep((max([d for d, _, _ in specs] + [0]) + 1) * TICK)
        return res, None
    res, info = vrun(main(), horizon=10_000)
    return res, list(done), info


def model_line(case):
    aws = ';'.join(f"{d}:{'-' if c is None else 'r%d' % (c - RETURNED) if c >= RETURNED else c}" for d, c, _ in case['aws'])
    return f"gather only={case['only']} sub={SUBTAB} aws={aws}"


def parse_model(ans):
    d = dict(tok.partition('=')[::2] for tok in ans.split(' '))
    ys = [tuple(map(int, p.split(':'))) for p in d['yield'].split(',')] if d.get('yield') else []
    first = None if d.get('first') == 'none' else tuple(map(int, d['first'].split(':')))
    done = [int(x) for x in d['done'].split(',')] if d.get('done') else []
    return ys, first, done


def spec(case):
    only = ONLY[case['only']]
    return [(i, c) for i, (d, c, _) in enumerate(case['aws'])
            if c is not None and c < RETURNED and issubclass(CLASSES[c], only)]


def norm(l, sh=False):
    """gather() reports a cancelled child with a CancelledError of its own making, so the instance does not carry the
    index the harness attached: entries of that class are compared by class and position only (as are all entries
    when the failing awaitables share their exception objects)."""
    return [((-1 if (sh or c in (6, 7)) else i), c) for i, c in l]


def norm1(t, sh=False):
    return tuple(t[:1]) + tuple(norm([tuple(t[1:])], sh)[0]) if t and t[0] == 'raised' else t


def canon_done(case, done):
    """Completion log with same-instant groups sorted (timer heap order at a tie is not specified)."""
    delays = [d for d, _, _ in case['aws']]
    return sorted(done, key=lambda i: (delays[i], i)) if sorted(done) == list(range(len(delays))) else done


def gen_cases(ctx):
    N = 3 if ctx.quick else 4
    outcomes = [None] + RAISABLE + [RETURNED + 3, RETURNED + 5]
    for n in range(0, N + 1):
        for outs in itertools.product(outcomes, repeat=n):
            for perm in itertools.permutations(range(n)):
                # awaitable perm[k] finishes k-th
                delays = [0] * n
                for k, i in enumerate(perm):
                    delays[i] = 3 * k + 1
                for only in range(NCLS):
                    if n == N and (only + sum(perm[:1])) % 3:
                        continue        # thin the largest size
                    kinds = [('coro', 'task', 'future')[(i + only) % 3] for i in range(n)]
                    yield {'aws': [(delays[i], outs[i], kinds[i]) for i in range(n)], 'only': only}
                    raising = [o for o in outs if o is not None and o < RETURNED]
                    if len(raising) != len(set(raising)) and (only + n) % 2 == 0:
                        yield {'aws': [(delays[i], outs[i], kinds[i]) for i in range(n)], 'only': only, 'shared': True}
    rng = rng_for(ctx.seed, 'c20')
    for _ in range(3000 if ctx.quick else 60000):
        n = rng.randint(2, 5)
        aws = [(rng.choice([0, 1, 2, 3, 5, 8, 13]), rng.choice(outcomes + [None]),
                rng.choice(['coro', 'task', 'future'])) for _ in range(n)]
        yield {'aws': aws, 'only': rng.randrange(NCLS), 'shared': rng.random() < 0.3}


def evaluate(ctx, cases, out):
    answers = ctx.driver.ask([model_line(c) for c in cases])
    for case, ans in zip(cases, answers):
        m_ys, m_first, m_done = parse_model(ans)
        exp = spec(case)
        n = len(case['aws'])
        sh = bool(case.get('shared'))
        for which in ('gather', 'raise_first'):
            out.evaluations += 1
            mark(dict(case, which=which))
            try:
                res, done, info = run_impl(case, which)
            except BaseException as e:  # noqa
                out.concrete.append({'case': case, 'what': f'{which}: {type(e).__name__}: {e}',
                                     'signature': {'kind': 'exception', 'which': which}})
                continue
            msg = None
            if sorted(done) != list(range(n)):
                msg = f'{which}: completion log {done}: not every awaitable ran to completion'
            elif which == 'gather':
                if norm(res, sh) != norm(exp, sh):
                    msg = f'gather_excs yielded {res}, expected {exp}'
                elif info and info[0] is not None and info[1] != n:
                    msg = f'gather_excs yielded after only {info[1]} of {n} awaitables had finished'
            else:
                want = ('raised',) + exp[0] if exp else ('returned', None)
                if norm1(res, sh) != norm1(want, sh):
                    msg = f'raise_first_exc gave {res}, expected {want}'
            if msg:
                out.concrete.append({'case': case, 'what': msg, 'observed': repr(res),
                                     'signature': {'kind': 'monitor', 'which': which}})
            out.traces_validated += 1
            if which == 'gather':
                same = (norm(res, sh) == norm(m_ys, sh) and canon_done(case, done) == m_done)
            else:
                mres = ('raised',) + m_first if m_first else ('returned', None)
                same = (norm1(res, sh) == norm1(mres, sh) and canon_done(case, done) == m_done)
            if not same:
                out.diffs.append({'case': case, 'impl': [repr(res), done], 'model': ans,
                                  'where': f'{which}: yielded list / completion log'})
        if n >= 2:
            out.fingerprints.add(fingerprint(case))
        out.count('n:%d' % n)
        out.count('yielded:%d' % len(exp))
        if len(out.samples) < 3 and n >= 3 and len(exp) >= 2:
            out.sample({'case': case, 'model': ans})


class _Ctx:
    pass


def _chunk(payload):
    quick, seed, part, nparts = payload
    ctx = _Ctx()
    ctx.quick, ctx.seed, ctx.driver = quick, seed, lean.Driver()
    out = Outcome()
    batch = []
    for i, case in enumerate(gen_cases(ctx)):
        if i % nparts != part:
            continue
        batch.append(case)
        if len(batch) >= 1000:
            evaluate(ctx, batch, out)
            batch = []
            if len(out.concrete) + len(out.diffs) > 50:
                break
    if batch:
        evaluate(ctx, batch, out)
    return out


def run(ctx):
    nparts = 4 if ctx.quick else ctx.workers
    return run_chunks(_chunk, [(ctx.quick, ctx.seed, k, nparts) for k in range(nparts)], nparts,
                      limit_s=180 if ctx.quick else 1500)


def search(ctx, outcome):
    return Outcome()     # run() already judges every case with the monitor


def replay(ctx, payload):
    case = payload.get('case') or (payload.get('first_differing_case') or {}).get('case')
    case['aws'] = [tuple(a) for a in case['aws']]
    res, done, info = run_impl(case, 'gather')
    res2, done2, _ = run_impl(case, 'raise_first')
    ans = ctx.driver.ask([model_line(case)])[0]
    exp = spec(case)
    fails = norm(res, bool(case.get('shared'))) != norm(exp, bool(case.get('shared'))) or sorted(done) != list(range(len(case['aws'])))
    return {'case': case, 'gather_excs': res, 'done': done, 'raise_first_exc': res2, 'model': ans,
            'expected': exp, 'fails': fails}
