"""C15 — decorator-with-options forms configure exactly like the direct forms; per-loop batchers."""
import asyncio
import random
import threading

from ..core import lean
from ..core.common import Outcome, fingerprint
from ..core.par import run_chunks, mark
from ..core.vtime import VLoop, TICK
from ..comp import batcher as B
from ..comp import decorators as D

ID = 'C15'
MODULE = 'AiutiVerif.Decorators.Props'
LEAN_SUBDIRS = ['AiutiVerif/Decorators', 'AiutiVerif/Generated', 'AiutiVerif/Batcher', 'AiutiVerif/Core',
                'Driver.lean']
THEOREMS = [
    'AiutiVerif.Decorators.C15_options_forwarded',
    'AiutiVerif.Decorators.C15_documented_options',
    'AiutiVerif.Decorators.C15_per_loop_independent',
    'AiutiVerif.Decorators.C15_step_frame',
]
ASSUMPTIONS = [
    'the translator harness/comp/decorators.py reads the three decorator definitions correctly (it refuses '
    'source it does not understand; its output is committed and regenerated on every run)',
    'functools.partial re-applies keyword arguments; WeakKeyDictionary keyed by loop identity',
] + B.__dict__.get('ASSUMPTIONS', [])
TRUSTED_EXTRA = ['Tie B translator: harness/comp/decorators.py (ast) -> lean/AiutiVerif/Generated/Decorators.lean']
RULE = ('(a) for every option of async_background_batcher alone and jointly at non-default values: the class, the '
        'direct form and the @deco(opts) form run the same random timed programs under a virtual clock and must '
        'all equal the Lean batcher machine instantiated with those values; (b) buffer_until_timeout direct vs '
        '@deco(timeout=T) for T in a grid: call instants; (c) threadsafe_async_cache direct vs @deco(cache=M): the '
        'supplied mapping is the store; (d) a decorated batcher used from 1..3 loops successively and 2..3 at once: '
        'each loop equals a stand-alone machine fed only its own inputs; (e) one configured decorator object applied to two '
        'functions used on one loop equals the two direct forms; (f) loops A, B, A again in one thread: A keeps its batcher; '
        'distinct = distinct (form, options, program)')


def pre_build():
    try:
        D.regenerate()
    except D.TranslateError as e:
        return [f'Tie B: the translator no longer understands aiuti/asyncio.py ({e}); '
                'AiutiVerif/Generated/Decorators.lean cannot be regenerated']
    except SyntaxError as e:
        return [f'Tie B: aiuti/asyncio.py does not parse ({e})']
    return []


# ------------------------------------------------------------------ (a) batcher forms
def option_sets(rng):
    base = dict(maxb=256, maxc=5, bt=64, ret=0)      # bt is always given: the default 0.05 s is not on the tick grid
    sets = [dict(base, maxb=rng.randint(1, 4)), dict(base, maxc=rng.randint(1, 2), maxb=2),
            dict(base, bt=rng.choice([32, 96, 160]), maxb=3), dict(base, ret=rng.choice([96, 640]), maxb=3),
            dict(maxb=rng.randint(1, 5), maxc=rng.randint(1, 3), bt=rng.choice([32, 64, 96]),
                 ret=rng.choice([0, 96, 640])),
            # falsy values are values too: batch_timeout = 0 means "do not wait for stragglers"
            dict(base, bt=0, maxb=rng.randint(1, 3)), dict(base, bt=0, maxb=3, ret=rng.choice([0, 96]))]
    return sets


def kwargs_of(cfg, only=None):
    kw = dict(max_batch_size=cfg['maxb'], max_concurrent_batches=cfg['maxc'],
              batch_timeout=cfg['bt'] * TICK, retention_timeout=cfg['ret'] * TICK)
    return kw


def make_form(form):
    from aiuti.asyncio import AsyncBackgroundBatcher, async_background_batcher

    def mk(bf, cfg):
        kw = kwargs_of(cfg)
        if form == 'class':
            b = AsyncBackgroundBatcher(bf, **kw)
            return b, b
        if form == 'direct':
            return None, async_background_batcher(bf, **kw)
        return None, async_background_batcher(**kw)(bf)
    return mk


def batcher_forms(seed, count, out, drv):
    cases = []
    for i in range(count):
        rng = random.Random((seed << 16) + i)
        fl = rng.choice(['c04', 'c10', 'c11'])
        cfg0, ins, plan = B.gen(rng, fl)
        ins = [x for x in ins if x[0] != 'm']
        cfg = rng.choice(option_sets(rng))
        if fl == 'c10':
            cfg = dict(cfg, ret=0)
        cases.append((cfg, ins, plan))
    answers = drv.ask([B.model_line(*c) for c in cases])
    for (cfg, ins, plan), ans in zip(cases, answers):
        try:
            tie, mev, mpend = B.parse_model(ans)
        except B.ModelOutOfFuel as e:
            out.diffs.append({'case': {'part': 'batcher-forms', 'cfg': cfg, 'ins': ins, 'plan': plan}, 'impl': None,
                              'model': str(e), 'where': 'the batcher machine ran out of fuel on this program'})
            continue
        if tie:
            out.count('ties-not-judged-against-the-model')     # the forms are still compared with each other
        got = {}
        for form in ('class', 'direct', 'deco'):
            case = {'part': 'batcher-forms', 'form': form, 'cfg': cfg, 'ins': ins, 'plan': plan}
            mark(case)
            out.evaluations += 1
            evs = B.run_real(cfg, ins, plan, make_batcher=make_form(form))
            got[form] = B.canon(evs)
            out.traces_validated += 1
            out.fingerprints.add(fingerprint(case))
            out.count('form:' + form)
        for form in ('direct', 'deco'):
            if got[form] != got['class']:
                out.concrete.append({'case': {'part': 'batcher-forms', 'form': form, 'cfg': cfg, 'ins': ins,
                                              'plan': plan},
                                     'what': f'the {form} form with {kwargs_of(cfg)} behaves differently from '
                                             f'AsyncBackgroundBatcher(func, same options)',
                                     'observed': got[form], 'expected': got['class'],
                                     'signature': {'kind': 'form-differs', 'decorator': 'async_background_batcher',
                                                   'form': form}})
        if not tie and got['class'] != B.canon(mev):
            out.diffs.append({'case': {'part': 'batcher-forms', 'cfg': cfg, 'ins': ins, 'plan': plan},
                              'impl': got['class'], 'model': B.canon(mev),
                              'where': 'AsyncBackgroundBatcher vs Lean machine with the same option values'})
        if len(out.samples) < 1:
            out.sample({'cfg': cfg, 'ins': ins, 'events-deco-form': got['deco'][:8]})


# ------------------------------------------------------------------ (b) buffer forms
def buffer_forms(out):
    from aiuti.asyncio import buffer_until_timeout
    for T in (256, 1024, 4096, 96, 0):
        for gaps in ([0, 10, 10], [5], [0, T - 8, T - 8], [1, 1, 1, 1]):
            logs = {}
            for form in ('direct', 'deco'):
                case = {'part': 'buffer-forms', 'form': form, 'timeout_ticks': T, 'gaps': gaps}
                mark(case)
                out.evaluations += 1
                loop = VLoop()
                asyncio.set_event_loop(loop)
                calls = []

                async def func(args, calls=calls, loop=loop):
                    calls.append((round(loop.time() / TICK), sorted(args)))
                if len(gaps) == 4:
                    # the wrapped callable is an object with attributes of its own (its I/O timeout, say): they are
                    # its business, the buffer's `timeout` option is the one given to the decorator
                    class Sender:
                        timeout = None

                        def __init__(self, inner):
                            self.inner = inner
                            self.timeout = 3 * T * TICK + 5
                            self.retries = 2

                        async def __call__(self, args):
                            await self.inner(args)
                    func = Sender(func)
                configured = None
                if form == 'deco' and len(gaps) == 3:
                    # the options are chosen early (at import, in set-up code) while some other loop is the current
                    # one; the function is wrapped later, under the loop that will run it - as in the direct form
                    other = VLoop()
                    asyncio.set_event_loop(other)
                    configured = buffer_until_timeout(timeout=T * TICK)
                    asyncio.set_event_loop(loop)
                try:
                    buf = (buffer_until_timeout(func, timeout=T * TICK) if form == 'direct'
                           else configured(func) if configured is not None
                           else buffer_until_timeout(timeout=T * TICK)(func))

                    async def main(buf=buf):
                        for i, g in enumerate(gaps):
                            await asyncio.sleep(g * TICK)
                            buf(i)
                        await asyncio.sleep((sum(gaps) + 3 * T) * TICK)
                    loop.run_until_complete(main())
                finally:
                    loop.close()
                    if configured is not None:
                        other.close()
                    asyncio.set_event_loop(None)
                logs[form] = calls
                out.fingerprints.add(fingerprint(case))
            exp = [(sum(gaps) + T, list(range(len(gaps))))]
            if T == 0:
                exp = logs['direct']        # timeout 0: only "the options form equals the direct form" is judged
            for form in ('direct', 'deco'):
                if logs[form] != exp:
                    out.concrete.append({'case': {'part': 'buffer-forms', 'form': form, 'timeout_ticks': T,
                                                  'gaps': gaps},
                                         'what': f'buffer_until_timeout {form} form, timeout={T} ticks: function '
                                                 f'calls {logs[form]}, expected {exp}',
                                         'signature': {'kind': 'form-differs', 'decorator': 'buffer_until_timeout',
                                                       'form': form}})
            out.count('buffer-forms')


# ------------------------------------------------------------------ (c) cache forms
class Store(dict):
    pass


def cache_forms(out):
    from aiuti.asyncio import threadsafe_async_cache
    for form in ('direct', 'deco'):
        for script in ([1, 1, 2, 1], [3, 4, 3, 'evict3', 3], [5]):
            case = {'part': 'cache-forms', 'form': form, 'script': script}
            mark(case)
            out.evaluations += 1
            store = Store()
            inv = []

            async def f(x, inv=inv):
                inv.append(x)
                await asyncio.sleep(TICK)
                return ('r', x, len(inv))
            g = threadsafe_async_cache(f, cache=store) if form == 'direct' else threadsafe_async_cache(cache=store)(f)
            loop = VLoop()
            asyncio.set_event_loop(loop)
            res = []

            async def main():
                for op in script:
                    if isinstance(op, str):
                        for k in list(store):
                            if k[0] == (int(op[5:]),):
                                del store[k]
                    else:
                        res.append(await g(op))
            try:
                loop.run_until_complete(main())
            finally:
                loop.close()
                asyncio.set_event_loop(None)
            # expectation: one invocation per key, one more per eviction followed by a call
            exp_inv = []
            have = set()
            for op in script:
                if isinstance(op, str):
                    have.discard(int(op[5:]))
                elif op not in have:
                    have.add(op)
                    exp_inv.append(op)
            keys = sorted(k[0][0] for k in store)
            if inv != exp_inv or keys != sorted(have):
                out.concrete.append({'case': case,
                                     'what': f'threadsafe_async_cache {form} form with cache=M: invocations {inv} '
                                             f'(expected {exp_inv}), keys in M {keys} (expected {sorted(have)})',
                                     'signature': {'kind': 'form-differs', 'decorator': 'threadsafe_async_cache',
                                                   'form': form}})
            out.fingerprints.add(fingerprint(case))
            out.count('cache-forms')


# ------------------------------------------------------------------ (d) loops
def per_loop(seed, count, out, drv):
    from aiuti.asyncio import async_background_batcher
    for i in range(count):
        rng = random.Random((seed << 16) + 7777 + i)
        nloops = rng.randint(1, 3)
        concurrent = nloops >= 2 and rng.random() < 0.5
        cfg = rng.choice(option_sets(rng))
        progs = []
        for _ in range(nloops):
            _, ins, plan = B.gen(rng, rng.choice(['c04', 'c11']))
            progs.append(([x for x in ins if x[0] != 'm'], plan))
        # one decorated function, shared by all loops; each loop owns its batch function's plan through a
        # loop-local table
        table = {}

        async def bf(batch):
            st = table[asyncio.get_running_loop()]
            async for kv in st['bf'](batch):
                yield kv
        deco = async_background_batcher(**kwargs_of(cfg))(bf)
        results = [None] * nloops

        def run_one(idx):
            ins, plan = progs[idx]

            def mk(realbf, cfg_):
                table[asyncio.get_event_loop()] = {'bf': realbf}
                return None, deco
            # run_real creates the loop, then calls mk inside main(): register lazily by loop
            results[idx] = B.canon(B.run_real(cfg, ins, plan, make_batcher=lambda realbf, c: _reg(realbf)))

        def _reg(realbf):
            table[asyncio.get_running_loop()] = {'bf': realbf}
            return None, deco
        case = {'part': 'per-loop', 'cfg': cfg, 'loops': nloops, 'concurrent': concurrent,
                'programs': [p[0] for p in progs]}
        mark(case)
        out.evaluations += 1
        if concurrent:
            ths = [threading.Thread(target=run_one, args=(k,)) for k in range(nloops)]
            for t in ths:
                t.start()
            for t in ths:
                t.join()
        else:
            for k in range(nloops):
                run_one(k)
        answers = drv.ask([B.model_line(cfg, ins, plan) for ins, plan in progs])
        for k, ans in enumerate(answers):
            try:
                tie, mev, _ = B.parse_model(ans)
            except B.ModelOutOfFuel as e:
                out.diffs.append({'case': dict(case, loop=k), 'impl': None, 'model': str(e),
                                  'where': 'the batcher machine ran out of fuel on this program'})
                continue
            if tie:
                continue
            out.traces_validated += 1
            if results[k] != B.canon(mev):
                out.concrete.append({'case': dict(case, loop=k),
                                     'what': f'loop {k} of {nloops} ({"concurrent" if concurrent else "successive"}) '
                                             'using one decorated batcher does not behave like a stand-alone batcher '
                                             'fed only its own calls',
                                     'observed': results[k], 'expected': B.canon(mev),
                                     'signature': {'kind': 'per-loop', 'concurrent': concurrent}})
        out.fingerprints.add(fingerprint(case))
        out.count('per-loop:' + ('concurrent' if concurrent else 'successive') + ':%d' % nloops)


# ------------------------------------------------------------------ (e) one configured decorator, several functions
def shared_decorator(seed, count, out):
    """`deco = async_background_batcher(**opts)` (resp. `buffer_until_timeout(timeout=T)`) applied to TWO functions, both
    used on one loop: each decorated function must behave like the direct form of its own function."""
    from aiuti.asyncio import async_background_batcher, buffer_until_timeout
    for i in range(count):
        rng = random.Random((seed << 16) + 900000 + i)
        cfg = rng.choice(option_sets(rng))
        kw = kwargs_of(cfg)
        t = 0
        prog = []
        for _ in range(rng.randint(2, 8)):
            t += rng.choice([0, 0, 16, 64, 200, 700])
            prog.append((t, rng.randrange(2), rng.randint(0, 4)))
        which = rng.choice(['batcher', 'batcher', 'buffer'])
        T = rng.choice([96, 256])
        got = {}
        for form in ('direct', 'deco'):
            case = {'part': 'shared-decorator', 'decorator': which, 'form': form, 'cfg': cfg, 'prog': prog, 'T': T}
            mark(case)
            out.evaluations += 1
            loop = VLoop()
            asyncio.set_event_loop(loop)
            log = []
            res = {}

            def mkbf(tag, log=log, loop=loop):
                async def bf(batch):
                    batch = list(batch)
                    log.append((tag, round(loop.time() / TICK), sorted(k for k, _ in batch)))
                    for k, a in batch:
                        yield k, (tag, a)
                return bf

            def mkf(tag, log=log, loop=loop):
                async def f(args):
                    log.append((tag, round(loop.time() / TICK), sorted(args)))
                return f
            try:
                if which == 'batcher':
                    if form == 'direct':
                        fs = [async_background_batcher(mkbf('A'), **kw), async_background_batcher(mkbf('B'), **kw)]
                    else:
                        deco = async_background_batcher(**kw)
                        fs = [deco(mkbf('A')), deco(mkbf('B'))]
                else:
                    if form == 'direct':
                        fs = [buffer_until_timeout(mkf('A'), timeout=T * TICK),
                              buffer_until_timeout(mkf('B'), timeout=T * TICK)]
                    else:
                        deco = buffer_until_timeout(timeout=T * TICK)
                        fs = [deco(mkf('A')), deco(mkf('B'))]

                async def caller(j, w, a, fs=fs, res=res):
                    try:
                        res[j] = ('ok', await fs[w](a))
                    except BaseException as e:  # noqa
                        res[j] = ('exc', type(e).__name__)

                async def main(fs=fs, loop=loop):
                    tasks = []
                    for j, (tt, w, a) in enumerate(prog):
                        dt = tt * TICK - loop.time()
                        if dt > 0:
                            await asyncio.sleep(dt)
                        if which == 'batcher':
                            tasks.append(asyncio.create_task(caller(j, w, a)))
                        else:
                            fs[w](a)
                    await asyncio.sleep(6000 * TICK)
                    for tk in tasks:
                        if not tk.done():
                            tk.cancel()
                    await asyncio.sleep(0)
                loop.run_until_complete(main())
            finally:
                loop.close()
                asyncio.set_event_loop(None)
            got[form] = (sorted(res.items()), sorted(log))
            out.traces_validated += 1
            out.fingerprints.add(fingerprint(case))
        if got['deco'] != got['direct']:
            name = 'async_background_batcher' if which == 'batcher' else 'buffer_until_timeout'
            out.concrete.append({'case': {'part': 'shared-decorator', 'decorator': which, 'cfg': cfg, 'prog': prog,
                                          'T': T, 'seed': seed, 'index': i},
                                 'what': f'one configured {name}(...) decorator applied to two functions A and B: calls '
                                         f'(time, function, arg) {prog} give {got["deco"]}, but wrapping A and B directly '
                                         f'with the same options gives {got["direct"]}',
                                 'signature': {'kind': 'form-differs', 'decorator': name, 'form': 'deco-shared'}})
        out.count('shared-decorator:' + which)


# ------------------------------------------------------------------ (f) a loop used again after another loop came by
def interleaved_loops(out):
    """One decorated batcher, loops A and B in one thread: A makes calls and stops (run_until_complete returns, the
    loop is NOT closed), B makes its first call, A is run again.  A keeps ITS batcher: what it remembered
    (retention) is still remembered, what was in flight still arrives, its concurrency limit still counts."""
    from aiuti.asyncio import async_background_batcher
    for ret, inflight, idle in ((640, False, 0), (640, True, 0), (0, True, 0), (640, False, 700), (96, False, 5000)):
        # idle > 0: loop A is not run for that many ticks (longer than the retention window) before it is used again
        case = {'part': 'interleaved-loops', 'ret': ret, 'inflight': inflight, 'idle': idle}
        mark(case)
        out.evaluations += 1
        log = []
        loops = {}

        async def bf(batch):
            batch = list(batch)
            lp = asyncio.get_running_loop()
            log.append((loops[lp], round(lp.time() / TICK), [k for k, _ in batch]))
            await asyncio.sleep(48 * TICK)
            for k, a in batch:
                yield k, (loops[lp], len(log), a)
        f = async_background_batcher(max_batch_size=2, max_concurrent_batches=1, batch_timeout=16 * TICK,
                                     retention_timeout=ret * TICK)(bf)
        A, Bl = VLoop(), VLoop()
        loops[A], loops[Bl] = 'A', 'B'
        res = {}
        try:
            async def a1():
                res['a1'] = await f(1)
                if inflight:
                    # leave a request in flight when the loop stops
                    res['pending'] = asyncio.ensure_future(f(2))
                    await asyncio.sleep(20 * TICK)

            async def b1():
                res['b1'] = await f(1)

            async def a2():
                if inflight:
                    res['a_inflight'] = await asyncio.wait_for(res['pending'], 4000 * TICK)
                res['a2'] = await f(1)          # inside A's retention window if ret > 0
            asyncio.set_event_loop(A)
            A.run_until_complete(a1())
            asyncio.set_event_loop(Bl)
            Bl.run_until_complete(b1())
            asyncio.set_event_loop(A)
            if idle:
                A.block(idle * TICK)
            try:
                A.run_until_complete(a2())
            except BaseException as e:  # noqa
                res['a2-error'] = type(e).__name__
        finally:
            for lp in (A, Bl):
                try:
                    lp.close()
                except BaseException:  # noqa
                    pass
            asyncio.set_event_loop(None)
        bad = []
        nA1 = sum(1 for l in log if l[0] == 'A' and l[2] == ['1'])
        if 'a2-error' in res:
            bad.append(f"the second run of loop A failed with {res['a2-error']}")
        if ret > 0 and not idle and nA1 != 1:
            bad.append(f'key 1 was computed {nA1} times on loop A inside its retention window (batches: {log})')
        if ret > 0 and not idle and res.get('a2') != res.get('a1'):
            bad.append(f"loop A's repeated call got {res.get('a2')}, the remembered outcome is {res.get('a1')}")
        if idle > ret > 0 and (nA1 != 2 or res.get('a2') == res.get('a1')):
            bad.append(f'loop A was idle for {idle} ticks, longer than retention_timeout = {ret} ticks, yet its next call '
                       f'for key 1 got {res.get("a2")} (first call: {res.get("a1")}; computations of key 1 on A: {nA1}): '
                       f'a call after the window must be computed afresh')
        if ret == 0 and nA1 != 2:
            bad.append(f'with retention_timeout=0 key 1 must be computed afresh on loop A: {nA1} computations')
        if inflight and (res.get('a_inflight') or ('?',))[0] != 'A':
            bad.append(f"the request left in flight on loop A was answered with {res.get('a_inflight')}")
        if (res.get('b1') or ('?',))[0] != 'B':
            bad.append(f"loop B's call was answered by {res.get('b1')}")
        for m in bad:
            out.concrete.append({'case': case, 'what': 'one decorated batcher, loops A then B then A again: ' + m,
                                 'signature': {'kind': 'per-loop', 'part': 'interleaved'}})
        out.traces_validated += 1
        out.fingerprints.add(fingerprint(case))
        out.count('interleaved-loops')


def _chunk(payload):
    import logging
    logging.disable(logging.CRITICAL)
    seed, part, n = payload
    out = Outcome()
    drv = lean.Driver()
    if part == 'forms':
        batcher_forms(seed, n, out, drv)
    elif part == 'loops':
        per_loop(seed, n, out, drv)
    elif part == 'shared':
        shared_decorator(seed, n, out)
    else:
        buffer_forms(out)
        cache_forms(out)
        interleaved_loops(out)
    return out


def run(ctx):
    n = 120 if ctx.quick else 3000
    k = 4 if ctx.quick else ctx.workers
    chunks = [(ctx.seed * 100 + j, 'forms', n // k) for j in range(k)]
    chunks += [(ctx.seed * 100 + j, 'loops', max(10, n // (2 * k))) for j in range(k)]
    chunks += [(ctx.seed * 100 + j, 'shared', max(15, n // (2 * k))) for j in range(2)]
    chunks += [(ctx.seed, 'small', 0)]
    out = run_chunks(_chunk, chunks, k, limit_s=120 if ctx.quick else 1200)
    out.notes += D.NOTES
    return out


def search(ctx, outcome):
    # a broken proof obligation (an option no longer forwarded) is behavioural: try every option alone
    out = Outcome()
    drv = lean.Driver()
    import logging
    logging.disable(logging.CRITICAL)
    for seed in range(3):
        batcher_forms(ctx.seed * 100 + 50 + seed, 60, out, drv)
    buffer_forms(out)
    cache_forms(out)
    shared_decorator(ctx.seed * 100 + 50, 60, out)
    out.diffs = []
    return out


def replay(ctx, payload):
    case = payload.get('case') or {}
    out = Outcome()
    part = case.get('part')
    if part == 'batcher-forms':
        cfg, plan = case['cfg'], case['plan']
        ins = [tuple(i) for i in case['ins']]
        got = {f: B.canon(B.run_real(cfg, ins, plan, make_batcher=make_form(f))) for f in ('class', 'direct', 'deco')}
        return {'case': case, 'events': got, 'fails': got['direct'] != got['class'] or got['deco'] != got['class']}
    if part == 'buffer-forms':
        buffer_forms(out)
    elif part == 'cache-forms':
        cache_forms(out)
    elif part == 'shared-decorator':
        shared_decorator(case.get('seed', ctx.seed), case.get('index', 0) + 1, out)
    elif part == 'interleaved-loops':
        interleaved_loops(out)
    else:
        per_loop(ctx.seed, 20, out, ctx.driver)
    return {'case': case, 'violations': [c['what'] for c in out.concrete], 'fails': bool(out.concrete)}
