"""C08 — see DESIGN.md §5 (Buffer component)."""
from . import _buffer

ID = 'C08'
MODULE = _buffer.MODULE
LEAN_SUBDIRS = _buffer.LEAN_SUBDIRS
THEOREMS = ['AiutiVerif.Buffer.C08_quiet_period', 'AiutiVerif.Buffer.C08_quiet_period_prefix',
            'AiutiVerif.Buffer.C08_burst_delivered_together',
            'AiutiVerif.Buffer.C08_serial_nonempty', 'AiutiVerif.Buffer.C08_serial_nonempty_prefix',
            'AiutiVerif.Buffer.C08_never_empty', 'AiutiVerif.Buffer.runProgram_K']
ASSUMPTIONS = list(_buffer.ASSUMPTIONS_COMMON)
RULE = ('arrival-time sequences of immediately available arguments (plain calls, sync iterables) over a grid containing 0, T-16, T, T+16 and multiples, timeouts from {64,256,1024,4096} ticks, function durations shorter and longer than the timeout, function failures, non-cancelling waits; every program runs on the real BufferAsyncCalls under a virtual clock and on the Lean machine, '
        'the event streams are compared on the components this property mentions, and an independent monitor '
        'judges the real execution; one program in five is drawn from the other buffer flavours; '
        'distinct = distinct (timeout, program, outcomes) with at least two inputs')
run, search, replay = _buffer.make('C08', 'c08', 1600, 60000, shutdown=False)
