"""Common body of the three buffer checks (C03, C07, C08)."""
import asyncio
import logging
import random

from ..core import lean
from ..core.common import Outcome, fingerprint
from ..core.par import run_chunks, mark
from ..comp import buffer as B
from ..comp import buffer_threads as BT

MODULE = 'AiutiVerif.Buffer.RunProps'
LEAN_SUBDIRS = ['AiutiVerif/Buffer', 'AiutiVerif/Core', 'Driver.lean']
ASSUMPTIONS_COMMON = [
    'asyncio semantics assumed by Buffer/Model.lean: callbacks are atomic between awaits; call_soon_threadsafe '
    'callbacks run FIFO; Queue.join/task_done counting; wait_for(q.get(), t) leaves an un-taken item in the queue '
    'when it times out or is cancelled and otherwise captures the first item put; asyncio.Event is level-triggered; '
    'gather waits for its slowest child',
    'inputs issued at one instant are those of one task in program order (submissions, then waits); exact ties '
    'between an input and a timer are not judged',
    'foreign submitting threads (1..2, with and without wait_from_anywhere) are explored under the baton scheduler with '
    'a schedule point at every access to the shared completion flag; those executions are judged by the monitors only '
    '(the Lean machine is single-threaded: a foreign flag clear is the extra input `fclear`, which keeps the invariant)',
]
PHASES = {0: 'transient', 1: 'idle', 2: 'loading', 3: 'timer-armed', 4: 'loading-captured', 5: 'function-running'}


def _chunk_eager(args):
    """The same programs on a loop with `asyncio.eager_task_factory` (tasks start inside create_task): the model does
    not describe that scheduling, so these runs are judged by the monitors only."""
    prop, flavor, seed0, count = args
    logging.disable(logging.CRITICAL)
    out = Outcome()
    for i in range(count):
        rng = random.Random((seed0 << 20) + 500000 + i)
        T, prog, outcomes = B.gen(rng, flavor)
        case = {'T': T, 'prog': prog, 'outcomes': outcomes, 'flavor': flavor, 'eager': True}
        mark(case)
        out.evaluations += 1
        try:
            evs = B.run_real(T, prog, outcomes, eager=True)
        except Exception as e:
            out.concrete.append({'case': case, 'what': f'execution failed: {type(e).__name__}: {e}',
                                 'signature': {'kind': 'exception', 'type': type(e).__name__}})
            continue
        for (p, kind, detail) in B.monitors(T, prog, outcomes, evs, {prop}):
            out.concrete.append({'case': case, 'what': f'(eager task factory) {kind}: {detail}', 'observed': B.canon(evs),
                                 'signature': {'kind': kind, 'loop': 'eager'}})
        out.traces_validated += 1
        out.fingerprints.add(fingerprint(case))
        out.count('eager-task-factory:programs')
    return out


def _chunk(args):
    prop, flavor, seed0, count, cross, shutdown = args
    logging.disable(logging.CRITICAL)
    out = Outcome()
    drv = lean.Driver()
    cases = []
    for i in range(count):
        rng = random.Random((seed0 << 20) + i)
        fl = flavor if (not cross or i % 5) else rng.choice(['c03', 'c07', 'c08'])
        cases.append((fl,) + B.gen(rng, fl))
    answers = drv.ask([B.model_line(c[1], c[2], c[3]) for c in cases])
    for (fl, T, prog, outcomes), ans in zip(cases, answers):
        out.evaluations += 1
        case = {'T': T, 'prog': prog, 'outcomes': outcomes, 'flavor': fl}
        mark(case)
        try:
            evs = B.run_real(T, prog, outcomes)
        except Exception as e:
            out.concrete.append({'case': case, 'what': f'execution failed: {type(e).__name__}: {e}',
                                 'signature': {'kind': 'exception', 'type': type(e).__name__}})
            continue
        tie, mev, mpend = B.parse_model(ans)
        if tie:
            out.count('ties-not-judged')
            continue
        # the hypothesis of C07_wait_always_returns / C03_all_delivered_when_nothing_can_move: the model came to rest
        if ' rest=1 ' in ans:
            out.count('model-at-rest')
        else:
            out.count('model-not-at-rest')
            out.diffs.append({'case': case, 'impl': B.canon(evs), 'model': ans[:300],
                              'where': 'the model did not come to rest after the program (AtRest false)'})
        for (p, kind, detail) in B.monitors(T, prog, outcomes, evs, {prop}):
            out.concrete.append({'case': case, 'what': f'{kind}: {detail}', 'observed': B.canon(evs),
                                 'signature': {'kind': kind}})
        out.traces_validated += 1
        rp = sorted(e[1] for e in evs if e[0] == 'wait-pending')
        if B.project(evs, prop) != B.project(mev, prop) or (prop == 'C07' and rp != sorted(mpend)):
            out.diffs.append({'case': case, 'impl': B.canon(evs), 'model': B.canon(mev),
                              'where': f'buffer events projected on {prop}'})
        if len(prog) >= 2:
            out.fingerprints.add(fingerprint(case))
        out.count('flavor:' + fl)
        for st in prog:
            out.count('input:' + (st[2] if st[0] == 's' else 'wait-cancel' if st[3] else 'wait'))
        out.count('calls-failed', sum(1 for e in evs if e[0] == 'end' and not e[2]))
        out.count('calls-ok', sum(1 for e in evs if e[0] == 'end' and e[2]))
        out.count('wait-returns', sum(1 for e in evs if e[0] == 'wait-ret'))
        if len(out.samples) < 2 and len(prog) >= 4:
            out.sample({'case': case, 'impl': B.canon(evs)[:10]})
    if shutdown:
        _shutdown_cases(seed0, max(8, count // 6), out, drv)
    return out


def _shutdown_cases(seed0, count, out, drv):
    """asyncio.run-style shutdown at instants spread over the program (C07)."""
    jobs = []
    for i in range(count):
        rng = random.Random((seed0 << 20) + 900000 + i)
        T, prog, outcomes = B.gen(rng, rng.choice(['c03', 'c07']))
        prog = [st for st in prog if st[0] == 's']
        if not prog:
            continue
        end = prog[-1][1] + 3 * T
        cands = sorted({st[1] + off for st in prog for off in (7, T // 2 + 3, T + 9, 2 * T + 5)} | {3, end})
        for t in rng.sample(cands, min(3, len(cands))):
            jobs.append((T, [st for st in prog if st[1] < t], outcomes, t))
    lines = []
    for (T, prog, outcomes, t) in jobs:
        lines.append(B.model_line(T, prog, outcomes) + (';' if prog else '') + f'x:{t}')
    answers = drv.ask(lines)
    for (T, prog, outcomes, t), ans in zip(jobs, answers):
        d = dict(tok.partition('=')[::2] for tok in ans.split(' '))
        if d.get('tie') == '1':
            continue
        case = {'T': T, 'prog': prog, 'outcomes': outcomes, 'shutdown_at': t}
        mark(case)
        out.evaluations += 1
        evs = B.run_real(T, prog, outcomes, shutdown_at=t)
        real_hang = evs[-1] == ('shutdown', 'hang')
        phase = PHASES.get(int(d.get('phase', '0')), 'transient')
        out.count('shutdown:' + phase + (':hang' if real_hang else ':ok'))
        out.traces_validated += 1
        out.fingerprints.add(fingerprint(case))
        if real_hang:
            out.concrete.append({'case': case,
                                 'what': f'asyncio.run-style shutdown at tick {t} never terminates: the buffer\'s '
                                         f'background task swallows its cancellation (phase: {phase})',
                                 'signature': {'kind': 'shutdown-hang', 'phase': phase}})
        if real_hang != (d.get('ended') != '1'):
            out.diffs.append({'case': case, 'impl': 'hang' if real_hang else 'terminates', 'model': ans,
                              'where': 'does the daemon terminate when cancelled in this phase'})


def _chunk_threads(args):
    """Foreign submitting threads under the baton scheduler: random / PCT schedules, and for the first few
    scenarios every single preemption of the non-preemptive schedule."""
    prop, seed0, count, nsys = args
    logging.disable(logging.CRITICAL)
    out = Outcome()

    def one(scn, case, **kw):
        mark(case)
        out.evaluations += 1
        r = BT.run(scn, case['seed'], **kw)
        case['schedule'] = r['trace']
        for (p, kind, detail) in BT.monitors(scn, r, {prop}):
            out.concrete.append({'case': dict(case), 'what': f'{kind}: {detail}', 'observed': r['calls'],
                                 'signature': {'kind': kind, 'threads': 'foreign'}})
        for e in r['errors']:
            out.concrete.append({'case': dict(case), 'what': f'exception in thread {e[0]}: {e[1]}',
                                 'signature': {'kind': 'exception', 'threads': 'foreign'}})
        out.fingerprints.add(fingerprint((scn, r['trace'])))
        out.traces_validated += 1
        out.count('threads:foreign=%d' % len(scn['foreign']))
        if scn.get('quiet'):
            out.count('threads:constructed-by-foreign-thread+quiet-loop')
        out.count('threads:flag-accesses', len(r['flaglog']))
        out.count('threads:calls', len(r['calls']))
        return r
    for i in range(count):
        rng = random.Random((seed0 << 20) + 900000 + i)
        scn = BT.gen(rng)
        case = {'threads': True, 'scenario': scn, 'seed': (seed0 << 20) + i, 'pct': rng.choice([0, 0, 1, 2])}
        one(scn, case, pct=case['pct'])
        if len(out.concrete) > 20:
            break
    for i in range(nsys):
        rng = random.Random((seed0 << 20) + 950000 + i)
        scn = BT.gen(rng)
        case = {'threads': True, 'scenario': scn, 'seed': 0, 'pct': 0, 'preempt': {}}
        r0 = one(scn, case, preempt={})
        for d, nb in enumerate(r0['branching']):
            for k in range(nb):
                case = {'threads': True, 'scenario': scn, 'seed': 0, 'pct': 0, 'preempt': {str(d): k}}
                one(scn, case, preempt={d: k})
            if len(out.concrete) > 20:
                break
        out.count('threads:systematic-scenarios')
    return out


def _dispatch(args):
    if args[0] == 'threads':
        return _chunk_threads(args[1:])
    if args[0] == 'eager':
        return _chunk_eager(args[1:])
    return _chunk(args)


def make(prop, flavor, quick_n, thorough_n, shutdown=False):
    def run(ctx):
        n = quick_n if ctx.quick else thorough_n
        workers = 4 if ctx.quick else ctx.workers
        per = max(1, n // (workers * 2))
        chunks = [(prop, flavor, ctx.seed * 1000 + k, per, True, shutdown) for k in range(max(1, n // per))]
        if prop in ('C03', 'C07'):
            chunks += [('threads', prop, ctx.seed * 1000 + k, 150 if ctx.quick else 4000, 2 if ctx.quick else 12)
                       for k in range(workers)]
        if hasattr(asyncio, 'eager_task_factory'):
            chunks += [('eager', prop, flavor, ctx.seed * 1000 + k, 100 if ctx.quick else 3000) for k in range(workers)]
        return run_chunks(_dispatch, chunks, workers, limit_s=60 if ctx.quick else 900)

    def search(ctx, outcome):
        chunks = [(prop, flavor, (ctx.seed + 7) * 1000 + 500 + k, 400, False, False) for k in range(8)]
        if prop in ('C03', 'C07'):
            chunks += [('threads', prop, (ctx.seed + 7) * 1000 + 700 + k, 500, 4) for k in range(4)]
        out = run_chunks(_dispatch, chunks, ctx.workers, limit_s=60)
        out.diffs = []
        return out

    def replay(ctx, payload):
        case = payload.get('case') or (payload.get('first_differing_case') or {}).get('case')
        if case.get('threads'):
            scn = case['scenario']
            scn['own'] = [tuple(x) for x in scn['own']]
            for f in scn['foreign']:
                f['subs'] = [tuple(x) for x in f['subs']]
            scn['outcomes'] = [tuple(x) for x in scn['outcomes']]
            r = BT.run(scn, case['seed'], choices=case.get('schedule'))
            bad = BT.monitors(scn, r, {prop})
            return {'case': case, 'calls': r['calls'], 'waits': r['waits'], 'flag': r['flaglog'][-20:],
                    'hung': r['hung'], 'monitor': bad, 'fails': bool(bad)}
        T, outcomes = case['T'], [tuple(o) for o in case['outcomes']]
        prog = [tuple(st[:3]) + ([tuple(x) for x in st[3]],) if st[0] == 's' else tuple(st) for st in case['prog']]
        sd = case.get('shutdown_at')
        if case.get('eager'):
            evs = B.run_real(T, prog, outcomes, eager=True)
            bad = B.monitors(T, prog, outcomes, evs, {prop})
            return {'case': case, 'impl': evs[-12:], 'monitor': bad, 'fails': bool(bad)}
        evs = B.run_real(T, prog, outcomes, shutdown_at=sd)
        line = B.model_line(T, prog, outcomes) + ((';' if prog else '') + f'x:{sd}' if sd is not None else '')
        ans = ctx.driver.ask([line])[0]
        bad = B.monitors(T, prog, outcomes, evs, {prop}) if sd is None else []
        hang = bool(evs) and evs[-1] == ('shutdown', 'hang')
        return {'case': case, 'impl': evs[-12:], 'model': ans, 'monitor': bad, 'fails': bool(bad) or hang}
    return run, search, replay
