"""C19 — parse_to_dict matches its model, splits once, and never evaluates code."""
import ast
import itertools
import sys
import types

from ..core import lean
from ..core.common import Outcome, rng_for, fingerprint
from ..core.par import run_chunks, mark

ID = 'C19'
MODULE = 'AiutiVerif.Parse.Props'
LEAN_SUBDIRS = ['AiutiVerif/Parse', 'AiutiVerif/Core', 'Driver.lean']
THEOREMS = [
    'AiutiVerif.Parse.C19_spec',
    'AiutiVerif.Parse.C19_split_first_sound',
    'AiutiVerif.Parse.C19_split_none',
    'AiutiVerif.Parse.C19_split_first',
    'AiutiVerif.Parse.C19_shapes_agree',
    'AiutiVerif.Parse.C19_no_sep_is_error',
    'AiutiVerif.Parse.C19_malformed_never_dict',
    'AiutiVerif.Parse.C19_nonstrings_untouched',
    'AiutiVerif.Parse.C19_unparsable_retained',
    'AiutiVerif.Parse.C19_keys_untouched_when_disabled',
]
ASSUMPTIONS = [
    'ast.literal_eval constructs literals only (no name lookup, call or attribute access): assumed; '
    'the check asserts the default parser *is* ast.literal_eval and runs tripwire strings',
    'Python dict: insertion order of first occurrence, equal key keeps the old key object, later value wins',
    'the parser oracle handed to the model (string -> value | raises) is computed by the harness by '
    'calling the parser directly, outside parse_to_dict',
]
RULE = ('item lists of length 0..4 over a grammar of literal and non-literal fragments (ints, floats, '
        'quoted strings, tuples, lists, dicts, None/True/False, bare words, calls, attribute access, '
        'operators, text containing the separator, whitespace, empty; number look-alikes that int() / float() / json accept '
        'but Python does not - leading zeros, non-ASCII digits, nan / inf, true / null - and literals they do not - 0x10, 1_000), given as key<sep>value strings, '
        'pairs, mappings, generators, with ill-formed items; separators of length 1..2; parse_keys on/off; '
        'default parser and custom parsers that raise ValueError / RuntimeError / KeyboardInterrupt; '
        'exhaustive over single items and over pairs of items from a reduced grammar, random beyond; '
        'distinct = distinct (items, sep, parse_keys, parser, shape) with at least one item')

FRAGS = ['1', '0', '-3', '1.0', '1.5', "'b'", '"a"', "'1'", '(1, 2)', '[1]', '[]', '{1: 2}', '{}',
         'None', 'True', 'False', 'abc', 'a', 'f(1)', "__import__('verif_tripwire').hit()", 'a.b',
         '1+1', '2**8', ' 1', '1 ', ' ', '', 'x=y', 'k:v', 'a::b', ':', '=', '1j', "b'x'", '...',
         'verif_tripwire', '-1', '+1', '(1)', '(1,)', '1,2', "{'a': [1, (2, None)]}", 'é', '"é"']
# look like numbers / constants to int(), float(), json or a hand-written fast path, but are (or are not) Python literals:
# whatever is not a literal must come back as the string it was
NUMLIKE = ['007', '02134', '00', '0', '7', '١٢', '１２', '٣.٥', 'nan', 'inf', '-inf', 'Infinity', '1e3', '1E-2', '0x10', '0o17',
           '0b11', '1_000', '1__0', '_1', 'true', 'false', 'null', 'none', '1L', '0.', '.5', '5.', '1e', ' 7\n', '\t7', '7 8',
           '1/2', '½', '⅗', '²', '१२', '-07', '+007', '0_7', '1.5.2', '1,5', '०']
SMALL = ['1', '1.0', "'b'", 'abc', '[]', 'f(1)', '', 'True', 'a=b', '1+1', ' 1']
NONSTR = [5, 1, 1.0, True, None, (1, 2), [1], {'a': 1}, 0, frozenset()]
SEPS = ['=', ':', '::', '=>', ' ']

_trip = types.ModuleType('verif_tripwire')
_trip.hits = 0


def _hit():
    _trip.hits += 1
    return 'TRIPPED'


_trip.hit = _hit
sys.modules['verif_tripwire'] = _trip


def make_parser(name, log):
    def wrap(fn):
        def parser(s):
            log.append(s)
            return fn(s)
        return parser
    if name == 'default':
        return None
    if name == 'logged':
        return wrap(ast.literal_eval)
    if name == 'raise_value':
        def f(s):
            raise ValueError(s)
        return wrap(f)
    if name == 'raise_runtime':
        def f(s):
            raise RuntimeError(s)
        return wrap(f)
    if name == 'raise_kbint':
        def f(s):
            if 'a' in s:
                raise KeyboardInterrupt(s)
            return ast.literal_eval(s)
        return wrap(f)
    if name == 'upper':
        return wrap(lambda s: s.upper())
    if name == 'len':
        return wrap(len)
    raise KeyError(name)


def oracle_fn(name):
    if name in ('default', 'logged'):
        return ast.literal_eval
    return make_parser(name, [])


class Registry:
    """Python values -> model values `o:id:cls:h` / `s:<code points>`."""

    def __init__(self):
        self.objs = []      # (key, obj, cls, hashable)

    def enc_str(self, s):
        return '.'.join(str(ord(c)) for c in s) if s else '_'

    def enc(self, v):
        if type(v) is str:
            return 's:' + self.enc_str(v)
        key = (type(v).__name__, repr(v))
        for i, (k, o, cls, h) in enumerate(self.objs):
            if k == key:
                return f'o:{i}:{cls}:{h}'
        try:
            hv = hash(v)
            hashable = 1
        except TypeError:
            hv = None
            hashable = 0
        cls = len(self.objs)
        if hashable:
            for i, (k, o, c, h) in enumerate(self.objs):
                if h and hash(o) == hv and o == v:
                    cls = c
                    break
        self.objs.append((key, v, cls, hashable))
        return f'o:{len(self.objs) - 1}:{cls}:{hashable}'


def build_items(case):
    """The Python argument for parse_to_dict."""
    sep = case['sep']
    items = []
    for it in case['items']:
        if it[0] == 's':
            items.append(it[1])
        elif it[0] == 'kv':
            items.append(it[1] + sep + it[2])
        elif it[0] == 'p':
            items.append((it[1], it[2]))
        elif it[0] == 'pl':
            items.append([it[1], it[2]])
        else:  # bad
            items.append(it[1])
    shape = case['shape']
    if shape == 'list':
        return items
    if shape == 'gen':
        return (x for x in items)
    if shape == 'tuple':
        return tuple(items)
    if shape == 'mapping':
        return dict(items)
    raise KeyError(shape)


def model_items(case, reg):
    sep = case['sep']
    out = []
    cands = []
    its = case['items']
    if case['shape'] == 'mapping':
        its = [('p', k, v) for k, v in dict((it[1], it[2]) for it in its).items()]
    for it in its:
        if it[0] in ('s', 'kv'):
            s = it[1] if it[0] == 's' else it[1] + sep + it[2]
            out.append('s:' + reg.enc_str(s))
            start = 0
            while sep:
                i = s.find(sep, start)
                if i < 0:
                    break
                cands += [s[:i], s[i + len(sep):]]
                start = i + 1
        elif it[0] in ('p', 'pl'):
            out.append('p:' + reg.enc(it[1]) + '~' + reg.enc(it[2]))
            cands += [x for x in (it[1], it[2]) if type(x) is str]
        else:
            b = it[1]
            out.append('b:%d' % (len(b) if hasattr(b, '__len__') else 0))
    return out, cands


def model_line(case):
    reg = Registry()
    items, cands = model_items(case, reg)
    fn = oracle_fn(case['parser'])
    oracle = []
    seen = set()
    for s in cands:
        if s in seen:
            continue
        seen.add(s)
        try:
            v = fn(s)
        except BaseException:
            continue
        oracle.append(reg.enc_str(s) + '>' + reg.enc(v))
    line = (f"parse sep={reg.enc_str(case['sep'])} keys={1 if case['parse_keys'] else 0} "
            f"items={';'.join(items)} oracle={';'.join(oracle)}")
    return line, reg


def run_impl(case):
    from aiuti.parsing import parse_to_dict
    log = []
    parser = make_parser(case['parser'], log)
    kw = {'sep': case['sep'], 'parse_keys': case['parse_keys']}
    if parser is not None:
        kw['parse'] = parser
    before = _trip.hits
    try:
        res = parse_to_dict(build_items(case), **kw)
        out = ('ok', res)
    except ValueError as e:
        out = ('err', 'ValueError')
    except TypeError as e:
        out = ('err', 'TypeError')
    except BaseException as e:
        out = ('err', type(e).__name__)
    return out, log, _trip.hits - before


def canon_impl(out, log, reg, logged):
    if out[0] == 'ok':
        d = ';'.join(reg.enc(k) + '~' + reg.enc(v) for k, v in out[1].items())
        s = 'ok dict=' + d
    else:
        s = 'err kind=' + out[1]
    calls = ','.join(reg.enc_str(x) if type(x) is str else 'nonstr-' + type(x).__name__ for x in log) if logged else None
    return s, calls


def canon_model(ans):
    head, _, calls = ans.partition(' calls=')
    head = head.replace('TypeError-pair', 'TypeError').replace('TypeError-unhashable', 'TypeError')
    return head, calls


def monitor(case, out, trips):
    """Independent spec in Python, straight from the property statement."""
    if trips:
        return 'code was evaluated: the tripwire was hit'
    sep = case['sep']
    fn = oracle_fn(case['parser'])

    def lit(x):
        if type(x) is str:
            try:
                return fn(x)
            except BaseException:
                return x
        return x
    its = case['items']
    if case['shape'] == 'mapping':
        its = [('p', k, v) for k, v in dict((it[1], it[2]) for it in its).items()]
    exp = {}
    err = None
    for it in its:
        if it[0] in ('s', 'kv'):
            s = it[1] if it[0] == 's' else it[1] + sep + it[2]
            i = s.find(sep) if sep else -1
            if i < 0:
                err = 'ValueError'
                break
            k, v = s[:i], s[i + len(sep):]
        elif it[0] in ('p', 'pl'):
            k, v = it[1], it[2]
        else:
            err = 'TypeError'
            break
        k = lit(k) if case['parse_keys'] else k
        v = lit(v)
        try:
            exp[k] = v
        except TypeError:
            err = 'TypeError'
            break
    if err:
        if out != ('err', err):
            return f'expected {err}, got {out!r}'
        return None
    if out[0] != 'ok':
        return f'expected a dict, got {out!r}'
    got = out[1]
    same = (list(map(repr, got.items())) == list(map(repr, exp.items()))
            and [type(v) for v in got.values()] == [type(v) for v in exp.values()])
    if not same:
        return f'expected {exp!r}, got {got!r}'
    return None


def mk_case(items, sep, pk, parser, shape):
    return {'items': items, 'sep': sep, 'parse_keys': pk, 'parser': parser, 'shape': shape}


def gen_cases(ctx):
    # exhaustive: single kv item over the full grammar, all seps, both parse_keys
    for sep in SEPS:
        for pk in (True, False):
            for k in FRAGS:
                for v in FRAGS[:24]:
                    yield mk_case([('kv', k, v)], sep, pk, 'logged', 'list')
                yield mk_case([('p', k, k)], sep, pk, 'default', 'list')
                yield mk_case([('s', k)], sep, pk, 'default', 'tuple')
    # exhaustive: number look-alikes as keys and values under the default parser (and the logged one), alone and next
    # to the literal they could be mistaken for (key merging)
    for sep in ('=', '::'):
        for pk in (True, False):
            for a in NUMLIKE:
                yield mk_case([('kv', a, a)], sep, pk, 'default', 'list')
                yield mk_case([('p', a, a)], sep, pk, 'logged', 'tuple')
                yield mk_case([('kv', a, '1'), ('kv', '7', a), ('kv', '12', 'x')], sep, pk, 'default', 'gen')
    # exhaustive: two items from the reduced grammar (duplicate / equal keys, order)
    for sep in ('=', '::'):
        for pk in (True, False):
            for k1, k2 in itertools.product(SMALL, repeat=2):
                for v1, v2 in (('1', "'b'"), ('abc', '[]')):
                    yield mk_case([('kv', k1, v1), ('kv', k2, v2)], sep, pk, 'logged', 'gen')
                    yield mk_case([('p', k1, v1), ('kv', k2, v2)], sep, pk, 'default', 'list')
    # shapes agree: the same pairs as strings / pairs / mapping
    rng = rng_for(ctx.seed, 'c19')
    n = 6000 if ctx.quick else 150000
    for _ in range(n):
        sep = rng.choice(SEPS)
        pk = rng.random() < 0.6
        parser = rng.choice(['default', 'logged', 'logged', 'raise_value', 'raise_runtime',
                             'raise_kbint', 'upper', 'len'])
        cnt = rng.randint(0, 4)
        items = []
        for _ in range(cnt):
            r = rng.random()
            k = rng.choice(FRAGS if rng.random() < 0.7 else SMALL if rng.random() < 0.6 else NUMLIKE)
            v = rng.choice(FRAGS if rng.random() < 0.85 else NUMLIKE)
            if r < 0.45:
                items.append(('kv', k, v))
            elif r < 0.7:
                items.append(('p', k, v))
            elif r < 0.8:
                items.append(('p', k, rng.choice(NONSTR)))
            elif r < 0.85:
                items.append(('p', rng.choice(NONSTR), v))
            elif r < 0.9:
                items.append(('pl', k, v))
            elif r < 0.95:
                items.append(('s', rng.choice(FRAGS)))
            else:
                items.append(('bad', rng.choice([(1,), (1, 2, 3), (), ['a'], 7])))
        shape = rng.choice(['list', 'gen', 'tuple'])
        if items and all(it[0] == 'p' for it in items) and rng.random() < 0.6:
            try:
                dict((it[1], it[2]) for it in items)
                shape = 'mapping'
            except TypeError:
                pass
        yield mk_case(items, sep, pk, parser, shape)


def evaluate(ctx, cases, out):
    prepared = [model_line(c) for c in cases]
    answers = ctx.driver.ask([p[0] for p in prepared])
    for case, (line, reg), ans in zip(cases, prepared, answers):
        out.evaluations += 1
        mark(case)
        res, log, trips = run_impl(case)
        msg = monitor(case, res, trips)
        if msg:
            out.concrete.append({'case': case, 'what': msg, 'observed': repr(res),
                                 'signature': {'kind': 'monitor', 'parser': case['parser']}})
        logged = case['parser'] != 'default'
        i_head, i_calls = canon_impl(res, log, reg, logged)
        if res[0] == 'ok' and case['parser'] == 'default':
            # what a call returns is the caller's: two literals of one result are two objects, and the caller may go on
            # to change them - no later call may see that (the result is a function of the input alone)
            given = {id(x) for it in case['items'] for x in it[1:]} | \
                    {id(y) for it in case['items'] for x in it[1:] if type(x) in (tuple, list) for y in x}
            muts = [v for v in res[1].values() if type(v) in (list, dict, set) and id(v) not in given]
            if len({id(v) for v in muts}) != len(muts) and not msg:
                out.concrete.append({'case': case, 'what': 'two values of one result are the same mutable object',
                                     'observed': repr(res), 'signature': {'kind': 'aliased-result'}})
            for v in muts:
                if type(v) is list:
                    v.append('changed-by-the-caller')
                elif type(v) is dict:
                    v['changed-by-the-caller'] = 1
                else:
                    v.add('changed-by-the-caller')
        m_head, m_calls = canon_model(ans)
        out.traces_validated += 1
        if i_head != m_head or (logged and i_calls != m_calls):
            out.diffs.append({'case': case, 'impl': [i_head, i_calls], 'model': [m_head, m_calls],
                              'where': 'parse_to_dict result / parser call log', 'line': line})
        if case['items']:
            out.fingerprints.add(fingerprint(case))
        out.count('result:' + (res[0] if res[0] == 'ok' else res[1]))
        out.count('parser:' + case['parser'])
        out.count('shape:' + case['shape'])
        out.count('items:%d' % len(case['items']))
        if len(out.samples) < 3 and len(case['items']) >= 2 and res[0] == 'ok':
            out.sample({'case': case, 'impl': i_head, 'model': ans})


class _Ctx:
    pass


def _chunk(payload):
    quick, seed, part, nparts = payload
    from aiuti.parsing import parse_to_dict
    ctx = _Ctx()
    ctx.quick, ctx.seed, ctx.driver = quick, seed, lean.Driver()
    out = Outcome()
    if part == 0 and parse_to_dict.__kwdefaults__.get('parse') is not ast.literal_eval:
        out.diffs.append({'case': None, 'where': 'the default parser is not ast.literal_eval '
                          '(the model instantiates the default with the literal_eval oracle)',
                          'impl': repr(parse_to_dict.__kwdefaults__.get('parse')), 'model': 'ast.literal_eval'})
    batch = []
    for i, case in enumerate(gen_cases(ctx)):
        if i % nparts != part:
            continue
        batch.append(case)
        if len(batch) >= 2000:
            evaluate(ctx, batch, out)
            batch = []
            if len(out.concrete) + len(out.diffs) > 50:
                break
    if batch:
        evaluate(ctx, batch, out)
    out.extra['tripwire_hits'] = _trip.hits
    return out


def run(ctx):
    nparts = 4 if ctx.quick else ctx.workers
    return run_chunks(_chunk, [(ctx.quick, ctx.seed, k, nparts) for k in range(nparts)], nparts,
                      limit_s=180 if ctx.quick else 1500)


def search(ctx, outcome):
    out = Outcome()
    for d in outcome.diffs[:50]:
        case = d.get('case')
        if not case:
            # default parser replaced: try every fragment as a value under the monitor
            for v in FRAGS:
                c = mk_case([('p', 'k', v)], '=', True, 'default', 'list')
                res, log, trips = run_impl(c)
                out.evaluations += 1
                msg = monitor(c, res, trips)
                if msg:
                    out.concrete.append({'case': c, 'what': msg, 'observed': repr(res),
                                         'signature': {'kind': 'monitor', 'parser': 'default'}})
                    return out
            continue
        for k in range(len(case['items']), 0, -1):
            for sub in itertools.combinations(case['items'], k):
                c = dict(case, items=list(sub))
                res, log, trips = run_impl(c)
                out.evaluations += 1
                msg = monitor(c, res, trips)
                if msg:
                    out.concrete.append({'case': c, 'what': msg, 'observed': repr(res),
                                         'signature': {'kind': 'monitor', 'parser': c['parser']}})
                    return out
    return out


def replay(ctx, payload):
    case = payload.get('case') or (payload.get('first_differing_case') or {}).get('case')
    case['items'] = [tuple(i) if isinstance(i, list) else i for i in case['items']]
    res, log, trips = run_impl(case)
    line, reg = model_line(case)
    ans = ctx.driver.ask([line])[0]
    msg = monitor(case, res, trips)
    again = None
    if not msg and res[0] == 'ok' and case['parser'] == 'default':
        # the caller changes what it got, then asks again: the second answer is judged like the first
        for v in res[1].values():
            if type(v) is list:
                v.append('changed-by-the-caller')
            elif type(v) is dict:
                v['changed-by-the-caller'] = 1
            elif type(v) is set:
                v.add('changed-by-the-caller')
        res2, _, trips2 = run_impl(case)
        again = repr(res2)
        msg = monitor(case, res2, trips2)
        if msg:
            msg = 'second call with the same input, after the caller changed the first result: ' + msg
    return {'case': case, 'impl': repr(res), 'impl_second_call': again, 'calls': log, 'model': ans, 'monitor': msg,
            'fails': bool(msg)}
