"""C17 — cross-loop awaiting is transparent, runs on the target loop, and completes."""
import asyncio
import sys
import concurrent.futures
import logging
import random
import threading
import time
import types

from ..core import lean, attach
from ..core.baton import Sched, BLoop, Hang
from ..core.common import Outcome, fingerprint
from ..core.par import run_chunks, mark

ID = 'C17'
MODULE = 'AiutiVerif.CrossLoop.Progress'
LEAN_SUBDIRS = ['AiutiVerif/CrossLoop', 'AiutiVerif/Core', 'Driver.lean']
THEOREMS = [
    'AiutiVerif.CrossLoop.C17_one_runner',
    'AiutiVerif.CrossLoop.C17_lock_unique',
    'AiutiVerif.CrossLoop.C17_on_target',
    'AiutiVerif.CrossLoop.C17_transparent',
    'AiutiVerif.CrossLoop.C17_closed_raises',
    'AiutiVerif.CrossLoop.C17_stopped_before_return',
    'AiutiVerif.CrossLoop.C17_completes_partial',
    'AiutiVerif.CrossLoop.C17_counterexample_borrowed_loop_stops',
    'AiutiVerif.CrossLoop.C17_helpers_never_stuck',
    'AiutiVerif.CrossLoop.C17_helper_moves_forward',
    'AiutiVerif.CrossLoop.C17_awaitable_moves_forward',
    'AiutiVerif.CrossLoop.C17_borrow_returns',
    'AiutiVerif.CrossLoop.C17_helper_steps_bounded',
    'AiutiVerif.CrossLoop.C17_no_lock_left_behind',
    'AiutiVerif.CrossLoop.inv_step',
]
ASSUMPTIONS = [
    'threading.Lock is mutually exclusive; dict get/set are atomic (GIL); run_coroutine_threadsafe schedules the '
    'awaitable on the target loop, which makes progress only while some thread runs it',
    '_CROSS_LOOP_POOL, the loop locks, the lock table and time.sleep are replaced by cooperative versions with '
    'schedule points (same contracts)',
    'one target loop per scenario',
]
RULE = ('2..3 caller threads, each with its own loop, call ensure_aw(aw, T) on one target loop T that is idle, running '
        'via loop_in_thread, the caller\'s own loop, or closed; awaitables return (tuples, None, exception objects, carrier-shaped tuples) / raise / sleep for durations from a '
        'grid, given as coroutines or tasks; real threads and loops under the baton scheduler with schedule points at '
        'is_running / is_closed reads, the lock table, the creation lock, the loop lock, run_coroutine_threadsafe, the '
        'pool, the spin in loop_in_thread; the label trace is replayed on the Lean model; monitor: result / exception '
        'identity, loop identity inside the awaitable, never two threads running T, handshake of loop_in_thread, every '
        'call completes (hang detector); distinct = distinct (scenario, schedule)')


_LOCK_TYPES = (type(threading.Lock()),)


def make_exc(c, which):
    """The error object a raising awaitable raises (the caller must receive this very object)."""
    import concurrent.futures as cf
    if which == 1:
        return cf.CancelledError(f'a cancelled pool job asked for its result in awaitable {c}')
    if which == 2:
        e = TimeoutError(f'awaitable {c} timed out')
        e.__cause__ = asyncio.CancelledError()          # as asyncio.wait_for raises it
        return e
    if which == 3:
        return cf.InvalidStateError(f'awaitable {c}')
    return Boom(c)


def make_val(c, which):
    """The object a returning awaitable returns (the caller must receive this very object, whatever it is)."""
    if which == 1:
        return Boom(c)                      # an exception *object* as a value: a worker handing back the error it met
    if which == 2:
        return None
    if which == 3:
        return (ValueError(f'collected by awaitable {c}'), None)    # shaped like an (error, result) carrier
    if which == 4:
        return asyncio.CancelledError(f'returned, not raised, by awaitable {c}')
    return ('value', c)


class Boom(Exception):
    def __len__(self):          # falsy when its code is even: `if exc:` and concurrent.futures' result() overlook it
        return int(self.args[0]) % 2 if self.args and isinstance(self.args[0], int) else 1


class Env:
    def __init__(self, S):
        self.S = S
        self.labels = []
        self.workers = []
        self.create_holder = None
        self.running_threads = 0
        self.max_running = 0
        self.spawn_purpose = None      # set right before a submit: ('borrow', c) or ('forever',)
        self.errors = []

    def tid(self):
        n = threading.current_thread().name
        if n.startswith('W'):
            return 10 + int(n[1:])
        if n.startswith('C'):
            return int(n[1:])
        return 99


ENV = None


class CoopFuture(concurrent.futures.Future):
    E = None

    def result(self, timeout=None):
        E = self.E or ENV
        if threading.current_thread().name in E.S.threads:
            E.S.point('future.result', enabled=self.done)
        return super().result(timeout)


class CoopPool:
    def __init__(self, E=None):
        self.E = E

    def submit(self, fn, *args):
        E = self.E or ENV
        fut = CoopFuture()
        fut.E = E
        idx = len(E.workers) + 1
        name = 'W%d' % idx
        E.workers.append(name)
        me = threading.current_thread().name
        if me.startswith('C'):
            E.labels.append(f'sb:{int(me[1:])}:{10 + idx}')
        else:
            E.labels.append(f'sf:{10 + idx}')

        def run():
            if not fut.set_running_or_notify_cancel():
                return
            try:
                r = fn(*args)
            except BaseException as e:  # noqa
                fut.set_exception(e)
            else:
                fut.set_result(r)
        E.S.spawn(name, run)
        return fut


class CoopLock:
    """threading.Lock with schedule points; `kind` decides the labels."""

    def __init__(self, kind='loop', E=None):
        self.kind = kind
        self.owner = None
        self.E = E

    def __enter__(self):
        E = self.E or ENV
        E.S.point(self.kind + '.acquire', enabled=lambda: self.owner is None)
        self.owner = threading.current_thread().name
        t = E.tid()
        if self.kind == 'create':
            E.create_holder = self.owner
            E.labels.append(f'ca:{t}')
        else:
            E.labels.append(f'la:{t}')
        return self

    def __exit__(self, *a):
        E = self.E or ENV
        E.S.point(self.kind + '.release')
        t = E.tid()
        self.owner = None
        if self.kind == 'create':
            E.create_holder = None
            E.labels.append(f'cr:{t}')
        else:
            E.labels.append(f'lr:{t}')


class CoopEvent:
    """threading.Event with schedule points (for hand-shakes a rewrite of the helpers might use)."""

    def __init__(self, E=None):
        self.flag = False
        self.E = E

    def set(self):
        (self.E or ENV).S.point('event.set')
        self.flag = True
        (self.E or ENV).S.point('event.set.done')      # whoever waits may run before the setter's next statement

    def clear(self):
        self.flag = False

    def is_set(self):
        return self.flag

    def wait(self, timeout=None):
        S = (self.E or ENV).S
        S.point('event.wait', enabled=lambda: self.flag, deadline=None if timeout is None else S.vt + timeout)
        return self.flag


class LockTable(dict):
    E = None

    _peeked = None

    def __getitem__(self, k):
        E = self.E or ENV
        if self._peeked == (threading.current_thread().name, k):
            self._peeked = None          # `if key in table: return table[key]`: one look-up, already logged
            return dict.__getitem__(self, k)
        E.S.point('locktable.get')
        t = E.tid()
        second = E.create_holder == threading.current_thread().name
        try:
            v = dict.__getitem__(self, k)
        except KeyError:
            E.labels.append(f'{"g2" if second else "g1"}:{t}:0')
            raise
        E.labels.append(f'{"g2" if second else "g1"}:{t}:1')
        return v


    def get(self, k, default=None):
        try:
            return self[k]
        except KeyError:
            return default

    def __contains__(self, k):
        try:
            self[k]
        except KeyError:
            return False
        self._peeked = (threading.current_thread().name, k)
        return True


class Target(BLoop):
    """The target loop: reads of its state by callers are schedule points; entering / leaving run_forever is
    logged; a second thread entering is what asyncio reports as 'already running'."""

    def is_running(self):
        E = getattr(self, 'E', None) or ENV
        me = threading.current_thread().name
        if (me.startswith('C') and E.S.threads.get(me) and getattr(E, 'dispatching', {}).get(me)
                and sys._getframe(1).f_globals.get('__name__') == 'aiuti.asyncio'):
            E.S.point('T.is_running')
            b = super().is_running()
            E.labels.append(f'rr:{int(me[1:])}:{1 if b else 0}')
            return b
        if me == 'M':
            E.S.point('T.is_running(spin)')
        return super().is_running()

    def is_closed(self):
        E = getattr(self, 'E', None) or ENV
        me = threading.current_thread().name
        b = super().is_closed()
        if (me.startswith('C') and getattr(E, 'dispatching', {}).get(me)
                and sys._getframe(1).f_globals.get('__name__') == 'aiuti.asyncio'):
            E.S.point('T.is_closed')
            b = super().is_closed()
            E.labels.append(f'rc:{int(me[1:])}:{1 if b else 0}')
        return b

    def run_forever(self):
        E = getattr(self, 'E', None) or ENV
        t = E.tid()
        E.running_threads += 1
        E.max_running = max(E.max_running, E.running_threads)
        E.labels.append(f'rs:{t}')
        try:
            return super().run_forever()
        finally:
            E.running_threads -= 1
            E.labels.append(f're:{t}')


def gen_case(rng):
    mode = rng.choice(['idle', 'idle', 'forever', 'forever', 'own', 'closed'])
    ncall = rng.randint(2, 3) if mode in ('idle', 'forever') else 1 if mode == 'own' else rng.randint(1, 2)
    aws = []
    for c in range(ncall):
        aws.append({'dur': rng.choice([0, 0, 1, 3, 8]), 'raise': rng.random() < 0.3,
                    'kind': (rng.choice(['coro', 'coro', 'task']) if mode == 'idle' else
                             # a future of the target that was already resolved when the target was closed
                             rng.choice(['coro', 'donefut']) if mode == 'closed' else 'coro'),
                    'start': rng.choice([0, 0, 1, 2]),
                    # which error a raising awaitable raises: the library's bridges (executor future, thread-safe
                    # future, wrap_future) carry some classes over as a different class or as a copy
                    'exc': rng.choice([0, 0, 1, 2, 3]),
                    # what a returning awaitable returns: any object is a value, an exception instance included
                    'val': rng.choice([0, 0, 0, 1, 2, 3, 4])})
    # the stop function of loop_in_thread called by two threads at once: each call returns only once the loop stopped
    return {'mode': mode, 'aws': aws, 'stop2': mode == 'forever' and rng.random() < 0.5}


def run_case(case, seed, pct=0, choices=None):
    global ENV
    import aiuti.asyncio as A
    S = Sched(seed, choices=choices, pct_depth=pct, max_steps=8000)
    E = Env(S)
    E.dispatching = {}
    ENV = E
    # whatever the module uses from threading / time / asyncio for its hand-shakes is replaced by cooperative versions,
    # found by identity (however the module spells its imports); its module-level pool, lock table and table lock are
    # found by what they are
    real_rcts = asyncio.run_coroutine_threadsafe

    def rcts(coro, loop):
        me = threading.current_thread().name
        S.point('run_coroutine_threadsafe')
        if me.startswith('C'):
            E.labels.append(f'sch:{int(me[1:])}')
        return real_rcts(coro, loop)

    # `sleep(0)` is a yield: the thread runs again only when nobody else can (a strict-priority schedule would
    # otherwise let the spin-wait of loop_in_thread starve the very thread it waits for)
    def coop_sleep(d):
        return (S.point('spin.sleep', yield_=True) if not d else
                S.point('spin.sleep', enabled=lambda: False, deadline=S.vt + d))
    inst = {}
    pools = [k for k, v in vars(A).items() if isinstance(v, concurrent.futures.ThreadPoolExecutor)]
    tables = [k for k, v in vars(A).items() if type(v) is dict and not k.startswith('__') and 'lock' in k.lower()]
    tlocks = [k for k, v in vars(A).items() if isinstance(v, _LOCK_TYPES)]
    if len(pools) != 1 or len(tables) != 1 or len(tlocks) != 1:
        raise attach.AttachError(f'aiuti.asyncio: expected one module-level thread pool, one per-loop lock table and one '
                                 f'lock guarding it; found {pools}, {tables}, {tlocks}')
    inst[pools[0]] = CoopPool(E)
    inst[tables[0]] = LockTable()
    inst[tables[0]].E = E
    inst[tlocks[0]] = CoopLock('create', E)
    saved = {k: getattr(A, k) for k in inst}
    for k, v in inst.items():
        setattr(A, k, v)
    attach.substitute(A, [(threading.Lock, lambda: CoopLock('loop', E)), (threading.Event, lambda: CoopEvent(E)),
                          (time.sleep, coop_sleep), (real_rcts, rcts)],
                      (threading, time, asyncio))
    T = Target(S)
    T.E = E
    mode = case['mode']
    res = {}
    info = {}
    predone = {}

    def make_aw(c, spec):
        async def work():
            info[c] = {'loop_ok': asyncio.get_running_loop() is T}
            if spec['dur']:
                await asyncio.sleep(spec['dur'])
            E.labels.append(f'aw:{c}')
            if spec['raise']:
                raise info[c].setdefault('exc', make_exc(c, spec.get('exc', 0)))
            return info[c].setdefault('val', make_val(c, spec.get('val', 0)))
        if spec['kind'] == 'task':
            E.labels.append(f'pre:{c}')
            return T.create_task(work())
        if spec['kind'] == 'donefut':
            return predone[c]
        return work()

    def caller(c, spec):
        def body():
            loop = T if mode == 'own' and c == 0 else BLoop(S)
            asyncio.set_event_loop(loop)

            async def main():
                if spec['start']:
                    await asyncio.sleep(spec['start'])
                aw = make_aw(c, spec)
                E.labels.append(f'call:{c}')
                E.dispatching[f'C{c}'] = True
                try:
                    r = await A.ensure_aw(aw, T)
                    res[c] = ('ok', r)
                except Boom as e:
                    res[c] = ('boom', e)
                except RuntimeError as e:
                    res[c] = ('runtime', str(e))
                    if hasattr(aw, 'close'):
                        aw.close()
                except Hang:
                    raise                   # this run was aborted by the scheduler: keep unwinding
                except (Exception, asyncio.CancelledError) as e:
                    res[c] = ('boom', e) if e is info.get(c, {}).get('exc') else ('other', e)
                finally:
                    E.dispatching[f'C{c}'] = False
                if res[c][0] in ('ok', 'boom', 'other'):
                    E.labels.append(f'ret:{c}')
            try:
                if loop is T:
                    # the caller's own loop is the target: run it here (one runner: this thread)
                    loop.run_until_complete(main())
                else:
                    loop.run_until_complete(main())
            finally:
                if loop is not T:
                    loop.close()
        return body

    def manager():
        stop = None
        if mode == 'forever':
            stop = A.loop_in_thread(T)
            res['lit_running_on_return'] = BLoop.is_running(T)
        if mode == 'closed':
            for c, spec in enumerate(case['aws']):
                if spec['kind'] == 'donefut':
                    f = T.create_future()
                    if spec['raise']:
                        f.set_exception(Boom(c))
                    else:
                        f.set_result(('value', c))
                    predone[c] = f
            T.close()
            E.labels.append('close')
        for c, spec in enumerate(case['aws']):
            S.spawn(f'C{c}', caller(c, spec))
        S.point('manager.wait', enabled=lambda: all(not S.threads[f'C{c}']['alive'] for c in range(len(case['aws']))))
        if stop is not None:
            if case.get('stop2'):
                def second():
                    stop()
                    res['lit_running_after_stop2'] = BLoop.is_running(T)
                S.spawn('M2', second)
            E.labels.append('stop')
            stop()
            res['lit_running_after_stop'] = BLoop.is_running(T)
    try:
        S.spawn('M', manager)
        S.run(wall_timeout=20)
    finally:
        attach.restore(A)
        for k, v in saved.items():
            setattr(A, k, v)
    # 'own' mode: labels of the own-loop caller are not part of the model (inline branch)
    out = dict(labels=E.labels, res=res, info=info, hung=S.hung, errors=S.errors, trace=S.trace,
               max_running=E.max_running)
    try:
        if not T.is_closed() and not BLoop.is_running(T):
            T.close()
    except Exception:  # noqa
        pass
    return out


def judge(case, r):
    """Returns list of (kind, message, signature-extra)."""
    bad = []
    mode = case['mode']
    if r['max_running'] > 1:
        bad.append(('two-runners', f'{r["max_running"]} threads were inside run_forever of the target loop at once', {}))
    for e in r['errors']:
        if 'already running' in e[1]:
            bad.append(('two-runners', f'asyncio refused a second runner: {e}', {}))
        else:
            bad.append(('exception', f'unexpected exception in {e[0]}: {e[1]}', {}))
    for c, spec in enumerate(case['aws']):
        got = r['res'].get(c)
        inf = r['info'].get(c, {})
        if mode == 'closed':
            if got is None or got[0] != 'runtime':
                bad.append(('closed-target', f'caller {c}: closed target gave {got!r}, expected RuntimeError', {}))
            continue
        if got is None:
            continue        # did not complete: judged as a hang below
        if spec['raise']:
            if got[0] != 'boom' or got[1] is not inf.get('exc'):
                bad.append(('transparency', f'caller {c} got {got!r}, the awaitable raised {inf.get("exc")!r}', {}))
        else:
            if got[0] != 'ok' or got[1] is not inf.get('val'):
                bad.append(('transparency', f'caller {c} got {got!r}, the awaitable returned {inf.get("val")!r}', {}))
        if not inf.get('loop_ok', False):
            bad.append(('wrong-loop', f'caller {c}: the awaitable was not evaluated on the target loop', {}))
    if mode == 'forever':
        if r['res'].get('lit_running_on_return') is False:
            bad.append(('handshake', 'loop_in_thread returned before the loop was running', {}))
        if r['res'].get('lit_running_after_stop') is True:
            bad.append(('handshake', 'the stop function returned while the loop was still running', {}))
        if r['res'].get('lit_running_after_stop2') is True:
            bad.append(('handshake', 'the stop function, called by a second thread while the first call was in '
                                     'progress, returned while the loop was still running', {}))
    if r['hung']:
        pending = [c for c in range(len(case['aws'])) if c not in r['res']]
        proxied = [c for c in pending if f'sch:{c}' in r['labels']]
        borrowed = any(l.startswith('sb:') for l in r['labels'])
        if mode == 'idle' and pending and pending == proxied and borrowed:
            bad.append(('hang', f'callers {pending} proxied their awaitables onto a loop borrowed with '
                                'run_until_complete by another caller; the loop stopped and they never complete',
                        {'branch': 'threadsafe-proxy', 'target': 'borrowed-by-run_until_complete'}))
        else:
            bad.append(('hang', f'callers {pending} never completed: {r["hung"]}', {'branch': 'other', 'mode': mode}))
    return bad


def _chunk(payload):
    logging.disable(logging.CRITICAL)
    seed0, count = payload
    out = Outcome()
    drv = lean.Driver()
    runs = []
    for i in range(count):
        rng = random.Random((seed0 << 20) + i)
        case = gen_case(rng)
        case['seed'] = (seed0 << 20) + i
        case['pct'] = rng.choice([0, 0, 1, 2])
        mark(case)
        out.evaluations += 1
        r = run_case(case, case['seed'], pct=case['pct'])
        case['schedule'] = r['trace']
        for kind, msg, extra in judge(case, r):
            sig = {'kind': kind}
            sig.update(extra)
            out.concrete.append({'case': case, 'what': msg, 'observed': r['labels'][-25:], 'signature': sig})
        out.fingerprints.add(fingerprint((case['mode'], case['aws'], r['trace'])))
        out.count('mode:' + case['mode'])
        out.count('hung' if r['hung'] else 'completed')
        for l in r['labels']:
            out.count('label:' + l.split(':')[0])
        if case['mode'] in ('idle', 'forever', 'closed'):
            runs.append((case, r))
        if len(out.samples) < 1 and len(r['labels']) > 15:
            out.sample({'case': {k: v for k, v in case.items() if k != 'schedule'}, 'labels': r['labels']})
    answers = drv.ask(['xloop labels=' + ';'.join(r['labels']) for c, r in runs])
    for (case, r), a in zip(runs, answers):
        out.traces_validated += 1
        if a != 'ok':
            k = int(a.split()[1]) if a.startswith('reject') and a.split()[1].isdigit() else -1
            out.diffs.append({'case': case, 'impl': r['labels'][max(0, k - 10):k + 2], 'model': a,
                              'where': f'label {k} ({r["labels"][k] if 0 <= k < len(r["labels"]) else "?"}) of the '
                                       'recorded trace is not a step of the cross-loop model'})
    return out


def run(ctx):
    n = 1600 if ctx.quick else 80000
    k = 4 if ctx.quick else ctx.workers
    per = n // (2 * k)
    return run_chunks(_chunk, [(ctx.seed * 1000 + j, per) for j in range(2 * k)], k, limit_s=120 if ctx.quick else 1800)


def search(ctx, outcome):
    out = run_chunks(_chunk, [((ctx.seed + 3) * 1000 + 300 + j, 400) for j in range(8)], ctx.workers, limit_s=120)
    out.diffs = []
    return out


def replay(ctx, payload):
    case = payload.get('case') or (payload.get('first_differing_case') or {}).get('case')
    r = run_case(case, case['seed'], choices=case.get('schedule'))
    bad = judge(case, r)
    a = ctx.driver.ask(['xloop labels=' + ';'.join(r['labels'])])[0]
    return {'case': case, 'results': {k: repr(v) for k, v in r['res'].items()}, 'hung': r['hung'],
            'labels': r['labels'], 'model': a, 'monitor': [b[:2] for b in bad], 'fails': bool(bad)}
