"""C16 — sync/async iterator bridges preserve the sequence and propagate errors."""
import asyncio
import concurrent
import concurrent.futures
import logging
import random
import threading
import types
import queue as _real_queue

from ..core import lean, attach
from ..core.baton import Sched, BLoop, Hang
from ..core.common import Outcome, fingerprint
from ..core.par import run_chunks, mark

ID = 'C16'
MODULE = 'AiutiVerif.Bridge.Props'
LEAN_SUBDIRS = ['AiutiVerif/Bridge', 'AiutiVerif/Core', 'Driver.lean']
THEOREMS = [
    'AiutiVerif.Bridge.C16_sequence',
    'AiutiVerif.Bridge.C16_complete',
    'AiutiVerif.Bridge.C16_sentinel_always',
    'AiutiVerif.Bridge.C16_no_thread_left',
    'AiutiVerif.Bridge.C16_never_stuck',
    'AiutiVerif.Bridge.inv_step', 'AiutiVerif.Bridge.Close.C16_close_prefix', 'AiutiVerif.Bridge.Close.C16_at_most_one_put_after_close', 'AiutiVerif.Bridge.Close.C16_close_never_blocks', 'AiutiVerif.Bridge.Close.C16_helper_never_stuck', 'AiutiVerif.Bridge.Close.C16_helper_progress', 'AiutiVerif.Bridge.Close.inv_step']
ASSUMPTIONS = [
    'the hand-off channel is FIFO: loop.call_soon_threadsafe callbacks run in order and asyncio.Queue / queue.Queue '
    'preserve order (assumed by the model; the real objects are used in the runs)',
    'ThreadPoolExecutor(1) is replaced by a cooperative executor whose worker is a scheduler-controlled thread; '
    'leaving its `with` block joins the worker, as the real one does',
    '"does not block the event loop" is measured (a ticker task must keep ticking in virtual time while the source '
    'blocks), not proved',
]
RULE = ('sources of length 0..6 (generator, blocking iterator object that is not a generator, list iterator, list, range; async generator for to_sync_iter) with a failure at '
        'every position or none, elements including None / 0 / "" / False / [] / duplicates, producer step durations '
        'from a grid (producer faster, slower, finished before the first read); real threads under the baton scheduler '
        '(schedule points at every source step, channel put, queue get, future wait, pool join); each execution\'s '
        'label trace is replayed on the Lean model; monitor: received sequence, terminal exception identity, no helper '
        'thread alive, loop responsiveness; distinct = distinct (bridge, source, schedule)')

TABLE = [None, 0, '', False, [], 0.0, 1, 'x', (), 2]


def bridged_exc(kind):
    """Errors of the kind a source really fails with, which asyncio's future chaining does not carry over as they are."""
    if kind == 1:
        e = TimeoutError('read timed out')
        e.__cause__ = OSError('socket')
        return e
    if kind == 2:
        return concurrent.futures.CancelledError('a cancelled job asked for its result')
    if kind == 4:
        return Abort('giving up')
    return concurrent.futures.InvalidStateError('source')


class Abort(BaseException):
    """A failure that is not an Exception (a library's own abort signal; like KeyboardInterrupt, GeneratorExit):
    `except Exception` does not see it, `finally` does."""


class QuietBoom(Exception):
    """An exception whose truth value is false (it has a length): `if exc:` and concurrent.futures' `result()` take
    it for "no exception"."""

    def __len__(self):
        return 0


class Boom(Exception):
    pass


class Env:
    def __init__(self, S):
        self.S = S
        self.labels = []
        self.workers = []


ENV = None


class CoopFuture(concurrent.futures.Future):
    def result(self, timeout=None):
        if threading.current_thread().name in ENV.S.threads:
            ENV.S.point('future.result', enabled=self.done)
        return super().result(timeout)


class CoopExecutor:
    def __init__(self, max_workers=1):
        self.mine = []

    def __enter__(self):
        return self

    def __exit__(self, *a):
        self.shutdown(wait=True)

    def submit(self, fn, *args):
        E = ENV
        fut = CoopFuture()
        name = 'W%d' % (len(E.workers) + 1)
        E.workers.append(name)
        self.mine.append(name)

        def run():
            if not fut.set_running_or_notify_cancel():
                return
            try:
                r = fn(*args)
            except BaseException as e:  # noqa
                fut.set_exception(e)
            else:
                fut.set_result(r)
            E.S.point('worker.exit')
            E.labels.append('we')
        E.S.spawn(name, run)
        return fut

    def shutdown(self, wait=True):
        E = ENV
        if getattr(E, 'closing', False):
            # the consumer is leaving early: no schedule point lies between the library's `stopped = True` and this
            # call, so this is the instant of the model's `close`
            E.closing = False
            E.labels.append('cl')
        if wait and threading.current_thread().name in E.S.threads:
            E.S.point('pool.join', enabled=lambda: all(not E.S.threads[w]['alive'] for w in self.mine))


_MISSING = object()


class CoopQueue:
    """queue.Queue / queue.SimpleQueue for to_sync_iter (unbounded; the operations a hand-off channel needs)."""

    def __init__(self, maxsize=0):
        self.items = []

    def put_nowait(self, x):
        E = ENV
        import aiuti.asyncio as A
        E.S.point('queue.put')
        self.items.append(x)
        E.labels.append('pd' if type(x) is object else 'p:%d' % ident(x))

    def put(self, x, block=True, timeout=None):
        self.put_nowait(x)

    def get(self, block=True, timeout=None):
        E = ENV
        if not block:
            return self.get_nowait()
        E.S.point('queue.get', enabled=lambda: bool(self.items),
                  deadline=None if timeout is None else E.S.vt + timeout)
        if not self.items:
            raise _real_queue.Empty
        return self.items.pop(0)

    def get_nowait(self):
        ENV.S.point('queue.get_nowait')
        if not self.items:
            raise _real_queue.Empty
        return self.items.pop(0)

    def empty(self):
        return not self.items

    def qsize(self):
        return len(self.items)

    def task_done(self):
        pass


class QueueProxy(types.ModuleType):
    """Stands in for the `queue` module inside aiuti.asyncio: its FIFO classes are the cooperative one, everything
    else (Empty, Full, ...) is the real thing."""
    Queue = CoopQueue
    SimpleQueue = CoopQueue

    def __getattr__(self, n):
        return getattr(_real_queue, n)


def ident(x):
    for i, v in enumerate(TABLE):
        if type(v) is type(x) and v == x:
            return i
    return 99


class BridgeLoop(BLoop):
    def call_soon_threadsafe(self, cb, *args, **kw):
        E = ENV
        import aiuti.asyncio as A
        if threading.current_thread().name.startswith('W') and args and (
                getattr(cb, '__name__', '') in ('put_nowait', 'put')
                or isinstance(getattr(cb, '__self__', None), asyncio.Queue)):
            E.S.point('call_soon_threadsafe')
            E.labels.append('pd' if type(args[0]) is object else 'p:%d' % ident(args[0]))
        return super().call_soon_threadsafe(cb, *args, **kw)


class AioProxy(types.ModuleType):
    def __getattr__(self, n):
        return getattr(asyncio, n)

    @staticmethod
    def new_event_loop():
        return BridgeLoop(ENV.S)


def gen_case(rng):
    n = rng.randint(0, 6)
    ids = [rng.randrange(len(TABLE)) for _ in range(n)]
    fail = rng.choice([None, None] + list(range(n + 1)))
    kind = rng.choice(['async:gen', 'async:gen', 'async:objiter', 'async:iter', 'async:list', 'async:range', 'async:reiter',
                       'sync:agen', 'sync:agen'])
    if kind in ('async:list', 'async:range', 'async:iter'):
        fail = None
    if kind == 'async:range':
        ids = list(range(n))
    delays = [rng.choice([0, 0, 1, 3]) for _ in range(n + 1)]
    if kind == 'async:reiter':
        # an iterable that is not an iterator (so it takes the inline fast path) and may fail part-way
        delays = [0] * (n + 1)
    cons_delay = rng.choice([0, 0, 2])
    case = {'kind': kind, 'ids': ids, 'fail': fail, 'delays': delays, 'cons_delay': cons_delay}
    if fail is not None and rng.random() < 0.3:
        case['falsy'] = True        # the source fails with an exception whose truth value is false
    elif fail is not None and rng.random() < 0.3:
        # ... or with one of the classes that futures bridging threads and loops replace by copies / other classes
        case['exckind'] = rng.choice([1, 2, 3, 4, 4])
    if kind in ('async:gen', 'async:objiter') and n >= 2 and fail is None and rng.random() < 0.3:
        # the consumer stops early: it takes k elements and closes the async iterator while the source still has
        # (blocking) steps to go
        case['stop_after'] = rng.randint(1, n - 1)
    if not kind.startswith('async') and rng.random() < 0.4:
        # the rarely used `loop=` argument: the caller's own (idle) loop drives the source, and is used for a
        # second round afterwards - it is the caller's to close, not the bridge's
        case['own_loop'] = True
    return case


def run_case(case, seed, pct=0, choices=None):
    """Returns dict(labels, got, end, hung, errors, workers_alive, ticks, vt, trace)."""
    global ENV
    import aiuti.asyncio as A
    S = Sched(seed, choices=choices, pct_depth=pct, max_steps=6000)
    E = Env(S)
    ENV = E
    # the module's thread pool class, hand-off queue classes and loop factory are replaced by the cooperative versions,
    # found by identity (however the module spells its imports)
    attach.substitute(A, [(concurrent.futures.ThreadPoolExecutor, CoopExecutor), (_real_queue.Queue, CoopQueue),
                          (_real_queue.SimpleQueue, CoopQueue), (asyncio.new_event_loop, AioProxy.new_event_loop)],
                      (concurrent, concurrent.futures, _real_queue, asyncio))
    ids, fail, delays = case['ids'], case['fail'], case['delays']
    boom = (QuietBoom if case.get('falsy') else Boom)('source failed') if not case.get('exckind') else bridged_exc(case['exckind'])
    res = {'got': [], 'end': 'missing', 'ticks': 0}

    def pause(d):
        if d:
            S.point('src.sleep', enabled=lambda: False, deadline=S.vt + d)

    def src():
        for i, e in enumerate(ids):
            if fail == i:
                E.labels.append('sf')
                raise boom
            S.point('src.step')
            pause(delays[i])
            E.labels.append('sy:%d' % (ident(TABLE[e]) if case['kind'] != 'async:range' else e))
            yield TABLE[e] if case['kind'] != 'async:range' else e
        if fail == len(ids):
            E.labels.append('sf')
            raise boom
        E.labels.append('se')

    async def asrc():
        for i, e in enumerate(ids):
            if fail == i:
                E.labels.append('sf')
                raise boom
            await asyncio.sleep(delays[i])
            yield TABLE[e]
        if fail == len(ids):
            E.labels.append('sf')
            raise boom
        E.labels.append('se')

    def finish(exc):
        res['end'] = None if exc is None else ('same' if exc is boom else repr(exc))
        E.labels.append('gd')
        E.labels.append('j:%d' % (0 if exc is None else 1))

    try:
        if case['kind'].startswith('async'):
            def body():
                loop = BridgeLoop(S)
                asyncio.set_event_loop(loop)

                async def main():
                    async def ticker():
                        while True:
                            await asyncio.sleep(1)
                            res['ticks'] += 1
                    t = loop.create_task(ticker())
                    k = case['kind']
                    class ReIter:
                        def __iter__(self):
                            return src()
                    class ObjIter:
                        # an iterator that is not a generator (a file-like object, map(...), iter(callable, sentinel)):
                        # its steps block just the same
                        def __init__(self):
                            self.g = src()
                        def __iter__(self):
                            return self
                        def __next__(self):
                            return next(self.g)
                    source = (src() if k == 'async:gen' else ObjIter() if k == 'async:objiter' else iter([TABLE[e] for e in ids]) if k == 'async:iter'
                              else [TABLE[e] for e in ids] if k == 'async:list' else ReIter() if k == 'async:reiter'
                              else range(len(ids)))
                    if case.get('stop_after'):
                        agen = A.to_async_iter(source)
                        for _ in range(case['stop_after']):
                            x = await agen.__anext__()
                            res['got'].append(x)
                            E.labels.append('g:%d' % ident(x))
                        t0, k0 = S.vt, res['ticks']
                        E.closing = True
                        await agen.aclose()
                        res['close_took'] = S.vt - t0
                        res['end'] = 'closed-early'
                        # the application goes on for a while (a loop that is closed at once would make the helper
                        # thread's last hand-offs fail: a different story)
                        for _ in range(60):
                            if not any(S.threads[w]['alive'] for w in E.workers):
                                break
                            await asyncio.sleep(1)
                        t.cancel()
                        return
                    try:
                        async for x in A.to_async_iter(source):
                            res['got'].append(x)
                            E.labels.append('g:%d' % (ident(x) if k != 'async:range' else x))
                            if case['cons_delay']:
                                await asyncio.sleep(case['cons_delay'])
                        finish(None)
                    except Hang:
                        raise
                    except (Exception, asyncio.CancelledError, Abort) as e:
                        finish(e)
                    t.cancel()
                try:
                    loop.run_until_complete(main())
                finally:
                    loop.close()
            S.spawn('L', body)
        else:
            def body():
                own = BridgeLoop(S) if case.get('own_loop') else None
                kw = {'loop': own} if own is not None else {}
                try:
                    for x in A.to_sync_iter(asrc(), **kw):
                        res['got'].append(x)
                        E.labels.append('g:%d' % ident(x))
                        pause(case['cons_delay'])
                    finish(None)
                except Hang:
                    raise
                except (Exception, asyncio.CancelledError, Abort) as e:
                    finish(e)
                if own is not None:
                    # second round on the same loop (monitor only: the label trace describes the first round)
                    first_labels, E.labels = E.labels, []
                    res['closed_after_1'] = own.is_closed()

                    async def again():
                        for e in ids:
                            yield TABLE[e]
                    res['got2'], res['end2'] = [], 'missing'
                    try:
                        for x in A.to_sync_iter(again(), loop=own):
                            res['got2'].append(x)
                        res['end2'] = None
                    except BaseException as e:  # noqa
                        res['end2'] = repr(e)
                    E.labels = first_labels
                    if not own.is_closed():
                        own.close()
            S.spawn('C', body)
        S.run(wall_timeout=20)
    finally:
        attach.restore(A)
    res.update(labels=E.labels, hung=S.hung, errors=S.errors, trace=S.trace, vt=S.vt,
               workers_alive=[w for w in E.workers if S.threads[w]['alive']], nworkers=len(E.workers))
    return res


def expected(case):
    ids = case['ids'] if case['fail'] is None else case['ids'][:case['fail']]
    if case['kind'] == 'async:range':
        return list(ids)
    return [TABLE[e] for e in ids]


def judge(case, r):
    if case.get('stop_after'):
        exp = expected(case)[:case['stop_after']]
        if r['hung']:
            return 'hang', f'the bridge never finished: {r["hung"]}'
        if r['got'] != exp:
            return 'sequence', f'consumer received {r["got"]!r} before closing early, the source starts with {exp!r}'
        if r.get('close_took', 0) >= 1:
            return 'blocked-loop', (f'closing the async iterator after {case["stop_after"]} element(s) blocked the event '
                                    f'loop for {r["close_took"]} virtual seconds while the source was still blocked '
                                    f'in its remaining steps {case["delays"][case["stop_after"]:]}')
        if r['workers_alive']:
            return 'thread-left', (f'helper thread(s) {r["workers_alive"]} still running at the end of the run, long after '
                                   f'the consumer closed the iterator')
        return None, None
    exp = expected(case)
    same = len(r['got']) == len(exp) and all(type(a) is type(b) and a == b for a, b in zip(r['got'], exp))
    if r['hung']:
        return 'hang', f'the bridge never finished: {r["hung"]}'
    if r['errors']:
        return 'exception', f'unexpected exception: {r["errors"][:2]}'
    if not same:
        return 'sequence', f'consumer received {r["got"]!r}, the source yields {exp!r} before its failure point'
    want_end = None if case['fail'] is None else 'same'
    if r['end'] != want_end:
        return 'terminal', f'iteration ended with {r["end"]!r}, expected {"the source\'s exception" if want_end else "normal end"}'
    if case.get('own_loop'):
        if r.get('closed_after_1'):
            return 'loop-closed', "to_sync_iter(..., loop=L) closed the caller's loop L"
        full = [TABLE[e] for e in case['ids']]
        if r.get('end2') is not None or r.get('got2') != full:
            return 'second-round', (f"a second to_sync_iter(..., loop=L) on the same loop gave {r.get('got2')!r} and ended "
                                    f"with {r.get('end2')!r}; the source yields {full!r}")
    if r['workers_alive']:
        return 'thread-left', f'helper thread(s) {r["workers_alive"]} still running after iteration finished'
    if case['kind'] in ('async:gen', 'async:objiter'):
        total = sum(case['delays'][:len(exp) + (0 if case['fail'] is not None else 0)])
        if total >= 3 and r['ticks'] < total - 2:
            return 'blocked-loop', f'the event loop ticked {r["ticks"]} times while the source blocked for {total} virtual seconds'
    if case['kind'] in ('async:list', 'async:range', 'async:reiter') and r['nworkers']:
        return 'fast-path', 'a helper thread was used for a non-iterator iterable'
    return None, None


PRODUCER = ('sy', 'p', 'pd', 'se', 'sf', 'we')


def model_labels(case, labels):
    """The recorded labels as the model's: `sy:x` (the source handed `x` to the helper thread) is folded into the
    `p:x` that follows it on the producer's side, or becomes `dr:x` when the producer leaves its loop instead."""
    out = []
    for i, l in enumerate(labels):
        if l.startswith('sy:'):
            nxt = next((m for m in labels[i + 1:] if m.split(':')[0] in PRODUCER), None)
            if nxt is not None and nxt.startswith('p:'):
                continue
            if nxt == 'pd' and case.get('stop_after'):
                out.append('dr:' + l[3:])
            continue
        out.append(l)
    return out


def model_line(case, labels):
    ids = case['ids']
    comp = 'bridgec' if case.get('stop_after') else 'bridge'
    return (f"{comp} src={','.join(map(str, ids))} fail={'-' if case['fail'] is None else case['fail']} "
            f"labels={';'.join(model_labels(case, labels))}")


def _chunk(payload):
    logging.disable(logging.CRITICAL)
    seed0, count = payload
    out = Outcome()
    drv = lean.Driver()
    runs = []
    for i in range(count):
        rng = random.Random((seed0 << 20) + i)
        case = gen_case(rng)
        pct = rng.choice([0, 0, 1, 2])
        case['seed'] = (seed0 << 20) + i
        case['pct'] = pct
        mark(case)
        out.evaluations += 1
        r = run_case(case, case['seed'], pct=pct)
        case['schedule'] = r['trace']
        kind, msg = judge(case, r)
        if kind:
            out.concrete.append({'case': case, 'what': msg, 'observed': r['labels'][-20:],
                                 'signature': {'kind': kind, 'bridge': case['kind'].split(':')[0]}})
        out.fingerprints.add(fingerprint((case['kind'], case['ids'], case['fail'], r['trace'])))
        out.count('kind:' + case['kind'])
        out.count('fail:' + ('none' if case['fail'] is None else 'yes'))
        out.count('len:%d' % len(case['ids']))
        if case['kind'] in ('async:gen', 'async:objiter', 'sync:agen') and not r['hung']:
            runs.append((case, r))       # (an early close by the consumer: the extended LTS of Bridge/CloseModel.lean)
        if case.get('stop_after'):
            out.count('consumer-closes-early')
        if len(out.samples) < 1 and len(r['labels']) > 8:
            out.sample({'case': {k: v for k, v in case.items() if k != 'schedule'}, 'labels': r['labels']})
    answers = drv.ask([model_line(c, r['labels']) for c, r in runs])
    for (case, r), a in zip(runs, answers):
        out.traces_validated += 1
        if not a.startswith('ok'):
            k = int(a.split()[1]) if a.startswith('reject') and a.split()[1].isdigit() else -1
            out.diffs.append({'case': case, 'impl': model_labels(case, r['labels']), 'model': a,
                              'where': f'label {k} of the recorded trace is not a step of the bridge model'})
        elif case.get('stop_after') and ' closed=1 exited=1' not in a:
            out.diffs.append({'case': case, 'impl': model_labels(case, r['labels']), 'model': a,
                              'where': 'at the end of the run the model has not seen the consumer close and the helper '
                                       'thread exit'})
    return out


def run(ctx):
    n = 2400 if ctx.quick else 100000
    k = 4 if ctx.quick else ctx.workers
    per = n // (2 * k)
    return run_chunks(_chunk, [(ctx.seed * 1000 + j, per) for j in range(2 * k)], k, limit_s=120 if ctx.quick else 1800)


def search(ctx, outcome):
    out = run_chunks(_chunk, [((ctx.seed + 5) * 1000 + 700 + j, 500) for j in range(8)], ctx.workers, limit_s=120)
    out.diffs = []
    return out


def replay(ctx, payload):
    case = payload.get('case') or (payload.get('first_differing_case') or {}).get('case')
    r = run_case(case, case['seed'], choices=case.get('schedule'))
    kind, msg = judge(case, r)
    a = ctx.driver.ask([model_line(case, r['labels'])])[0]
    return {'case': case, 'got': repr(r['got']), 'end': r['end'], 'labels': r['labels'], 'model': a,
            'monitor': msg, 'fails': bool(kind)}
