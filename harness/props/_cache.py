"""Common body of the three cache checks (C01, C05, C06)."""
import logging
import random

from ..core import lean
from ..core.common import Outcome, fingerprint
from ..core.par import run_chunks, mark
from ..comp import cache as C

# relevance projection (DESIGN §2.4): a rejected observation is charged to a property only if it is an access to
# a state component the property's theorems mention
RELEVANT = {
    'C01': {'cg', 'mg', 'mp', 'md', 'run', 'is', 'ie', 'cs', 'la', 'lr', 'ls', 'lp', 'sb', 'lc', 'lu', 'call', 'ev'},
    'C05': {'es', 'la', 'lr', 'mg', 'mp', 'md', 'run', 'is', 'ie', 'rt', 'cg', 'ls', 'lp', 'sb', 'lc', 'lu'},
    'C06': {'rt', 'ie', 'cs', 'cg', 'is', 'es', 'call'},
}

MODULE = 'AiutiVerif.Cache.Props'
LEAN_SUBDIRS = ['AiutiVerif/Cache', 'AiutiVerif/Core', 'Driver.lean']
ASSUMPTIONS_COMMON = [
    'asyncio / CPython semantics assumed by Cache/Model.lean: tasks of one loop interleave only at awaits, threads at '
    'every shared access; dict get/set/del are atomic; threading.Lock is mutually exclusive; is_running() is true while '
    'asyncio.run cancels leftovers; a loop stops only between task steps; an invocation pending on a stopped loop can '
    'only be cancelled or abandoned',
    'the waiting path (run_coroutine_threadsafe, wrap_future, wait_for 60 s, shield) is over-approximated in the model '
    'by "a waiting caller may be woken at any time"; promptness and the 60 s bound are measured in virtual time',
    'abandoned coroutines are not finalized during a run (tasks are kept alive); what their finalizers do later is '
    'not part of the run',
]


def _chunk(args):
    prop, seed0, count, lifecycle_p = args[:4]
    family_p = args[4] if len(args) > 4 else (0.1 if prop != 'C01' else 0.0)
    logging.disable(logging.CRITICAL)
    out = Outcome()
    drv = lean.Driver()
    runs = []
    for i in range(count):
        rng = random.Random((seed0 << 20) + i)
        if rng.random() < family_p:
            scn = C.gen_takeover_resume(rng)
            out.count('family:takeover-resume')
        else:
            scn = C.gen_scenario(rng, lifecycle=rng.random() < lifecycle_p, resume=(prop != 'C01'))
        case = {'scenario': scn, 'seed': (seed0 << 20) + i, 'pct': rng.choice([0, 0, 1, 2, 3])}
        mark(case)
        out.evaluations += 1
        try:
            r = C.run_scenario(scn, case['seed'], pct=case['pct'])
        except RuntimeError as e:
            out.diffs.append({'case': case, 'impl': str(e), 'model': None,
                              'where': 'cannot attach the instrumentation to the wrapper'})
            continue
        case['schedule'] = r['trace']
        for (p, kind, detail) in C.monitors(scn, r, {prop}):
            out.concrete.append({'case': case, 'what': f'{kind}: {detail}', 'observed': r['obs'][-30:],
                                 'signature': {'kind': kind}})
        for e in r['errors']:
            out.concrete.append({'case': case, 'what': f'exception in loop thread {e[0]}: {e[1]}',
                                 'signature': {'kind': 'exception'}})
        if r['hung'] and prop != 'C05':
            out.count('hung-not-judged-here')
        out.fingerprints.add(fingerprint((scn['loops'], scn['durs'], scn['fails'], r['trace'])))
        out.count('loops:%d' % len(scn['loops']))
        out.count('lifecycle:' + ('yes' if any(l['life'] != 'complete' for l in scn['loops']) else 'no'))
        for l in scn['loops']:
            out.count('life:' + l['life'])
        out.count('invocations', len(r['inv']))
        out.count('observations', len(r['obs']))
        for res in r['results'].values():
            out.count('outcome:' + res['out'][0])
        runs.append((case, r))
        if len(out.samples) < 1 and len(r['obs']) > 40:
            out.sample({'scenario': scn, 'observations': r['obs'][:60]})
    answers = drv.ask(['cachelts obs=' + ';'.join(r['obs']) for c, r in runs])
    for (case, r), a in zip(runs, answers):
        out.traces_validated += 1
        if a != 'ok':
            k = int(a.split()[1]) if a.startswith('reject') and a.split()[1].isdigit() else -1
            kind = r['obs'][k].split(':')[0] if 0 <= k < len(r['obs']) else '?'
            if kind not in RELEVANT[prop] and kind != '?':
                out.count('rejected-on-a-component-of-another-property:' + kind)
                continue
            out.diffs.append({'case': case, 'impl': r['obs'][max(0, k - 12):k + 2], 'model': a,
                              'where': f'observation {k} ({r["obs"][k] if 0 <= k < len(r["obs"]) else "?"}) is not a '
                                       'step of the cache LTS'})
    return out


def _clean(scn):
    import copy
    scn = copy.deepcopy(scn)
    for l in scn['loops']:
        for cs in l['callers']:
            cs.pop('_id', None)
            cs.pop('_cancelled', None)
    return scn


def _judge(prop, out, case, r, runs):
    for (p, kind, detail) in C.monitors(case['scenario'], r, {prop}):
        out.concrete.append({'case': case, 'what': f'{kind}: {detail}', 'observed': r['obs'][-30:],
                             'signature': {'kind': kind}})
    for e in r['errors']:
        out.concrete.append({'case': case, 'what': f'exception in loop thread {e[0]}: {e[1]}',
                             'signature': {'kind': 'exception'}})
    runs.append((case, r))


def _chunk_sys(args):
    """Systematic, context-bounded exploration: small scenarios of the two race families under the
    non-preemptive schedule plus *every* single preemption (quick) / every pair of preemptions within a window
    (thorough)."""
    prop, seed0, nscn, depth = args
    logging.disable(logging.CRITICAL)
    out = Outcome()
    drv = lean.Driver()
    for i in range(nscn):
        rng = random.Random((seed0 << 20) + 77000 + i)
        fam = rng.choice(['death-race', 'death-race', 'takeover-resume'] if prop != 'C01' else ['death-race'])
        scn0 = C.gen_death_race(rng) if fam == 'death-race' else C.gen_takeover_resume(rng)
        out.count('systematic-family:' + fam)
        runs = []
        todo = [{}]
        seen = set()
        while todo:
            pre = todo.pop()
            key = tuple(sorted(pre.items()))
            if key in seen:
                continue
            seen.add(key)
            scn = _clean(scn0)
            case = {'scenario': scn, 'seed': 0, 'pct': 0, 'preempt': {str(k): v for k, v in pre.items()}}
            mark(case)
            out.evaluations += 1
            try:
                r = C.run_scenario(scn, 0, preempt=dict(pre))
            except RuntimeError as e:
                out.diffs.append({'case': case, 'impl': str(e), 'model': None,
                                  'where': 'cannot attach the instrumentation to the wrapper'})
                break
            case['schedule'] = r['trace']
            case['scenario'] = _clean(scn)
            _judge(prop, out, case, r, runs)
            out.fingerprints.add(fingerprint((scn0['loops'], scn0['durs'], scn0['fails'], r['trace'])))
            out.count('systematic-preemptions:%d' % len(pre))
            if len(pre) < depth:
                last = max(pre) if pre else -1
                hi = len(r['branching']) if not pre else min(len(r['branching']), last + 40)
                for d in range(last + 1, hi):
                    for k in range(r['branching'][d]):
                        nxt = dict(pre)
                        nxt[d] = k
                        todo.append(nxt)
            if len(out.concrete) > 20:
                break
        answers = drv.ask(['cachelts obs=' + ';'.join(r['obs']) for c, r in runs])
        for (case, r), a in zip(runs, answers):
            out.traces_validated += 1
            if a != 'ok':
                k = int(a.split()[1]) if a.startswith('reject') and a.split()[1].isdigit() else -1
                kind = r['obs'][k].split(':')[0] if 0 <= k < len(r['obs']) else '?'
                if kind not in RELEVANT[prop] and kind != '?':
                    out.count('rejected-on-a-component-of-another-property:' + kind)
                    continue
                out.diffs.append({'case': case, 'impl': r['obs'][max(0, k - 12):k + 2], 'model': a,
                                  'where': f'observation {k} ({r["obs"][k] if 0 <= k < len(r["obs"]) else "?"}) is not a '
                                           'step of the cache LTS'})
    return out


def _dispatch(args):
    if args[0] == 'sys':
        return _chunk_sys(args[1:])
    return _chunk(args)


def make(prop, quick_n, thorough_n, lifecycle_p):
    def run(ctx):
        n = quick_n if ctx.quick else thorough_n
        k = 4 if ctx.quick else ctx.workers
        per = max(1, n // (2 * k))
        chunks = [(prop, ctx.seed * 1000 + j, per, lifecycle_p) for j in range(2 * k)]
        if ctx.quick:
            chunks += [('sys', prop, ctx.seed * 1000 + j, 8, 1) for j in range(k)]
        else:
            chunks += [('sys', prop, ctx.seed * 1000 + j, 12, 1) for j in range(k)]
            chunks += [('sys', prop, ctx.seed * 1000 + 500 + j, 2, 2) for j in range(k)]
        return run_chunks(_dispatch, chunks, k, limit_s=120 if ctx.quick else 1800)

    def search(ctx, outcome):
        out = run_chunks(_dispatch, [(prop, (ctx.seed + 11) * 1000 + 400 + j, 500, lifecycle_p,
                                      0.5 if prop != 'C01' else 0.0) for j in range(8)] +
                         [('sys', prop, (ctx.seed + 11) * 1000 + 600 + j, 4, 1) for j in range(8)],
                         ctx.workers, limit_s=180)
        out.diffs = []
        return out

    def replay(ctx, payload):
        case = payload.get('case') or (payload.get('first_differing_case') or {}).get('case')
        scn = case['scenario']
        for l in scn['loops']:
            for cs in l['callers']:
                cs.pop('_id', None)
                cs.pop('_cancelled', None)
        r = C.run_scenario(scn, case['seed'], choices=case.get('schedule'))   # the recorded schedule decides
        a = ctx.driver.ask(['cachelts obs=' + ';'.join(r['obs'])])[0]
        bad = C.monitors(scn, r, {prop})
        return {'case': case, 'observations': r['obs'], 'results': {k: repr(v) for k, v in r['results'].items()},
                'hung': r['hung'], 'model': a, 'monitor': bad, 'fails': bool(bad)}
    return run, search, replay
