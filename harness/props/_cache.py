"""Common body of the three cache checks (C01, C05, C06)."""
import logging
import random

from ..core import lean
from ..core.common import Outcome, fingerprint
from ..core.par import run_chunks, mark
from ..comp import cache as C

# relevance projection (DESIGN §2.4): a rejected observation is charged to a property only if it is an access to
# a state component the property's theorems mention
RELEVANT = {
    'C01': {'cg', 'mg', 'mp', 'md', 'run', 'is', 'ie', 'cs', 'la', 'lr', 'ls', 'lp', 'sb', 'lc', 'call', 'ev'},
    'C05': {'es', 'la', 'lr', 'mg', 'mp', 'md', 'run', 'is', 'ie', 'rt', 'cg', 'ls', 'lp', 'sb', 'lc'},
    'C06': {'rt', 'ie', 'cs', 'cg', 'is', 'es', 'call'},
}

MODULE = 'AiutiVerif.Cache.Props'
LEAN_SUBDIRS = ['AiutiVerif/Cache', 'AiutiVerif/Core', 'Driver.lean']
ASSUMPTIONS_COMMON = [
    'asyncio / CPython semantics assumed by Cache/Model.lean: tasks of one loop interleave only at awaits, threads at '
    'every shared access; dict get/set/del are atomic; threading.Lock is mutually exclusive; is_running() is true while '
    'asyncio.run cancels leftovers; a loop stops only between task steps; an invocation pending on a stopped loop can '
    'only be cancelled or abandoned',
    'the waiting path (run_coroutine_threadsafe, wrap_future, wait_for 60 s, shield) is over-approximated in the model '
    'by "a waiting caller may be woken at any time"; promptness and the 60 s bound are measured in virtual time',
    'abandoned coroutines are not finalized during a run (tasks are kept alive); what their finalizers do later is '
    'not part of the run',
]


def _chunk(args):
    prop, seed0, count, lifecycle_p = args
    logging.disable(logging.CRITICAL)
    out = Outcome()
    drv = lean.Driver()
    runs = []
    for i in range(count):
        rng = random.Random((seed0 << 20) + i)
        scn = C.gen_scenario(rng, lifecycle=rng.random() < lifecycle_p)
        case = {'scenario': scn, 'seed': (seed0 << 20) + i, 'pct': rng.choice([0, 0, 1, 2, 3])}
        mark(case)
        out.evaluations += 1
        try:
            r = C.run_scenario(scn, case['seed'], pct=case['pct'])
        except RuntimeError as e:
            out.diffs.append({'case': case, 'impl': str(e), 'model': None,
                              'where': 'cannot attach the instrumentation to the wrapper'})
            continue
        case['schedule'] = r['trace']
        for (p, kind, detail) in C.monitors(scn, r, {prop}):
            out.concrete.append({'case': case, 'what': f'{kind}: {detail}', 'observed': r['obs'][-30:],
                                 'signature': {'kind': kind}})
        for e in r['errors']:
            out.concrete.append({'case': case, 'what': f'exception in loop thread {e[0]}: {e[1]}',
                                 'signature': {'kind': 'exception'}})
        if r['hung'] and prop != 'C05':
            out.count('hung-not-judged-here')
        out.fingerprints.add(fingerprint((scn['loops'], scn['durs'], scn['fails'], r['trace'])))
        out.count('loops:%d' % len(scn['loops']))
        out.count('lifecycle:' + ('yes' if any(l['life'] != 'complete' for l in scn['loops']) else 'no'))
        out.count('invocations', len(r['inv']))
        out.count('observations', len(r['obs']))
        for res in r['results'].values():
            out.count('outcome:' + res['out'][0])
        runs.append((case, r))
        if len(out.samples) < 1 and len(r['obs']) > 40:
            out.sample({'scenario': scn, 'observations': r['obs'][:60]})
    answers = drv.ask(['cachelts obs=' + ';'.join(r['obs']) for c, r in runs])
    for (case, r), a in zip(runs, answers):
        out.traces_validated += 1
        if a != 'ok':
            k = int(a.split()[1]) if a.startswith('reject') and a.split()[1].isdigit() else -1
            kind = r['obs'][k].split(':')[0] if 0 <= k < len(r['obs']) else '?'
            if kind not in RELEVANT[prop] and kind != '?':
                out.count('rejected-on-a-component-of-another-property:' + kind)
                continue
            out.diffs.append({'case': case, 'impl': r['obs'][max(0, k - 12):k + 2], 'model': a,
                              'where': f'observation {k} ({r["obs"][k] if 0 <= k < len(r["obs"]) else "?"}) is not a '
                                       'step of the cache LTS'})
    return out


def make(prop, quick_n, thorough_n, lifecycle_p):
    def run(ctx):
        n = quick_n if ctx.quick else thorough_n
        k = 4 if ctx.quick else ctx.workers
        per = max(1, n // (2 * k))
        return run_chunks(_chunk, [(prop, ctx.seed * 1000 + j, per, lifecycle_p) for j in range(2 * k)], k,
                          limit_s=120 if ctx.quick else 1800)

    def search(ctx, outcome):
        out = run_chunks(_chunk, [(prop, (ctx.seed + 11) * 1000 + 400 + j, 500, lifecycle_p) for j in range(8)],
                         ctx.workers, limit_s=180)
        out.diffs = []
        return out

    def replay(ctx, payload):
        case = payload.get('case') or (payload.get('first_differing_case') or {}).get('case')
        scn = case['scenario']
        for l in scn['loops']:
            for cs in l['callers']:
                cs.pop('_id', None)
                cs.pop('_cancelled', None)
        r = C.run_scenario(scn, case['seed'], choices=case.get('schedule'))
        a = ctx.driver.ask(['cachelts obs=' + ';'.join(r['obs'])])[0]
        bad = C.monitors(scn, r, {prop})
        return {'case': case, 'observations': r['obs'], 'results': {k: repr(v) for k, v in r['results'].items()},
                'hung': r['hung'], 'model': a, 'monitor': bad, 'fails': bool(bad)}
    return run, search, replay
