"""C11 — see DESIGN.md §5 (Batcher component)."""
from . import _batcher

ID = 'C11'
MODULE = _batcher.MODULE
LEAN_SUBDIRS = _batcher.LEAN_SUBDIRS
THEOREMS = ['AiutiVerif.Batcher.C11_sharer_adds_no_work','AiutiVerif.Batcher.C11_no_duplicate_key', 'AiutiVerif.Batcher.C11_no_duplicate_key_prefix',
            'AiutiVerif.Batcher.C11_pending_work_distinct', 'AiutiVerif.Batcher.C11_shared_adds_no_work',
            'AiutiVerif.Batcher.C11_fresh_adds_work', 'AiutiVerif.Batcher.runProgram_Rq',
            'AiutiVerif.Batcher.C11_retention_zero_forgets', 'AiutiVerif.Batcher.C11_old_result_only_within_window',
            'AiutiVerif.Batcher.C11_remembered_throughout_window', 'AiutiVerif.Batcher.foldl_applyIn_T',
            'AiutiVerif.Batcher.advance_quiet', 'AiutiVerif.Batcher.C11_sharer_receives_the_original_outcome', 'AiutiVerif.Batcher.C04_answer_is_final']
ASSUMPTIONS = list(_batcher.ASSUMPTIONS_COMMON)
RULE = ('timed sequences of up to 10 calls over 1..3 keys with gaps around retention_timeout and batch completion, retention in {0, 96, 640} ticks, value / exception outcomes, default str(arg) keys and explicit keys, no cancellation; every program runs on the real AsyncBackgroundBatcher under a virtual clock and on the Lean '
        'machine, the event streams are compared on the components this property mentions, and an independent '
        'monitor judges the real execution; one program in five is drawn from the other batcher flavours; '
        'distinct = distinct (config, inputs, plan) with at least two calls')
run, search, replay = _batcher.make('C11', 'c11', 1600, 60000)
