"""C18 — split partitions its input, lazily, evaluating each element once."""
import itertools

from ..core import lean
from ..core.common import Outcome, rng_for, fingerprint
from ..core.par import run_chunks, mark

ID = 'C18'
MODULE = 'AiutiVerif.Split.Props'
LEAN_SUBDIRS = ['AiutiVerif/Split', 'AiutiVerif/Core', 'Driver.lean']
THEOREMS = [
    'AiutiVerif.Split.C18_next_total',
    'AiutiVerif.Split.C18_side_prefix',
    'AiutiVerif.Split.C18_side_complete',
    'AiutiVerif.Split.C18_partition',
    'AiutiVerif.Split.C18_pred_once',
    'AiutiVerif.Split.C18_source_once',
    'AiutiVerif.Split.C18_exhaust',
]
ASSUMPTIONS = [
    'CPython itertools.tee / map / generator-expression pull order as modelled in Split/Model.lean '
    '(map pulls the element, then the decision; tee pulls from its source only at the end of '
    'the shared buffer; a generator that has stopped stays stopped) - validated on every run by comparing pull and predicate logs',
    'an exhausted source keeps raising StopIteration (true of lists, ranges, generators)',
]
RULE = ('bounded-exhaustive over sources (length 0..L over a 3-value domain; as logging generator, '
        'list, range, iterator), conditions (stateful callable given as a table, or list / iterator / '
        'generator of selector objects shorter, equal, longer, with truthy and falsy non-bool values) '
        'and interleavings of next() on the two result iterators (all T/F strings up to length L+2 '
        'for small L, random ones beyond; in 30% of the random cases the three source values are the objects None / 0 / \'\' '
        'instead of 0 / 1 / 2); distinct = distinct (source, condition, ops) triple with a '
        'non-empty source and at least one next(); each case runs on aiuti.itertools.split and on the '
        'Lean model and is judged by an independent filter-based monitor')

# selector objects by code: odd = truthy
FALSY = [False, 0, '', None, []]
TRUTHY = [True, 1, 'x', [0], 2.5]


class Flip:
    """A condition value whose truth value is what it is when it is first looked at and the opposite afterwards (a
    mutable container that the consumer empties or fills, an object with a stateful __bool__): the element was
    classified when its condition was evaluated - it belongs to exactly one side."""

    def __init__(self, first):
        self.first = first
        self.seen = False

    def __bool__(self):
        if not self.seen:
            self.seen = True
            return self.first
        return not self.first


def sel_obj(code):
    if (code // 2) % 5 == 4:
        return Flip(bool(code % 2))
    return (TRUTHY if code % 2 else FALSY)[(code // 2) % 5]


# Elements that code tends to mistake for "nothing": the source's values 0, 1, 2 are presented to split() as these
# objects when a case says so ('awk'); logs and outputs are translated back by identity.
AWKWARD = [None, 0, '']


def _unawk(v):
    for i, e in enumerate(AWKWARD):
        if v is e:
            return i
    return 'foreign:%r' % (v,)


def run_impl(case):
    """Execute one case on the real split(); returns (outs, pulled or None, predlog)."""
    outs, pulled, predlog = _run_impl(case)
    if case.get('awk'):
        pulled = None if pulled is None else [_unawk(v) for v in pulled]
        predlog = [_unawk(v) for v in predlog]
    return outs, pulled, predlog


def _run_impl(case):
    from aiuti.itertools import split
    awk = bool(case.get('awk'))
    xs = [AWKWARD[x] for x in case['src']] if awk else case['src']
    pulled = []
    predlog = []
    kind = case['srckind']
    if kind == 'gen':
        def gen():
            for x in xs:
                pulled.append(x)
                yield x
        source = gen()
    elif kind == 'list':
        source = list(xs)
    elif kind in ('reiter', 'drain'):
        # an iterable that is not an iterator: a container whose iteration is observable ('reiter': every
        # iter() starts over) or not repeatable ('drain': iteration consumes the underlying deque)
        import collections
        dq = collections.deque(xs)

        class Box:
            def __iter__(self):
                if kind == 'drain':
                    while dq:
                        x = dq.popleft()
                        pulled.append(x)
                        yield x
                else:
                    for x in xs:
                        pulled.append(x)
                        yield x
        source = Box()
    elif kind == 'range':
        source = range(len(xs))
    else:
        source = iter(list(xs))
    if case['kind'] == 'callable':
        tab = case['tab']

        def pred(x):
            k = len(predlog)
            predlog.append(x)
            return sel_obj(tab[k][_unawk(x) if awk else x]) if k < len(tab) else False
        cond = pred
    else:
        objs = [sel_obj(c) for c in case['cond']]
        ck = case['condkind']
        if ck == 'list':
            cond = objs
        elif ck == 'iter':
            cond = iter(objs)
        else:
            cond = (o for o in objs)
    t, f = split(source, cond)
    outs = []
    for ch in case['ops']:
        if ch == 'x':           # the caller abandons the true side (drops its last reference to the iterator) ...
            t = None
            continue
        if ch == 'y':           # ... or the false side; the other side is not affected
            f = None
            continue
        it = t if ch == 'T' else f
        try:
            v = next(it)
            outs.append(ch + str(_unawk(v) if awk else v))
        except StopIteration:
            outs.append(ch + 'S')
    return outs, (pulled if kind in ('gen', 'reiter', 'drain') else None), predlog


def model_line(case):
    s = f"split kind={case['kind']} src={','.join(map(str, case['src']))} ops={case['ops'].replace('x', '').replace('y', '')}"
    if case['kind'] == 'callable':
        s += ' tab=' + ';'.join(','.join(map(str, r)) for r in case['tab'])
    else:
        s += ' cond=' + ','.join(map(str, case['cond']))
    return s


def parse_model(ans):
    d = {}
    for tok in ans.split(' '):
        k, _, v = tok.partition('=')
        d[k] = v
    outs = d.get('outs', '').split(',') if d.get('outs') else []
    nums = lambda s: [int(x) for x in s.split(',')] if s else []
    return outs, nums(d.get('pulled', '')), nums(d.get('pred', ''))


def monitor(case, outs, pulled, predlog):
    """Independent statement of the property over one real execution. Returns None or a message."""
    xs = case['src']
    if case['kind'] == 'callable':
        tab = case['tab']
        sels = [bool(sel_obj(tab[k][x])) for k, x in enumerate(xs)]
    else:
        sels = [bool(sel_obj(c)) for c in case['cond']]
    pairs = list(zip(xs, sels))
    spec = {'T': [x for x, b in pairs if b], 'F': [x for x, b in pairs if not b]}
    got = {'T': [], 'F': []}
    stopped = {'T': False, 'F': False}
    for o in outs:
        side, v = o[0], o[1:]
        if v == 'S':
            stopped[side] = True
            if got[side] != spec[side]:
                return f'side {side} stopped after {got[side]} but its elements are {spec[side]}'
        else:
            if stopped[side]:
                return f'side {side} yielded {v} after stopping'
            got[side].append(int(v))
            if got[side] != spec[side][:len(got[side])]:
                return f'side {side} yielded {got[side]}, not a prefix of {spec[side]}'
    if case['kind'] == 'callable':
        if predlog != xs[:len(predlog)]:
            return f'predicate applied to {predlog}: not each element once in source order'
    elif predlog:
        return 'predicate log non-empty for an iterable condition'
    if pulled is not None and pulled != xs[:len(pulled)]:
        return f'source produced {pulled}: not each element at most once in order'
    return None


def gen_cases(ctx):
    """Yield cases: exhaustive part first, then random ones."""
    quick = ctx.quick
    Lex = 3 if quick else 4          # exhaustive up to this source length
    dom = [0, 1, 2]
    # --- exhaustive: every source, a family of conditions, every op string
    for n in range(0, Lex + 1):
        for xs in itertools.product(dom, repeat=n):
            xs = list(xs)
            conds = []
            # stateless callables: all truthiness assignments over the domain; one stateful family
            for bits in itertools.product([0, 1], repeat=3):
                conds.append(('callable', [[2 * (i % 5) + b for i, b in enumerate(bits)]] * (n + 2)))
            conds.append(('callable', [[(2 * k + x + 1) % 10 for x in dom] for k in range(n + 2)]))
            # iterable conditions of length n-1, n, n+1 : all truthiness patterns
            for m in {max(0, n - 1), n, n + 1}:
                for bits in itertools.product([0, 1], repeat=m):
                    conds.append(('iter', [2 * ((i + 1) % 5) + b for i, b in enumerate(bits)]))
            for ci, (kind, c) in enumerate(conds):
                for oplen in range(0, n + 3):
                    for ops in itertools.product('TF', repeat=oplen):
                        case = {'kind': kind, 'src': xs, 'ops': ''.join(ops),
                                'srckind': ('gen', 'list', 'iter', 'reiter', 'drain')[(ci + oplen + len(xs)) % 5]}
                        if kind == 'callable':
                            case['tab'] = c
                        else:
                            case['cond'] = c
                            case['condkind'] = ('list', 'iter', 'gen')[(ci + n) % 3]
                        yield case
    # --- random: longer sources / op strings
    rng = rng_for(ctx.seed, 'c18')
    nrand = 20000 if quick else 400000
    for _ in range(nrand):
        n = rng.randint(0, 7)
        xs = [rng.choice(dom) for _ in range(n)]
        case = {'src': xs, 'srckind': rng.choice(['gen', 'gen', 'list', 'iter', 'reiter', 'drain'])}
        if xs == list(range(n)) and rng.random() < 0.5:
            case['srckind'] = 'range'
        elif rng.random() < 0.3:
            case['awk'] = True       # the elements are None / 0 / '' instead of 0 / 1 / 2
        if rng.random() < 0.5:
            case['kind'] = 'callable'
            case['tab'] = [[rng.randrange(10) for _ in dom] for _ in range(n + 2)]
            if rng.random() < 0.5:
                case['tab'] = [case['tab'][0]] * (n + 2)
        else:
            case['kind'] = 'iter'
            m = max(0, n + rng.choice([-2, -1, 0, 0, 1, 2]))
            case['cond'] = [rng.randrange(10) for _ in range(m)]
            case['condkind'] = rng.choice(['list', 'iter', 'gen'])
        ln = rng.randint(0, n + 4)
        bias = rng.choice([0.5, 0.5, 0.9, 0.1])
        case['ops'] = ''.join('T' if rng.random() < bias else 'F' for _ in range(ln))
        if ln and rng.random() < 0.25:
            # one side is abandoned part-way: nothing more is asked of it, the other side goes on
            side, mark_ = rng.choice([('T', 'x'), ('F', 'y')])
            at = rng.randint(0, ln)
            case['ops'] = case['ops'][:at] + mark_ + case['ops'][at:].replace(side, '')
        yield case


def evaluate(ctx, cases, out):
    lines = [model_line(c) for c in cases]
    answers = ctx.driver.ask(lines)
    for case, ans in zip(cases, answers):
        out.evaluations += 1
        mark(case)
        try:
            outs, pulled, predlog = run_impl(case)
        except Exception as e:  # the real code raised: a violation of "yields exactly …"
            out.concrete.append({'case': case, 'what': f'split raised {type(e).__name__}: {e}',
                                 'signature': {'kind': 'exception', 'type': type(e).__name__}})
            continue
        msg = monitor(case, outs, pulled, predlog)
        if msg:
            out.concrete.append({'case': case, 'what': msg, 'observed': outs,
                                 'signature': {'kind': 'monitor', 'cond': case['kind']}})
        m_outs, m_pulled, m_pred = parse_model(ans)
        out.traces_validated += 1
        same = (m_outs == outs and m_pred == predlog and (pulled is None or m_pulled == pulled))
        if not same:
            out.diffs.append({'case': case, 'impl': {'outs': outs, 'pulled': pulled, 'pred': predlog},
                              'model': {'outs': m_outs, 'pulled': m_pulled, 'pred': m_pred},
                              'where': 'split outputs / pull log / predicate log'})
        if case['src'] and case['ops']:
            out.fingerprints.add(fingerprint(case))
        out.count('cond:' + case['kind'])
        out.count('src:' + case['srckind'])
        out.count('stops', sum(1 for o in outs if o.endswith('S')))
        out.count('values', sum(1 for o in outs if not o.endswith('S')))
        if len(out.samples) < 3 and len(case['ops']) >= 4 and len(case['src']) >= 3:
            out.sample({'case': case, 'impl_outs': outs, 'model': ans})


def exhaust_cases(out):
    """exhaust() consumes everything and returns None."""
    from aiuti.itertools import exhaust
    for n in range(0, 9):
        seen = []

        def g():
            for i in range(n):
                seen.append(i)
                yield i
        r = exhaust(g())
        out.evaluations += 1
        if r is not None or seen != list(range(n)):
            out.concrete.append({'case': {'exhaust': n}, 'what': f'exhaust consumed {seen}, returned {r!r}',
                                 'signature': {'kind': 'exhaust'}})
    out.count('exhaust', 9)


def raising_cases(out):
    """A condition that raises for one element (a bad record): whoever asks for that element gets the error - once -,
    the element is in neither result, and *both* sides can be asked for the following elements afterwards: each is
    exactly the elements of its own truth value among those whose condition did not raise, in order, whatever the
    order of consumption.  Outside the Lean model (its conditions have truth values): monitor only."""
    from aiuti.itertools import split

    class Bad(Exception):
        pass

    def drain(it, got, errs, limit=None):
        k = 0
        while limit is None or k < limit:
            k += 1
            try:
                got.append(next(it))
            except Bad as e:
                errs.append(e.args[0])
            except StopIteration:
                return True
        return False
    for n in range(2, 7):
        for bad in range(0, n):
            for order in ('T', 'F', 'alt', 'alt2'):
                for srckind in ('list', 'gen'):
                    xs = list(range(n))
                    truth = [(x * 7 + n) % 3 != 0 for x in xs]
                    calls = []

                    def cond(x, bad=bad, truth=truth, calls=calls):
                        calls.append(x)
                        if x == bad:
                            raise Bad(x)
                        return truth[x]
                    src = list(xs) if srckind == 'list' else (x for x in xs)
                    t, f = split(src, cond)
                    got = {True: [], False: []}
                    errs = []
                    if order in ('T', 'F'):
                        a, b = (t, f) if order == 'T' else (f, t)
                        drain(a, got[order == 'T'], errs)
                        drain(b, got[order != 'T'], errs)
                    else:
                        step = 1 if order == 'alt' else 2
                        done_t = done_f = False
                        for _ in range(4 * n + 8):
                            if not done_t:
                                done_t = drain(t, got[True], errs, step)
                            if not done_f:
                                done_f = drain(f, got[False], errs, 1)
                            if done_t and done_f:
                                break
                    out.evaluations += 1
                    case = {'raising': True, 'n': n, 'bad': bad, 'order': order, 'srckind': srckind}
                    want = {side: [x for x in xs if x != bad and truth[x] == side] for side in (True, False)}
                    if got != want or errs != [bad] or calls != xs:
                        out.concrete.append({
                            'case': case,
                            'what': f'the condition raises for element {bad} of {xs} (truth values {truth}); consumption '
                                    f'order {order}, the consumer catches the error and goes on: true side {got[True]} '
                                    f'(expected {want[True]}), false side {got[False]} (expected {want[False]}), errors '
                                    f'received for {errs} (expected once, for {bad}), condition called for {calls}',
                            'observed': {'true_side': got[True], 'false_side': got[False], 'errors': errs},
                            'signature': {'kind': 'desync-after-raising-condition'}})
    out.count('raising-condition cases', 1)


class _Ctx:
    pass


def _chunk(payload):
    quick, seed, part, nparts = payload
    ctx = _Ctx()
    ctx.quick, ctx.seed, ctx.driver = quick, seed, lean.Driver()
    out = Outcome()
    if part == 0:
        exhaust_cases(out)
        raising_cases(out)
    batch = []
    for i, case in enumerate(gen_cases(ctx)):
        if i % nparts != part:
            continue
        batch.append(case)
        if len(batch) >= 5000:
            evaluate(ctx, batch, out)
            batch = []
            if len(out.concrete) + len(out.diffs) > 50:
                break
    if batch:
        evaluate(ctx, batch, out)
    return out


def run(ctx):
    nparts = 4 if ctx.quick else ctx.workers
    out = run_chunks(_chunk, [(ctx.quick, ctx.seed, k, nparts) for k in range(nparts)], nparts,
                     limit_s=180 if ctx.quick else 1500)
    out.extra['exhaustive_part'] = ('all sources of length <= %d over 3 values x condition family x all '
                                    'op strings up to length n+2' % (3 if ctx.quick else 4))
    return out


def search(ctx, outcome):
    """Directed search when only a tie broke: shrink around the first differing case."""
    out = Outcome()
    for d in outcome.diffs[:20]:
        case = d['case']
        # the differing case itself, with every prefix of its ops, under the monitor
        for k in range(len(case['ops']) + 1):
            c = dict(case, ops=case['ops'][:k], srckind='gen')
            try:
                outs, pulled, predlog = run_impl(c)
            except Exception as e:
                out.concrete.append({'case': c, 'what': f'split raised {type(e).__name__}: {e}',
                                     'signature': {'kind': 'exception', 'type': type(e).__name__}})
                break
            msg = monitor(c, outs, pulled, predlog)
            out.evaluations += 1
            if msg:
                out.concrete.append({'case': c, 'what': msg, 'observed': outs,
                                     'signature': {'kind': 'monitor', 'cond': c['kind']}})
                break
        if out.concrete:
            break
    return out


def replay(ctx, payload):
    case = payload.get('case') or (payload.get('first_differing_case') or {}).get('case')
    outs, pulled, predlog = run_impl(case)
    ans = ctx.driver.ask([model_line(case)])[0]
    msg = monitor(case, outs, pulled, predlog)
    return {'case': case, 'impl': {'outs': outs, 'pulled': pulled, 'pred': predlog}, 'model': ans,
            'monitor': msg, 'fails': bool(msg)}
