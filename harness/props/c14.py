"""C14 — cache keys: same arguments share, different arguments never do."""
import asyncio
import collections
import itertools
import logging

from ..core import lean
from ..core.common import Outcome, rng_for, fingerprint
from ..core.par import run_chunks, mark

ID = 'C14'
MODULE = 'AiutiVerif.Cache.KeysProps'
LEAN_SUBDIRS = ['AiutiVerif/Cache/Keys.lean', 'AiutiVerif/Cache/KeysProps.lean', 'AiutiVerif/Cache/KeysDrive.lean',
                'AiutiVerif/Core', 'Driver.lean']
THEOREMS = [
    'AiutiVerif.Cache.C14_key_iff',
    'AiutiVerif.Cache.C14_kw_order_irrelevant',
    'AiutiVerif.Cache.C14_positional_matters',
    'AiutiVerif.Cache.C14_positional_is_not_keyword',
    'AiutiVerif.Cache.C14_hit_no_invocation',
    'AiutiVerif.Cache.C14_miss_one_invocation',
    'AiutiVerif.Cache.C14_evict_forgets',
    'AiutiVerif.Cache.C14_evict_only_that_key',
    'AiutiVerif.Cache.C14_no_cross_talk',
]
ASSUMPTIONS = [
    'Python == / hash of the argument values is an equivalence relation; the harness computes the class of every '
    'value it uses (1, 1.0 and True share one) and hands the classes to the model',
    'the supplied MutableMapping behaves like a mapping keyed by == / hash (dict, LRU, scripted eviction)',
    'sequential use (one call at a time) for the model comparison; concurrency is C01 - but that the supplied '
    'mapping is the only store is also judged, by a monitor, after a prelude of concurrent waiters and cancellations',
]
RULE = ('all ordered pairs of call signatures from a pool (positional tuples of length 0..3 over value classes with '
        'equal-but-distinct representatives, keyword dicts of 0..3 names in every insertion order) as call s1, call s2, '
        'call s1; longer random sequences of calls and evictions on a dict, a bounded LRU and a scripted-eviction '
        'mapping (evictions are observed at the mapping and handed to the model); unhashable arguments; distinct = '
        'distinct operation sequence with at least two calls')

# value classes with several equal-but-distinct representatives
REPS = [[1, 1.0, True], [2, 2.0], ['a', 'a'], [(1, 2), (1.0, 2.0)], [None], [0, 0.0, False], ['', ''], [frozenset([1])]]
NAMES = ['x', 'y', 'z']


def mk_value(cls, variant):
    reps = REPS[cls]
    return reps[variant % len(reps)]


def enc_sig(sig):
    args, kw = sig
    a = '.'.join(str(c) for c, _ in args) if args else '-'
    k = '.'.join(f'{10 + NAMES.index(n)}~{c}' for n, (c, _) in kw) if kw else '-'
    return a + '/' + k


class LRU(collections.abc.MutableMapping):
    def __init__(self, size, log):
        self.d = collections.OrderedDict()
        self.size = size
        self.log = log

    def __getitem__(self, k):
        v = self.d[k]
        self.d.move_to_end(k)
        return v

    def __setitem__(self, k, v):
        self.d[k] = v
        self.d.move_to_end(k)
        while len(self.d) > self.size:
            old, _ = self.d.popitem(last=False)
            self.log.append(('e', old))

    def __delitem__(self, k):
        del self.d[k]

    def __iter__(self):
        return iter(self.d)

    def __len__(self):
        return len(self.d)


def run_impl(case):
    """Returns (model ops with observed evictions, returned values, invocation argument log)."""
    from aiuti.asyncio import threadsafe_async_cache
    evlog = []
    kind = case['mapping']
    store = {} if kind == 'dict' else LRU(case.get('size', 2), evlog) if kind == 'lru' else {}
    inv = []

    none_inv = {}          # key -> invocation whose result was None (None carries no tag of its own)

    async def f(*args, **kwargs):
        inv.append((args, dict(kwargs)))
        n = len(inv) - 1
        await asyncio.sleep(0)
        # a cached value is a value whatever it is: a third of the results are falsy, a third are None
        if n % 3 == 2:
            none_inv[(args, frozenset(kwargs.items()))] = n
            return None
        return (FalsyRes if n % 3 else tuple)(('r', n))
    g = threadsafe_async_cache(f, cache=store) if kind != 'default' else threadsafe_async_cache(f)
    rets = []
    ops_model = []
    loop = asyncio.new_event_loop()
    try:
        for op in case['ops']:
            if op[0] == 'c':
                args = tuple(mk_value(c, v) for c, v in op[1][0])
                kwargs = {n: mk_value(c, v) for n, (c, v) in op[1][1]}
                before = len(evlog)
                r = loop.run_until_complete(g(*args, **kwargs))
                rets.append(r[1] if r is not None else none_inv.get((args, frozenset(kwargs.items()))))
                ops_model.append('c:' + enc_sig(op[1]))
                for (_, key) in evlog[before:]:
                    ops_model.append('e:' + enc_key(key))
            else:
                if kind == 'default':
                    continue
                args = tuple(mk_value(c, v) for c, v in op[1][0])
                key = (args, frozenset((n, mk_value(c, v)) for n, (c, v) in op[1][1]))
                try:
                    del store[key]
                except KeyError:
                    pass
                ops_model.append('e:' + enc_sig(op[1]))
    finally:
        loop.close()
    return ops_model, rets, inv


def cls_of(v):
    for i, reps in enumerate(REPS):
        for r in reps:
            if type(r) is type(v) and r == v:
                return i
        if any(r == v and hash(r) == hash(v) for r in reps):
            return i
    raise KeyError(v)


def enc_key(key):
    args, kws = key
    a = '.'.join(str(cls_of(v)) for v in args) if args else '-'
    items = sorted(kws)
    k = '.'.join(f'{10 + NAMES.index(n)}~{cls_of(v)}' for n, v in items) if items else '-'
    return a + '/' + k


def sig_pool(rng, n):
    pool = []
    for _ in range(n):
        na = rng.randint(0, 3)
        args = [(rng.randrange(4), rng.randrange(3)) for _ in range(na)]
        names = rng.sample(NAMES, rng.randint(0, 3))
        kw = [(nm, (rng.randrange(4), rng.randrange(3))) for nm in names]
        pool.append((args, kw))
    return pool


def variants(sig, rng):
    """The same key written differently: other representatives, keywords in another order."""
    args, kw = sig
    a2 = [(c, rng.randrange(3)) for c, _ in args]
    k2 = [(n, (c, rng.randrange(3))) for n, (c, _) in kw]
    rng.shuffle(k2)
    return (a2, k2)


def monitor(case, rets, inv):
    """Independent statement: calls with equal keys (Python ==) share, others never do; the value returned
    is the one computed for that key; one recomputation per eviction."""
    have = {}
    exp = []
    ninv = 0
    # replay with Python's own key equality, evictions taken from the case (explicit) only for dict mappings
    if case['mapping'] == 'lru':
        return None
    for op in case['ops']:
        args = tuple(mk_value(c, v) for c, v in op[1][0])
        key = (args, frozenset((n, mk_value(c, v)) for n, (c, v) in op[1][1]))
        if op[0] == 'c':
            if key not in have:
                have[key] = ninv
                ninv += 1
            exp.append(have[key])
        elif case['mapping'] != 'default':
            have.pop(key, None)
    if rets != exp:
        return f'values returned {rets}, expected {exp} (equal keys must share, different keys never)'
    if len(inv) != ninv:
        return f'{len(inv)} invocations, expected {ninv}'
    return None


def gen_cases(ctx):
    rng = rng_for(ctx.seed, 'c14')
    pool = sig_pool(rng, 60 if ctx.quick else 160)
    # the interesting neighbours of every signature
    for s in list(pool[:40 if ctx.quick else 120]):
        pool.append(variants(s, rng))
        a, k = s
        if len(a) >= 2:
            pool.append((a[::-1], k))                 # positional order
        if a and len(k) < 3:
            free = [n for n in NAMES if n not in [x for x, _ in k]]
            pool.append((a[:-1], k + [(free[0], a[-1])]))   # last positional as keyword
    for s1, s2 in itertools.product(pool, repeat=2):
        if ctx.quick and rng.random() < 0.55:
            continue
        yield {'mapping': rng.choice(['dict', 'dict', 'default']), 'ops': [('c', s1), ('c', s2), ('c', s1)]}
    for _ in range(1500 if ctx.quick else 40000):
        small = rng.sample(pool, 4)
        ops = []
        for _ in range(rng.randint(3, 10)):
            s = rng.choice(small)
            if rng.random() < 0.5:
                s = variants(s, rng)
            ops.append(('e' if rng.random() < 0.25 else 'c', s))
        yield {'mapping': rng.choice(['dict', 'lru', 'lru']), 'size': rng.randint(1, 3), 'ops': ops}


class _Ctx:
    pass


def _chunk(payload):
    logging.disable(logging.CRITICAL)
    quick, seed, part, nparts = payload
    ctx = _Ctx()
    ctx.quick, ctx.seed = quick, seed
    drv = lean.Driver()
    out = Outcome()
    if part == 0:
        unhashable(out)
        two_functions(out)
    batch = []

    def flush():
        runs = []
        for case in batch:
            mark(case)
            out.evaluations += 1
            try:
                runs.append((case,) + run_impl(case))
            except Exception as e:
                out.concrete.append({'case': case, 'what': f'{type(e).__name__}: {e}',
                                     'signature': {'kind': 'exception', 'type': type(e).__name__}})
        answers = drv.ask(['ckey ops=' + ';'.join(r[1]) for r in runs])
        for (case, ops_model, rets, inv), a in zip(runs, answers):
            d = dict(tok.partition('=')[::2] for tok in a.split(' '))
            m_rets = [int(x) for x in d['rets'].split(',')] if d.get('rets') else []
            out.traces_validated += 1
            if m_rets != rets or int(d.get('ninv', -1)) != len(inv):
                out.diffs.append({'case': case, 'impl': {'rets': rets, 'ninv': len(inv)}, 'model': a,
                                  'where': 'which calls share an entry / number of invocations'})
            msg = monitor(case, rets, inv)
            if msg:
                out.concrete.append({'case': case, 'what': msg, 'signature': {'kind': 'monitor'}})
            if sum(1 for o in case['ops'] if o[0] == 'c') >= 2:
                out.fingerprints.add(fingerprint(case))
            out.count('mapping:' + case['mapping'])
            out.count('shared' if len(set(rets)) < len(rets) else 'all-distinct')
            out.count('evictions', sum(1 for o in ops_model if o.startswith('e:')))
            if len(out.samples) < 2 and len(case['ops']) > 4:
                out.sample({'case': case, 'model_ops': ops_model, 'rets': rets})
        batch.clear()
    for i, case in enumerate(gen_cases(ctx)):
        if i % nparts != part:
            continue
        batch.append(case)
        if len(batch) >= 1500:
            flush()
            if len(out.concrete) + len(out.diffs) > 50:
                break
    flush()
    return out


class FalsyRes(tuple):
    def __bool__(self):
        return False


def unhashable(out):
    from aiuti.asyncio import threadsafe_async_cache
    for bad in ([1], {'a': 1}, {1}):
        store = {}
        inv = []

        async def f(*a, **k):
            inv.append(1)
            return 0
        g = threadsafe_async_cache(f, cache=store)
        out.evaluations += 1
        for args, kwargs in (((bad,), {}), ((), {'x': bad})):
            loop = asyncio.new_event_loop()
            try:
                try:
                    loop.run_until_complete(g(*args, **kwargs))
                    res = 'returned'
                except TypeError:
                    res = 'TypeError'
                except BaseException as e:  # noqa
                    res = type(e).__name__
            finally:
                loop.close()
            if res != 'TypeError' or inv or store:
                out.concrete.append({'case': {'unhashable': repr(bad)},
                                     'what': f'unhashable argument: {res}, invocations {len(inv)}, store {store!r} '
                                             '(expected TypeError before any state change)',
                                     'signature': {'kind': 'unhashable'}})
    out.count('unhashable-probes', 6)


def two_functions_case(form):
    """Two different functions decorated without a mapping of their own choice - bare, by two factory calls, or by ONE
    factory result applied to both - and called with equal arguments: each must get what *it* computes."""
    from aiuti.asyncio import threadsafe_async_cache
    inv = []

    async def square(x, k=0):
        inv.append(('square', x, k))
        return ('square', x * x + k)

    async def double(x, k=0):
        inv.append(('double', x, k))
        return ('double', 2 * x + k)
    if form == 'bare':
        sq, db = threadsafe_async_cache(square), threadsafe_async_cache(double)
    elif form == 'factory-each':
        sq, db = threadsafe_async_cache()(square), threadsafe_async_cache()(double)
    else:
        deco = threadsafe_async_cache()
        sq, db = deco(square), deco(double)
    calls = [(sq, 'square', 3, {}), (db, 'double', 3, {}), (db, 'double', 4, {'k': 1}), (sq, 'square', 4, {'k': 1}),
             (sq, 'square', 3, {}), (db, 'double', 3, {})]
    got = []
    loop = asyncio.new_event_loop()
    try:
        for g, _, x, kw in calls:
            try:
                got.append(loop.run_until_complete(g(x, **kw)))
            except BaseException as e:  # noqa
                got.append(('raised', repr(e)))
    finally:
        loop.close()
    want = [(n, (x * x if n == 'square' else 2 * x) + kw.get('k', 0)) for _, n, x, kw in calls]
    if got != want:
        return f'two functions decorated through form {form!r} and called with equal arguments: results {got!r}, ' \
               f'each function computes {want!r} (invocations {inv!r})'
    if sorted(inv) != sorted(set(inv)) or len(inv) != 4:
        return f'two functions decorated through form {form!r}: invocations {inv!r}, expected one per function and key (4)'
    return None


def two_functions(out):
    for form in ('bare', 'factory-each', 'factory-shared'):
        out.evaluations += 1
        msg = two_functions_case(form)
        if msg:
            out.concrete.append({'case': {'twofunc': form}, 'what': msg, 'signature': {'kind': 'two-functions', 'form': form}})
    out.count('two-function-probes', 3)


# ------------------------------------------------------------------ the mapping is the only store, also after concurrent use
def gen_conc(rng):
    """One key: a computing call with 0..3 concurrent waiters of which some are cancelled while they wait (or
    after the value arrived), the computation succeeding or failing; afterwards evictions and calls in any order."""
    nw = rng.randint(0, 3)
    return {'conc': True, 'dur': rng.choice([1, 4]), 'fail_first': rng.random() < 0.25,
            'waiters': [{'start': rng.choice([0, 1, 2]), 'cancel_at': rng.choice([None, None, 1, 2, 3, 9])}
                        for _ in range(nw)],
            'tail': [rng.choice(['call', 'call', 'evict', 'clear']) for _ in range(rng.randint(2, 7))],
            'lru': rng.random() < 0.3}


def run_conc(case):
    """Virtual-time run on one loop. Returns (log of tail steps, violations)."""
    from aiuti.asyncio import threadsafe_async_cache
    from ..core.vtime import VLoop, TICK
    store = collections.OrderedDict()
    inv = []

    async def f(x):
        n = len(inv)
        inv.append(n)
        await asyncio.sleep(case['dur'] * TICK)
        if case['fail_first'] and n == 0:
            raise RuntimeError('scripted failure')
        return ('value', n)
    g = threadsafe_async_cache(f, cache=store)
    loop = VLoop()
    asyncio.set_event_loop(loop)
    bad = []
    log = []

    async def waiter(w):
        await asyncio.sleep(w['start'] * TICK)
        try:
            return await g(7)
        except RuntimeError:
            return 'failed'

    async def main():
        first = asyncio.ensure_future(waiter({'start': 0}))
        ws = []
        for w in case['waiters']:
            t = asyncio.ensure_future(waiter(w))
            ws.append(t)
            if w['cancel_at'] is not None:
                loop.call_later(w['cancel_at'] * TICK, t.cancel)
        await asyncio.wait([first] + ws)
        await asyncio.sleep(20 * TICK)
        # from here on sequential: the supplied mapping must be the only store
        for step in case['tail']:
            if step == 'evict':
                for k in list(store):
                    del store[k]
                    break
                log.append('evict')
            elif step == 'clear':
                store.clear()
                log.append('clear')
            else:
                n0 = len(inv)
                had = len(store) > 0
                try:
                    r = await g(7)
                except RuntimeError:
                    r = 'failed'
                dn = len(inv) - n0
                log.append(('call', had, dn, r))
                if had and dn != 0:
                    bad.append(f'the mapping held the entry, yet the call invoked the function {dn} time(s)')
                if not had and dn != 1:
                    bad.append(f'the entry was not in the supplied mapping (evicted / never stored), yet the call '
                               f'invoked the function {dn} time(s) instead of exactly once and returned {r!r}')
                if not had and dn == 1 and r != 'failed' and r != ('value', n0):
                    bad.append(f'after an eviction the call returned {r!r}, not the value of its own recomputation')
                if r != 'failed' and len(store) != 1:
                    bad.append(f'after a successful call the supplied mapping holds {len(store)} entries')
    try:
        loop.run_until_complete(main())
    finally:
        loop.close()
        asyncio.set_event_loop(None)
    return log, bad


def _chunk_conc(payload):
    logging.disable(logging.CRITICAL)
    seed, count = payload
    out = Outcome()
    for i in range(count):
        rng = rng_for(seed, 'c14conc', i)
        case = gen_conc(rng)
        mark(case)
        out.evaluations += 1
        log, bad = run_conc(case)
        out.traces_validated += 1
        out.fingerprints.add(fingerprint(case))
        out.count('concurrent-prelude:waiters=%d' % len(case['waiters']))
        for b in bad[:1]:
            out.concrete.append({'case': case, 'what': b, 'observed': log, 'signature': {'kind': 'second-store'}})
    return out


def _dispatch(payload):
    if payload[0] == 'conc':
        return _chunk_conc(payload[1:])
    return _chunk(payload)


def run(ctx):
    nparts = 4 if ctx.quick else ctx.workers
    return run_chunks(_dispatch, [(ctx.quick, ctx.seed, k, nparts) for k in range(nparts)] +
                      [('conc', ctx.seed * 100 + k, 150 if ctx.quick else 5000) for k in range(nparts)], nparts,
                      limit_s=240 if ctx.quick else 2400)


def search(ctx, outcome):
    return Outcome()


def replay(ctx, payload):
    case = payload.get('case') or (payload.get('first_differing_case') or {}).get('case')
    if case.get('twofunc'):
        msg = two_functions_case(case['twofunc'])
        return {'case': case, 'monitor': msg, 'fails': bool(msg)}
    if case.get('conc'):
        log, bad = run_conc(case)
        return {'case': case, 'tail': log, 'monitor': bad, 'fails': bool(bad)}

    def fix(s):
        return ([tuple(a) for a in s[0]], [(n, tuple(cv)) for n, cv in s[1]])
    case['ops'] = [(o[0], fix(o[1])) for o in case['ops']]
    ops_model, rets, inv = run_impl(case)
    a = ctx.driver.ask(['ckey ops=' + ';'.join(ops_model)])[0]
    msg = monitor(case, rets, inv)
    return {'case': case, 'rets': rets, 'invocations': len(inv), 'model': a, 'monitor': msg, 'fails': bool(msg)}
