"""C05 — see DESIGN.md §5 (Cache component)."""
from . import _cache

ID = 'C05'
MODULE = _cache.MODULE
LEAN_SUBDIRS = _cache.LEAN_SUBDIRS
THEOREMS = ['AiutiVerif.Cache.LTS.C05_never_stuck', 'AiutiVerif.Cache.LTS.C05_moves_make_progress',
            'AiutiVerif.Cache.LTS.C05_no_lost_wakeup','AiutiVerif.Cache.LTS.C05_lock_holder_enabled','AiutiVerif.Cache.LTS.C05_waiter_wakeable','AiutiVerif.Cache.LTS.C05_publisher_enabled','AiutiVerif.Cache.LTS.C05_waits_on_owners_event','AiutiVerif.Cache.LTS.inv_step']
ASSUMPTIONS = list(_cache.ASSUMPTIONS_COMMON)
RULE = ('2..4 threads each running its own event loop with 1..3 callers over 1..2 keys; call delays and computation '
        'durations from {0, 1, 5, 70, 130} virtual seconds (zero-duration computations and the 60 s safety timer occur), '
        'invocations that succeed or raise, client cancellations at {2, 61, 100} s, default dict and a 1-entry LRU '
        'mapping, loop life-cycle scripts (run to completion / main returns early leaving callers pending, gap, '
        'asyncio.run-style cancel-all, close / close without shutdown); real threads and loops under the baton scheduler '
        'with a schedule point at every access to the cache mapping, the in-flight table, the lock, loop-state reads and '
        'event.set (random and PCT schedules); every execution\'s observation trace is replayed on the Lean LTS (program '
        'counter and observed values must agree) and an independent monitor judges the real execution; '
        'distinct = distinct (scenario, schedule)')
run, search, replay = _cache.make('C05', 1200, 80000, 0.35)
