"""Common body of the four batcher checks (C04, C09, C10, C11)."""
import logging
import random

from ..core import lean
from ..core.common import Outcome, fingerprint
from ..core.par import run_chunks, mark
from ..comp import batcher as B

MODULE = 'AiutiVerif.Batcher.Props'
LEAN_SUBDIRS = ['AiutiVerif/Batcher', 'AiutiVerif/Core', 'Driver.lean']
ASSUMPTIONS_COMMON = [
    'asyncio semantics assumed by Batcher/Model.lean: callbacks are atomic between awaits; Queue.get/put and '
    'wait_for(q.get(), t) leave an un-taken item in the queue on time-out; asyncio.Semaphore wakes waiters FIFO; '
    'future done-callbacks run in registration order at the instant of completion; shield detaches the outer '
    'cancellation; call_later timers fire at their exact virtual time',
    'exact ties between an input and a timer are not judged (the model flags them)',
]


def _chunk(args):
    prop, flavor, seed0, count, want_cross = args
    logging.disable(logging.CRITICAL)
    out = Outcome()
    drv = lean.Driver()
    cases = []
    for i in range(count):
        rng = random.Random((seed0 << 20) + i)
        fl = flavor if (not want_cross or i % 5) else rng.choice(['c04', 'c10', 'c11', 'c09'])
        cases.append((fl,) + B.gen(rng, fl))
    answers = drv.ask([B.model_line(c[1], c[2], c[3]) for c in cases])
    for (fl, cfg, ins, plan), ans in zip(cases, answers):
        out.evaluations += 1
        mark({'cfg': cfg, 'ins': ins, 'plan': plan, 'flavor': fl})
        try:
            evs = B.run_real(cfg, ins, plan)
        except Exception as e:  # the real code blew up under the harness
            out.concrete.append({'case': {'cfg': cfg, 'ins': ins, 'plan': plan},
                                 'what': f'execution failed: {type(e).__name__}: {e}',
                                 'signature': {'kind': 'exception', 'type': type(e).__name__}})
            continue
        case = {'cfg': cfg, 'ins': ins, 'plan': plan, 'flavor': fl}
        try:
            tie, mev, mpend = B.parse_model(ans)
        except B.ModelOutOfFuel as e:
            out.diffs.append({'case': case, 'impl': None, 'model': str(e),
                              'where': 'the batcher machine ran out of fuel on this program (`programDone` is false)'})
            continue
        if tie:
            # not compared with the model (it does not order an input and an internal event of the same instant), but
            # what does not depend on that order is still judged
            out.count('ties-judged-by-order-free-monitors-only')
            for (p, kind, detail) in B.monitors(cfg, ins, evs, {prop}, timing=False):
                out.concrete.append({'case': case, 'what': f'{kind}: {detail} (an input coincided with an internal '
                                                            f'event: judged by the order-free monitors only)',
                                     'observed': B.canon(evs), 'signature': {'kind': kind}})
            continue
        for (p, kind, detail) in B.monitors(cfg, ins, evs, {prop}):
            out.concrete.append({'case': case, 'what': f'{kind}: {detail}', 'observed': B.canon(evs),
                                 'signature': {'kind': kind}})
        out.traces_validated += 1
        rp = sorted(e[1] for e in evs if e[0] == 'pending')
        if B.project(evs, prop) != B.project(mev, prop) or rp != sorted(mpend):
            out.diffs.append({'case': case, 'impl': B.canon(evs), 'model': B.canon(mev),
                              'where': f'batcher events projected on {prop}', 'impl_pending': rp,
                              'model_pending': mpend})
        ncalls = sum(1 for i in ins if i[0] == 'c')
        if ncalls >= 2:
            out.fingerprints.add(fingerprint(case))
        out.count('flavor:' + fl)
        out.count('batches', sum(1 for e in evs if e[0] == 'batch'))
        for e in evs:
            if e[0] == 'done':
                o = e[3]
                c = o[1] if len(o) > 1 else None
                out.count('outcome:' + (o[0] if o[0] != 'exc' else
                                        'exc-' + (str(c) if not isinstance(c, int) else
                                                  'KeyError' if c == 1 else 'Missing' if c == 2 else
                                                  'raised' if 1000 <= c < 2000 else 'yielded')))
        if any(i[0] == 'x' for i in ins):
            out.count('programs-with-cancel')
        if any(i[0] == 'm' for i in ins):
            out.count('programs-with-setmax')
        if len(out.samples) < 2 and ncalls >= 4:
            out.sample({'case': case, 'impl': B.canon(evs)[:12]})
    return out


def _chunk_chain(args):
    """C11: callers that re-request their key in the very step in which they are answered (monitor only)."""
    prop, seed0, count = args
    logging.disable(logging.CRITICAL)
    out = Outcome()
    for i in range(count):
        rng = random.Random((seed0 << 20) + 700000 + i)
        cfg, callers, plan = B.gen_chain(rng)
        case = {'chain': True, 'cfg': cfg, 'callers': callers, 'plan': plan}
        mark(case)
        out.evaluations += 1
        res, batches = B.run_chain(cfg, callers, plan)
        for (p, kind, detail) in B.monitor_chain(cfg, callers, res, batches):
            out.concrete.append({'case': case, 'what': f'{kind}: {detail}', 'observed': [res, batches],
                                 'signature': {'kind': kind}})
        out.traces_validated += 1
        out.fingerprints.add(fingerprint(case))
        out.count('chain:ret=%d' % cfg['ret'])
        out.count('chain:requests', sum(len(v) for v in res.values()))
    return out


def _chunk_idle(args):
    """C11: the retention window across a phase in which the loop does not run its timers (monitor only)."""
    prop, seed0, count = args
    logging.disable(logging.CRITICAL)
    out = Outcome()
    for i in range(count):
        rng = random.Random((seed0 << 20) + 750000 + i)
        cfg = B.gen_idle(rng)
        case = {'idle': True, 'cfg': cfg}
        mark(case)
        out.evaluations += 1
        try:
            res, batches, t_done = B.run_idle(cfg)
        except Exception as e:
            out.concrete.append({'case': case, 'what': f'execution failed: {type(e).__name__}: {e}',
                                 'signature': {'kind': 'exception', 'type': type(e).__name__}})
            continue
        for (p, kind, detail) in B.monitor_idle(cfg, res, batches, t_done):
            out.concrete.append({'case': case, 'what': f'{kind}: {detail}', 'observed': [repr(res), batches],
                                 'signature': {'kind': kind}})
        out.traces_validated += 1
        out.fingerprints.add(fingerprint(case))
        out.count('idle:' + cfg['how'])
        out.count('idle:%s-window' % ('inside' if cfg['idle'] < cfg['ret'] else 'beyond'))
    return out


def _chunk_variant(args):
    """C09: the real code on the two programs the theorem C09_cancellations_invisible compares."""
    prop, seed0, count = args
    logging.disable(logging.CRITICAL)
    out = Outcome()
    for i in range(count):
        rng = random.Random((seed0 << 20) + 800000 + i)
        cfg, calls, plan, pick = B.gen_variant(rng)
        case = {'variant': True, 'cfg': cfg, 'calls': calls, 'plan': plan, 'pick': pick}
        mark(case)
        out.evaluations += 1
        xs, a, b = B.run_variant(cfg, calls, plan, pick)
        for (p, kind, detail) in B.monitor_variant(calls, xs, a, b):
            out.concrete.append({'case': case, 'what': f'{kind}: {detail}', 'observed': [B.canon(a), B.canon(b)],
                                 'signature': {'kind': kind}})
        out.traces_validated += 1
        out.fingerprints.add(fingerprint(case))
        out.count('variant:programs')
        done_b = {e[2]: e[1] for e in b if e[0] == 'done'}
        for x in xs:
            out.count('variant:cancel-at-answer-instant' if done_b.get(x[2]) == x[1] else 'variant:cancel-elsewhere')
    return out


def _chunk_cleanup(args):
    """C10: executions that take time to wind up (monitor only)."""
    prop, seed0, count = args
    logging.disable(logging.CRITICAL)
    out = Outcome()
    for i in range(count):
        rng = random.Random((seed0 << 20) + 900000 + i)
        cfg, ins, plan = B.gen_cleanup(rng)
        case = {'cleanup': True, 'cfg': cfg, 'ins': ins, 'plan': plan}
        mark(case)
        out.evaluations += 1
        evs = B.run_real(cfg, ins, plan)
        for (p, kind, detail) in B.monitor_cleanup(cfg, evs):
            out.concrete.append({'case': case, 'what': f'{kind}: {detail}', 'observed': B.canon(evs),
                                 'signature': {'kind': kind}})
        out.traces_validated += 1
        out.fingerprints.add(fingerprint(case))
        out.count('cleanup:programs')
    return out


def _chunk_race(args):
    """C10: arrivals coinciding with batch ends, a few loop iterations apart (order-free monitors only)."""
    prop, seed0, count = args
    logging.disable(logging.CRITICAL)
    out = Outcome()
    for i in range(count):
        rng = random.Random((seed0 << 20) + 700000 + i)
        cfg, ins, plan = B.gen_race(rng)
        case = {'race': True, 'cfg': cfg, 'ins': ins, 'plan': plan}
        mark(case)
        out.evaluations += 1
        evs = B.run_real(cfg, ins, plan)
        for (p, kind, detail) in B.monitors(cfg, ins, evs, {prop}, timing=False):
            out.concrete.append({'case': case, 'what': f'{kind}: {detail}', 'observed': B.canon(evs),
                                 'signature': {'kind': kind}})
        out.traces_validated += 1
        out.fingerprints.add(fingerprint(case))
        out.count('race:programs')
    return out


def _dispatch(args):
    if args[0] == 'race':
        return _chunk_race(args[1:])
    if args[0] == 'cleanup':
        return _chunk_cleanup(args[1:])
    if args[0] == 'chain':
        return _chunk_chain(args[1:])
    if args[0] == 'idle':
        return _chunk_idle(args[1:])
    if args[0] == 'variant':
        return _chunk_variant(args[1:])
    return _chunk(args)


def make(prop, flavor, quick_n, thorough_n):
    def run(ctx):
        n = quick_n if ctx.quick else thorough_n
        workers = 4 if ctx.quick else ctx.workers
        per = max(1, n // (workers * 2))
        chunks = [(prop, flavor, ctx.seed * 1000 + k, per, True) for k in range(max(1, n // per))]
        if prop == 'C11':
            chunks += [('chain', prop, ctx.seed * 1000 + k, 100 if ctx.quick else 3000) for k in range(workers)]
            chunks += [('idle', prop, ctx.seed * 1000 + k, 120 if ctx.quick else 3000) for k in range(workers)]
        if prop == 'C09':
            chunks += [('variant', prop, ctx.seed * 1000 + k, 100 if ctx.quick else 3000) for k in range(workers)]
        if prop == 'C10':
            chunks += [('cleanup', prop, ctx.seed * 1000 + k, 100 if ctx.quick else 3000) for k in range(workers)]
            chunks += [('race', prop, ctx.seed * 1000 + k, 150 if ctx.quick else 4000) for k in range(workers)]
        return run_chunks(_dispatch, chunks, workers, limit_s=60 if ctx.quick else 900)

    def search(ctx, outcome):
        # more programs of the property's own flavour, monitor on every one
        chunks = [(prop, flavor, (ctx.seed + 7) * 1000 + 500 + k, 400, False) for k in range(8)]
        if prop == 'C11':
            chunks += [('chain', prop, (ctx.seed + 7) * 1000 + 600 + k, 300) for k in range(4)]
            chunks += [('idle', prop, (ctx.seed + 7) * 1000 + 600 + k, 300) for k in range(4)]
        if prop == 'C09':
            chunks += [('variant', prop, (ctx.seed + 7) * 1000 + 600 + k, 300) for k in range(4)]
        out = run_chunks(_dispatch, chunks, ctx.workers, limit_s=60)
        out.diffs = []
        return out

    def replay(ctx, payload):
        case = payload.get('case') or (payload.get('first_differing_case') or {}).get('case')
        if case.get('chain'):
            res, batches = B.run_chain(case['cfg'], case['callers'], case['plan'])
            bad = B.monitor_chain(case['cfg'], case['callers'], res, batches)
            return {'case': case, 'requests': {str(k): v for k, v in res.items()}, 'batches': batches,
                    'monitor': bad, 'fails': bool(bad)}
        if case.get('idle'):
            res, batches, t_done = B.run_idle(case['cfg'])
            bad = B.monitor_idle(case['cfg'], res, batches, t_done)
            return {'case': case, 'results': repr(res), 'batches': batches, 'monitor': [list(map(str, b)) for b in bad],
                    'fails': bool(bad)}
        if case.get('race'):
            ins = [tuple(i) for i in case['ins']]
            evs = B.run_real(case['cfg'], ins, case['plan'])
            bad = B.monitors(case['cfg'], ins, evs, {prop}, timing=False)
            return {'case': case, 'events': B.canon(evs), 'monitor': [list(map(str, b)) for b in bad], 'fails': bool(bad)}
        if case.get('cleanup'):
            ins = [tuple(i) for i in case['ins']]
            evs = B.run_real(case['cfg'], ins, case['plan'])
            bad = B.monitor_cleanup(case['cfg'], evs)
            return {'case': case, 'impl': B.canon(evs), 'monitor': bad, 'fails': bool(bad)}
        if case.get('variant'):
            calls = [tuple(i) for i in case['calls']]
            xs, a, b = B.run_variant(case['cfg'], calls, case['plan'], case['pick'])
            bad = B.monitor_variant(calls, xs, a, b)
            return {'case': case, 'cancellations': xs, 'with': B.canon(a), 'without': B.canon(b),
                    'monitor': bad, 'fails': bool(bad)}
        cfg, plan = case['cfg'], case['plan']
        ins = [tuple(i) for i in case['ins']]
        evs = B.run_real(cfg, ins, plan)
        ans = ctx.driver.ask([B.model_line(cfg, ins, plan)])[0]
        bad = B.monitors(cfg, ins, evs, {prop})
        return {'case': case, 'impl': B.canon(evs), 'model': ans, 'monitor': bad, 'fails': bool(bad)}
    return run, search, replay
