"""C09 — see DESIGN.md §5 (Batcher component)."""
from . import _batcher

ID = 'C09'
MODULE = _batcher.MODULE
LEAN_SUBDIRS = _batcher.LEAN_SUBDIRS
THEOREMS = ['AiutiVerif.Batcher.C09_cancellations_invisible','AiutiVerif.Batcher.C09_cancellations_invisible_prefix','AiutiVerif.Batcher.strip_runProgram','AiutiVerif.Batcher.C09_cancel_touches_only_the_caller','AiutiVerif.Batcher.C04_outcome']
ASSUMPTIONS = list(_batcher.ASSUMPTIONS_COMMON)
RULE = ('timed programs of up to 10 calls in which any subset of callers is cancelled at offsets covering queued / batch running before its result / after its result, shared and distinct keys, any result order, retention 0 and >0, followed by fresh calls; every program runs on the real AsyncBackgroundBatcher under a virtual clock and on the Lean '
        'machine, the event streams are compared on the components this property mentions, and an independent '
        'monitor judges the real execution; one program in five is drawn from the other batcher flavours; '
        'distinct = distinct (config, inputs, plan) with at least two calls')
run, search, replay = _batcher.make('C09', 'c09', 1600, 60000)
