"""C02 — FileLock gives mutual exclusion across threads, objects and processes."""
import logging
import os
import random
import subprocess
import sys
import time

from ..core import lean
from ..core.common import Outcome, fingerprint, REPO
from ..core.par import run_chunks, mark
from ..comp import filelock as F

ID = 'C02'
MODULE = 'AiutiVerif.FileLock.SmallProps'
LEAN_SUBDIRS = ['AiutiVerif/FileLock', 'AiutiVerif/Core', 'Driver.lean']
THEOREMS = [
    'AiutiVerif.FileLock.Small.C02_mutex',
    'AiutiVerif.FileLock.Small.C02_success_is_hold',
    'AiutiVerif.FileLock.Small.inv_step',
    'AiutiVerif.FileLock.Small.inv_init',
]
ASSUMPTIONS = [
    'kernel flock contract (per open file description, exclusive, dropped on close / process death): assumed by the '
    'model; the threaded runs use the real kernel and the multi-process soak validates it across processes',
    'object fields (_lock_counter, _lock_file_fd) are written only while the object\'s thread lock is held, so the '
    'model folds their updates into the adjacent atomic step (well-formed clients: release only what you hold)',
    'threading.Lock/RLock are replaced by a cooperative lock with schedule points (same contract)',
]
RULE = ('2..4 threads over 1..2 FileLock objects on one real lock file, 1..3 rounds each through acquire() blocking / '
        'non-blocking / timed, acquire_ctx(), the with-statement, nested reentrant acquires with plain or forced '
        'release; real threads under the baton scheduler with a schedule point at every thread-lock, os.open, flock, '
        'os.close, sleep and critical-section step; random-walk and PCT (d<=3) schedules; every execution\'s label '
        'trace is replayed on the Lean small-step model and an occupancy monitor watches the critical section; plus '
        'free-running OS processes with an O_EXCL marker as overlap detector; distinct = distinct (scenario, schedule)')

SOAK = r'''
import os, sys, time, random, errno, signal
stop = [False]
signal.signal(signal.SIGTERM, lambda *a: stop.__setitem__(0, True))
sys.path.insert(0, sys.argv[1])
from aiuti.filelock import FileLock
path, marker, dur, seed = sys.argv[2], sys.argv[3], float(sys.argv[4]), int(sys.argv[5])
rng = random.Random(seed)
locks = [FileLock(path, reentrant=bool(seed % 2)), FileLock(path)]
end = time.time() + dur
rounds = overlaps = 0
while time.time() < end and not stop[0]:
    l = rng.choice(locks)
    mode = rng.randrange(3)
    ok = l.acquire() if mode == 0 else l.acquire(blocking=False) if mode == 1 else l.acquire(timeout=0.02, poll_interval=0.002)
    if not ok:
        continue
    try:
        try:
            fd = os.open(marker, os.O_CREAT | os.O_EXCL | os.O_WRONLY)
        except OSError as e:
            if e.errno == errno.EEXIST:
                overlaps += 1
                continue
            raise
        rounds += 1
        if rng.random() < 0.3:
            time.sleep(0.0005)
        os.close(fd)
        os.unlink(marker)
    finally:
        l.release()
print(rounds, overlaps)
'''


def soak(out, nproc, dur, seed):
    work = F.mkworkdir()
    try:
        path = os.path.join(work, 'soak.lock')
        marker = os.path.join(work, 'marker')
        ps = [subprocess.Popen([sys.executable, '-c', SOAK, REPO, path, marker, str(dur), str(seed * 100 + k)],
                               stdout=subprocess.PIPE, stderr=subprocess.PIPE, text=True) for k in range(nproc)]
        rounds = overlaps = 0
        for p in ps:
            try:
                so, se = p.communicate(timeout=dur + 60)
            except subprocess.TimeoutExpired:
                p.kill()
                out.concrete.append({'case': {'part': 'soak', 'processes': nproc},
                                     'what': 'a contender process never finished (lock stuck)',
                                     'signature': {'kind': 'hang', 'part': 'processes'}})
                continue
            if p.returncode != 0:
                out.concrete.append({'case': {'part': 'soak', 'processes': nproc, 'stderr': se[-400:]},
                                     'what': 'a contender process failed: ' + se.strip().splitlines()[-1][:200] if se.strip() else 'failed',
                                     'signature': {'kind': 'exception', 'part': 'processes'}})
                continue
            r, o = map(int, so.split())
            rounds += r
            overlaps += o
        out.evaluations += 1
        out.count('soak-rounds', rounds)
        out.extra['soak'] = {'processes': nproc, 'seconds': dur, 'critical_sections': rounds, 'overlaps': overlaps}
        if overlaps:
            out.concrete.append({'case': {'part': 'soak', 'processes': nproc, 'seconds': dur},
                                 'what': f'{overlaps} overlapping critical sections among {nproc} processes '
                                         f'({rounds} sections in all)',
                                 'signature': {'kind': 'overlap', 'part': 'processes'}})
    finally:
        F.rmworkdir(work)


def _chunk(payload):
    logging.disable(logging.CRITICAL)
    seed0, count, _ = payload
    out = Outcome()
    drv = lean.Driver()
    work = F.mkworkdir()
    try:
        runs = []
        for i in range(count):
            rng = random.Random((seed0 << 20) + i)
            scn = F.gen_threads(rng)
            pct = rng.choice([0, 0, 1, 2, 3])
            case = {'scenario': scn, 'seed': (seed0 << 20) + i, 'pct': pct}
            mark(case)
            out.evaluations += 1
            r = F.run_threads(scn, case['seed'], work, pct=pct)
            case['schedule'] = r['trace']
            runs.append((case, r))
            if r['maxocc'] > 1:
                out.concrete.append({'case': case, 'what': f'{r["maxocc"]} threads inside the critical section at once '
                                     f'(threads {r["overlaps"]})', 'observed': r['labels'][-30:],
                                     'signature': {'kind': 'overlap', 'part': 'threads'}})
            if r['hung']:
                out.concrete.append({'case': case, 'what': f'deadlock / hang: {r["hung"]}', 'observed': r['labels'][-30:],
                                     'signature': {'kind': 'hang', 'part': 'threads'}})
            if r['errors']:
                out.concrete.append({'case': case, 'what': f'exception in a contender: {r["errors"][:2]}',
                                     'observed': r['labels'][-30:], 'signature': {'kind': 'exception', 'part': 'threads'}})
            if any(r['still_locked']) and not r['hung']:
                out.concrete.append({'case': case, 'what': 'an object still reports is_locked after every thread released',
                                     'signature': {'kind': 'residue', 'part': 'threads'}})
            out.fingerprints.add(fingerprint((scn, r['trace'])))
            out.count('threads:%d' % len(scn['scripts']))
            out.count('objects:%d' % len(scn['reent']))
            out.count('labels', len(r['labels']))
            for l in r['labels']:
                out.count('label:' + l.split(':')[0])
            if len(out.samples) < 1 and len(r['labels']) > 30:
                out.sample({'scenario': scn, 'labels': r['labels'][:40]})
        answers = drv.ask([F.small_model_line(c['scenario'], r['labels']) for c, r in runs])
        for (case, r), a in zip(runs, answers):
            out.traces_validated += 1
            if a != 'ok':
                k = int(a.split()[1]) if a.startswith('reject') else -1
                out.diffs.append({'case': case, 'impl': r['labels'][max(0, k - 8):k + 1], 'model': a,
                                  'where': f'label {k} of the recorded trace is not a step of the small-step model'})
    finally:
        F.rmworkdir(work)
    return out


FORKED = r"""
import sys, os, time
sys.path.insert(0, sys.argv[1])
from aiuti.filelock import FileLock
path, reent = sys.argv[2], sys.argv[3] == '1'
lock = FileLock(path, reentrant=reent)
lock.acquire()                       # the parent holds the lock ...
r, w = os.pipe()
pid = os.fork()
if pid == 0:                         # ... a forked child inherits the object (and its descriptor)
    os.close(r)
    got = lock.acquire(timeout=0.3, poll_interval=0.01)
    os.write(w, b'1' if got else b'0')
    os._exit(0)
os.close(w)
ans = os.read(r, 1)
os.waitpid(pid, 0)
still = FileLock(path).acquire(blocking=False)    # an independent object confirms the parent really holds it
print(ans.decode(), int(bool(still)))
lock.release()
"""


def forked_child(out):
    """A child forked while the parent holds the lock uses the inherited object: its acquire must not succeed while
    the parent is still inside (the two are different processes)."""
    for reent in (False, True):
        work = F.mkworkdir()
        case = {'part': 'forked-child', 'reentrant': reent}
        mark(case)
        out.evaluations += 1
        try:
            p = subprocess.run([sys.executable, '-c', FORKED, REPO, os.path.join(work, 'f.lock'), '1' if reent else '0'],
                               stdin=subprocess.DEVNULL, stdout=subprocess.PIPE, stderr=subprocess.PIPE, text=True,
                               timeout=60)
            got = p.stdout.split()
            if p.returncode != 0 or len(got) != 2:
                out.concrete.append({'case': dict(case, stderr=p.stderr[-400:]), 'what': 'the forked-child scenario failed '
                                     f'to run (exit {p.returncode})', 'signature': {'kind': 'exception', 'part': 'forked-child'}})
                continue
            if got[0] == '1' and got[1] == '0':
                out.concrete.append({'case': case, 'what': 'a child process forked while its parent held the lock called '
                                     'acquire() on the inherited FileLock object and was told True although the parent '
                                     'still held the lock (an independent object could not get it): two holders',
                                     'signature': {'kind': 'overlap', 'part': 'forked-child'}})
            out.traces_validated += 1
            out.fingerprints.add(fingerprint(case))
            out.count('forked-child')
        except subprocess.TimeoutExpired:
            out.concrete.append({'case': case, 'what': 'the forked-child scenario hung', 'signature':
                                 {'kind': 'hang', 'part': 'forked-child'}})
        finally:
            F.rmworkdir(work)


def run(ctx):
    n = 2400 if ctx.quick else 120000
    k = 4 if ctx.quick else ctx.workers
    per = n // (k * 2)
    out = run_chunks(_chunk, [(ctx.seed * 1000 + j, per, 0) for j in range(k * 2)], k,
                     limit_s=90 if ctx.quick else 1500)
    soak(out, 4 if ctx.quick else 16, 1.0 if ctx.quick else 60.0, ctx.seed)
    forked_child(out)
    return out


def search(ctx, outcome):
    out = run_chunks(_chunk, [((ctx.seed + 13) * 1000 + j, 600, 0) for j in range(8)], ctx.workers, limit_s=120)
    out.diffs = []
    return out


def replay(ctx, payload):
    case = payload.get('case') or (payload.get('first_differing_case') or {}).get('case')
    scn = case['scenario']
    scn = {'reent': scn['reent'], 'scripts': [[tuple(r) for r in s] for s in scn['scripts']]}
    work = F.mkworkdir()
    try:
        r = F.run_threads(scn, case['seed'], work, choices=case.get('schedule'), pct=0)
    finally:
        F.rmworkdir(work)
    a = ctx.driver.ask([F.small_model_line(scn, r['labels'])])[0]
    return {'case': case, 'maxocc': r['maxocc'], 'hung': r['hung'], 'errors': r['errors'], 'model': a,
            'labels': r['labels'], 'fails': r['maxocc'] > 1 or bool(r['hung']) or bool(r['errors'])}
