#!/venv/bin/python
"""Entry point of every check:  check.py <Cxx> [--tier quick|thorough] [--replay FILE]

Verdict logic (DESIGN.md §2.4), the same for every property:
 1. lake build of the property's theorem module and of the model driver
 2. audit: forbidden tokens, `#print axioms` of every theorem the property names
 3. corpus + generated cases on the real code (/repo working tree) and on the Lean model:
      monitor fails on a real execution       -> concrete violation (replay = that case)
      model and implementation differ         -> correspondence broken
 4. if 1/2/3b happened and there is no concrete violation yet: directed search on the real code
 5. report: VIOLATION lines (exit 1), KNOWN-FINDING lines (exit 0), or nothing (exit 0);
    harness errors exit 2 and never print a VIOLATION line.
"""
import argparse
import logging
import warnings
import importlib
import json
import os
import sys
import traceback

HERE = os.path.dirname(os.path.abspath(__file__))
sys.path.insert(0, os.path.dirname(HERE))

from harness.core import common, lean, scenarios  # noqa: E402
from harness.core.common import InternalError, Outcome  # noqa: E402
from harness.core.attach import AttachError  # noqa: E402


class Ctx:
    def __init__(self, prop, tier, seed, driver):
        self.prop = prop
        self.tier = tier
        self.seed = seed
        self.driver = driver
        self.quick = tier == 'quick'
        self.workers = min(os.cpu_count() or 4, 16)
        self.clock = common.Clock()


def first_error(log):
    for line in log.splitlines():
        if 'error' in line.lower():
            return line.strip()[:300]
    return log.strip()[-300:]


def main(argv=None):
    logging.disable(logging.CRITICAL)      # aiuti logs every retried failure; asyncio logs dropped tasks
    warnings.simplefilter('ignore')
    ap = argparse.ArgumentParser()
    ap.add_argument('prop')
    ap.add_argument('--tier', default=os.environ.get('VERIF_TIER', 'quick'),
                    choices=['quick', 'thorough'])
    ap.add_argument('--replay')
    args = ap.parse_args(argv)
    prop = args.prop.upper()
    try:
        return run_check(prop, args.tier, args.replay)
    except InternalError as e:
        print(f'INTERNAL-ERROR property={prop}: {e}', file=sys.stderr)
        return 2
    except Exception:  # harness bug: never a violation
        traceback.print_exc()
        print(f'INTERNAL-ERROR property={prop}: unexpected exception in the harness', file=sys.stderr)
        return 2


def run_check(prop, tier, replay_file):
    mod = importlib.import_module(f'harness.props.{prop.lower()}')
    seed = common.seed_from_env()
    clock = common.Clock()
    common.import_aiuti()
    broken = []          # proof obligations / ties that no longer check
    notes = []

    pre = getattr(mod, 'pre_build', None)   # e.g. regenerate model data from the source (Tie B)
    if pre is not None:
        for msg in pre() or []:
            broken.append(msg)

    # 1. build
    ok_drv, log_drv = lean.build(['driver'])
    if not ok_drv:
        raise InternalError('model driver does not build: ' + first_error(log_drv))
    ok_thm, log_thm = lean.build([mod.MODULE])
    if not ok_thm:
        broken.append(f'theorem module {mod.MODULE} does not build: {first_error(log_thm)}')

    # 2. audit
    hits = lean.scan_forbidden(mod.LEAN_SUBDIRS)
    for path, tok in hits:
        broken.append(f'forbidden token {tok!r} in {path}')
    discharged = 0
    axioms_seen = {}
    if ok_thm:
        res = lean.audit(mod.MODULE, mod.THEOREMS)
        for t, (ok, info) in res.items():
            axioms_seen[t] = info
            if ok:
                discharged += 1
            else:
                broken.append(f'theorem {t} not discharged with allowed axioms: {info}')
    if tier == 'thorough' and ok_thm:
        ok_lc, log_lc = leanchecker(mod.MODULE)
        if not ok_lc:
            broken.append(f'leanchecker rejected {mod.MODULE}: {first_error(log_lc)}')
        else:
            notes.append('leanchecker re-checked ' + mod.MODULE)

    driver = lean.Driver()
    ctx = Ctx(prop, tier, seed, driver)

    if replay_file:
        with open(replay_file) as f:
            payload = json.load(f)
        case = payload.get('case') or {}
        if isinstance(case, dict) and case.get('scenario'):
            o = scenarios.run_scenarios(prop, False, only=case['scenario'])
            out = {'case': case, 'violations': [c['what'] for c in o.concrete], 'fails': bool(o.concrete)}
        else:
            out = mod.replay(ctx, payload)
        print(json.dumps(out, indent=1, default=repr))
        return 1 if out.get('fails') else 0

    # 3. correspondence + monitors on the real code
    try:
        outcome = mod.run(ctx)
    except AttachError as e:
        outcome = Outcome()
        outcome.diffs.append({'case': None, 'impl': str(e), 'model': None,
                              'where': 'cannot attach the instrumentation: ' + str(e)})
    outcome.merge(scenarios.run_scenarios(prop, tier == 'quick'))
    if outcome.diffs:
        d = outcome.diffs[0]
        broken.append(f'correspondence model/implementation differs ({len(outcome.diffs)} case(s)); '
                      f'first: {d.get("where", "")}')

    # 4. directed search for a concrete failing input
    if broken and not outcome.concrete:
        search = getattr(mod, 'search', None)
        if search is not None:
            more = search(ctx, outcome)
            outcome.merge(more)

    # 5. report
    known = common.load_known_findings(prop)
    known_sigs = [k.get('signature') for k in known]
    matched = []
    unlisted = []
    seen_sig = set()
    for c in outcome.concrete:
        sig = c.get('signature')
        key = json.dumps(sig, sort_keys=True, default=repr)
        if sig in known_sigs:
            if key not in seen_sig:
                matched.append(c)
        else:
            if key not in seen_sig:
                unlisted.append(c)
        seen_sig.add(key)
    status = 0
    for c in matched:
        print(f'KNOWN-FINDING: property={prop} {c.get("what", "")} signature={json.dumps(c.get("signature"), sort_keys=True)}')
    stale = [k for k in known if k.get('signature') not in [c.get('signature') for c in outcome.concrete]]
    for k in stale:
        notes.append(f'known finding not reproduced in this run: {json.dumps(k.get("signature"), sort_keys=True)}')
    for c in unlisted[:5]:
        path = common.write_replay(prop, {
            'property': prop, 'kind': 'concrete', 'seed': seed, 'tier': tier,
            'what': c.get('what'), 'signature': c.get('signature'), 'case': c.get('case'),
            'observed': c.get('observed'), 'expected': c.get('expected'),
            'broken_obligations': broken,
        })
        print(f'VIOLATION property={prop} replay={path}')
        status = 1
    if broken and not unlisted:
        first = outcome.diffs[0] if outcome.diffs else None
        path = common.write_replay(prop, {
            'property': prop, 'kind': 'no-failing-input-found', 'seed': seed, 'tier': tier,
            'no_longer_checks': broken, 'first_differing_case': first,
            'note': 'a proof obligation or the model/implementation correspondence is broken and the '
                    'directed search found no concrete input on which the property fails; the '
                    'property is no longer shown to hold',
        })
        print(f'VIOLATION property={prop} replay={path} no-failing-input-found')
        status = 1

    coverage = {
        'obligations': len(mod.THEOREMS),
        'discharged': discharged,
        'checker_cmd': f'cd lean && lake build {mod.MODULE} && lake env lean <#print axioms of each theorem>'
                       + (' && lake env leanchecker ' + mod.MODULE if tier == 'thorough' else ''),
        'trusted_base': common.TRUSTED_BASE + list(getattr(mod, 'TRUSTED_EXTRA', [])),
        'theorems': {t: axioms_seen.get(t) for t in mod.THEOREMS},
        'evaluations': outcome.evaluations,
        'traces_validated_against_impl': outcome.traces_validated,
        'distinct_nontrivial': len(outcome.fingerprints),
        'rule': mod.RULE,
        'samples': outcome.samples or [{'note': 'no case executed'}],
        'histogram': dict(sorted(outcome.histogram.items())),
        'exhaustive': bool(outcome.exhaustive),
        'broken': broken,
        'correspondence_differences': len(outcome.diffs),
        'concrete_violations': len(unlisted),
        'known_findings_matched': [c.get('signature') for c in matched],
        'notes': notes + outcome.notes,
    }
    coverage.update(outcome.extra)
    common.write_evidence(prop, tier, seed, coverage, list(mod.ASSUMPTIONS), clock.elapsed(),
                          len(unlisted) + (1 if broken and not unlisted else 0))
    print(f'{prop} {tier}: theorems {discharged}/{len(mod.THEOREMS)}, cases {outcome.evaluations}, '
          f'model-compared {outcome.traces_validated}, distinct {len(outcome.fingerprints)}, '
          f'diffs {len(outcome.diffs)}, violations {len(unlisted)}, known {len(matched)}, '
          f'{clock.elapsed():.1f}s')
    return status


def leanchecker(module):
    import subprocess
    p = subprocess.run(['lake', 'env', 'leanchecker', module], cwd=common.LEAN_DIR,
                       stdout=subprocess.PIPE, stderr=subprocess.STDOUT, text=True, timeout=3600)
    return p.returncode == 0, p.stdout


if __name__ == '__main__':
    sys.exit(main())
