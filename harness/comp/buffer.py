"""BufferAsyncCalls: program generator, real execution under a virtual clock, model line, monitors
(C03, C07, C08) and the shutdown experiment (C07, finding F5)."""
import asyncio

from ..core.vtime import VLoop, TICK, Idle, VirtualTimeout


class FuncBase(BaseException):
    pass


def pitems(p):
    out = []
    for d, x in p:
        if x in ('F', 'C'):
            break
        out.append(x)
    return out


def gen(rng, flavor):
    """Program = list of ('s', t, kind, producer) / ('w', t, id, cancel); producer = [(delay, item|'F'|'C')]
    ('F': the producer raises ValueError there; 'C': it raises CancelledError, as an awaited task that its owner cancelled
    does - the model treats both as 'the producer fails')."""
    T = rng.choice([64, 256, 1024, 4096]) if flavor == 'c08' else rng.choice([64, 256]) * 16
    if flavor == 'c08' and rng.random() < 0.15:
        # one long uninterrupted burst: plain submissions a bit less than `timeout` apart for many quiet periods
        # (12..40 of them) - however long a burst lasts, it is one call, `timeout` after its last submission
        gap = rng.choice([T // 2, T - 16, (3 * T) // 5])
        n = rng.randint(12, 40)
        prog = [('s', 1 + i * gap, 'put', [(0, i)]) for i in range(n)]
        if rng.random() < 0.4:
            prog.append(('s', 1 + (n - 1) * gap + 3 * T + 16, 'put', [(0, n)]))
        outcomes = [(rng.choice([0, T // 2]), True) for _ in range(6)]
        return T, prog, outcomes
    n = rng.randint(1, 8)
    t = 0
    prog = []
    item = 0
    grid = [0, 16, T // 2, T - 16, T, T + 16, 2 * T, 3 * T + 16]
    for i in range(n):
        same = i > 0 and rng.random() < 0.15
        t += 0 if same else rng.choice(grid) + 1
        r = rng.random()
        pw = {'c03': 0.15, 'c07': 0.35, 'c08': 0.1}[flavor]
        if r < pw:
            cancel = rng.random() < 0.6 if flavor != 'c08' else False
            prog.append(('w', t, i, cancel))
            continue
        if flavor == 'c08':
            kind = rng.choice(['put', 'put', 'map', 'mapiter'])
        else:
            kind = rng.choice(['put', 'put', 'await', 'amap', 'map', 'mapiter', 'mapre'])
        if kind == 'put':
            p = [(0, item)]
            item += 1
        elif kind == 'await':
            p = [(rng.choice([0, 16, T // 2, T + 32]), rng.choice([item, item, item, 'F', 'C']))]
            item += 1
        elif kind in ('map', 'mapiter', 'mapre'):
            k = rng.randint(0, 3)
            p = [(0, item + j) for j in range(k)]
            item += k
            if kind in ('mapiter', 'mapre') and rng.random() < (0.3 if kind == 'mapiter' else 0.6) and flavor != 'c08':
                p.append((0, 'F'))
        else:
            k = rng.randint(0, 3)
            p = []
            for j in range(k):
                p.append((rng.choice([0, 16, T // 2, T + 32]), item))
                item += 1
            if rng.random() < 0.3:
                p.insert(rng.randint(0, len(p)), (rng.choice([0, 16]), rng.choice(['F', 'F', 'C'])))
        prog.append(('s', t, kind, p))
        if flavor == 'c07' and rng.random() < 0.3:
            # `buffer(x); await buffer.wait()` by one task in one loop step
            prog.append(('w', t, 100 + i, rng.random() < 0.6))
    # inputs of one instant: submissions first, then waits (the doctest pattern `buffer(a); buffer(b);
    # await buffer.wait()`); a wait() runs in its own task, so a same-instant wait-then-submit is an
    # ordering between tasks, which the model does not predict
    prog.sort(key=lambda st: (st[1], 0 if st[0] == 's' else 1))
    pfail = {'c03': 0.4, 'c07': 0.3, 'c08': 0.25}[flavor]
    outcomes = [(rng.choice([0, T // 2, 2 * T]), rng.random() >= pfail) for _ in range(6)]
    return T, prog, outcomes


def enc_producer(p):
    return '+'.join(f"{d}.{'F' if x in ('F', 'C') else x}" for d, x in p) if p else 'e'


def model_line(T, prog, outcomes):
    ins = []
    for st in prog:
        if st[0] == 's':
            ins.append(f's:{st[1]}:{enc_producer(st[3])}')
        else:
            ins.append(f'w:{st[1]}:{st[2]}:{1 if st[3] else 0}')
    return (f"buf T={T} outcomes={','.join(f'{d}.{1 if ok else 0}' for d, ok in outcomes)} "
            f"ins={';'.join(ins)}")


def parse_model(ans):
    d = dict(tok.partition('=')[::2] for tok in ans.split(' '))
    evs = []
    for tok in d.get('outs', '').split(';') if d.get('outs') else []:
        p = tok.split(':')
        if p[0] == 'S':
            evs.append(('start', int(p[1]), [int(x) for x in p[2].split('.')] if p[2] else []))
        elif p[0] == 'E':
            evs.append(('end', int(p[1]), p[2] == '1'))
        else:
            evs.append(('wait-ret', int(p[1]), int(p[2])))
    pend = [int(x) for x in d['pendingwaits'].split(',')] if d.get('pendingwaits') else []
    return d.get('tie') == '1', evs, pend


def run_real(T, prog, outcomes, shutdown_at=None, make_buffer=None, eager=False):
    """Events ('start', t, sorted args) ('end', t, ok) ('wait-ret', t, id) ('wait-pending', id).
    With shutdown_at: the main coroutine returns at that instant and the loop is shut down the way
    asyncio.run does it; the last event is ('shutdown', 'ok' | 'hang')."""
    from aiuti.asyncio import BufferAsyncCalls
    loop = VLoop()
    asyncio.set_event_loop(loop)
    if eager:
        # a documented loop setting of Python 3.12: new tasks take their first step inside create_task()
        loop.set_task_factory(asyncio.eager_task_factory)
    out = []
    now = lambda: round(loop.time() / TICK)
    horizon_ticks = (prog[-1][1] if prog else 0) + 200 * T

    async def main():
        n = [0]

        async def func(xs):
            k = n[0]
            n[0] += 1
            dur, ok = outcomes[k] if k < len(outcomes) else (0, True)
            out.append(('start', now(), sorted(xs)))
            await asyncio.sleep(dur * TICK)
            out.append(('end', now(), ok))
            # the function works through the set it was given the ordinary way - by emptying it (`while args:
            # args.pop()`); what it was handed is its own business, also when it then fails
            for _ in range(len(xs) if ok else (len(xs) + 1) // 2):
                xs.pop()
            if not ok:
                # a failing call is a failing call, whatever the class of the error: an ordinary exception, the
                # CancelledError of something the function awaited, or another BaseException-only error
                raise (RuntimeError('f'), asyncio.CancelledError(), FuncBase('f'))[k % 3]
        def call(xs):
            # the buffered function need not be a coroutine function: a callable returning an awaitable may fail at
            # call time, before there is anything to await - a failed call of no duration
            k = n[0]
            dur, ok = outcomes[k] if k < len(outcomes) else (0, True)
            if not ok and not dur and k % 2:
                n[0] += 1
                out.append(('start', now(), sorted(xs)))
                out.append(('end', now(), ok))
                raise RuntimeError('at call time')
            return func(xs)
        call.__name__ = 'func'
        buf = BufferAsyncCalls(call, timeout=T * TICK) if make_buffer is None else make_buffer(call, T * TICK)

        async def agen(p):
            for d, x in p:
                await asyncio.sleep(d * TICK)
                if x == 'F':
                    raise ValueError('p')
                if x == 'C':
                    raise asyncio.CancelledError()
                yield x

        async def aw(p):
            d, x = p[0]
            await asyncio.sleep(d * TICK)
            if x == 'F':
                raise ValueError('p')
            if x == 'C':
                raise asyncio.CancelledError()
            return x

        def it(p):
            for d, x in p:
                if x == 'F':
                    raise ValueError('p')
                yield x

        class ReIterable:
            def __init__(self, p):
                self.p = p

            def __iter__(self):
                return it(self.p)
        tasks = []

        async def waiter(i, c):
            await buf.wait(cancel=c)
            out.append(('wait-ret', now(), i))
        def submit(st):
            kind, p = st[2], st[3]
            if kind == 'put':
                buf(p[0][1])
            elif kind == 'await':
                buf.await_(aw(p))
            elif kind == 'amap':
                buf.amap(agen(p))
            elif kind == 'map':
                buf.map([x for _, x in p])
            elif kind == 'mapre':
                buf.map(ReIterable(p))      # an iterable that is not an iterator and may fail part-way
            else:
                buf.map(it(p))

        async def client(group):
            """The inputs of one instant, issued by ONE task without yielding in between (the doctest
            pattern `buffer(a); buffer(b); await buffer.wait()`): submissions, then the first wait inline."""
            for st in group:
                if st[0] == 's':
                    submit(st)
            ws = [st for st in group if st[0] == 'w']
            for st in ws[1:]:
                tasks.append((st[2], asyncio.create_task(waiter(st[2], st[3]))))
            if ws:
                await waiter(ws[0][2], ws[0][3])
        groups = []
        for st in prog:
            if shutdown_at is not None and st[1] >= shutdown_at:
                break
            if groups and groups[-1][0][1] == st[1]:
                groups[-1].append(st)
            else:
                groups.append([st])
        for group in groups:
            dt = group[0][1] * TICK - loop.time()
            if dt > 0:
                await asyncio.sleep(dt)
            ws = [st for st in group if st[0] == 'w']
            if ws:
                tasks.append((ws[0][2], asyncio.create_task(client(group))))
            else:
                for st in group:
                    submit(st)
        if shutdown_at is not None:
            dt = shutdown_at * TICK - loop.time()
            if dt > 0:
                await asyncio.sleep(dt)
            return
        await asyncio.sleep(200 * T * TICK)
        for i, t in tasks:
            if not t.done():
                out.append(('wait-pending', i))
                t.cancel()
        for t in asyncio.all_tasks(loop):           # the buffer's background task, under whatever name it is kept
            if t is not asyncio.current_task():
                t.cancel()
    try:
        loop.run_until_complete(main())
        if shutdown_at is not None:
            # asyncio.run(): cancel every remaining task, run the loop until they are done
            to_cancel = asyncio.all_tasks(loop)
            for t in to_cancel:
                t.cancel()
            loop.horizon = (shutdown_at + 60 * T) * TICK
            loop.raise_on_idle = True
            try:
                loop.run_until_complete(asyncio.gather(*to_cancel, return_exceptions=True))
                out.append(('shutdown', 'ok'))
            except (Idle, VirtualTimeout):
                out.append(('shutdown', 'hang'))
    finally:
        try:
            for t in asyncio.all_tasks(loop):
                t.cancel()
            loop.raise_on_idle = False
            loop.horizon = None
            loop.run_until_complete(loop.shutdown_asyncgens())
        except BaseException:  # noqa
            pass
        loop.close()
        asyncio.set_event_loop(None)
    return out


def canon(evs):
    keep = [tuple(e[:2]) + (tuple(e[2]) if isinstance(e[2], list) else e[2],) for e in evs
            if e[0] in ('start', 'end', 'wait-ret')]
    return sorted(keep, key=lambda e: (e[1], {'end': 0, 'start': 1, 'wait-ret': 2}[e[0]], repr(e)))


def project(evs, prop):
    c = canon(evs)
    if prop == 'C03':
        # conservation only: how often each element reached a successful call, what ever reached the function,
        # and whether a failed call was followed by a superset (grouping and timing belong to C07 / C08)
        calls = []
        cur = None
        for e in c:
            if e[0] == 'start':
                cur = e
            elif e[0] == 'end' and cur is not None:
                calls.append((tuple(cur[2]), e[2]))
                cur = None
        ok = sorted(x for args, good in calls if good for x in args)
        seen = sorted({x for args, _ in calls for x in args})
        kept = all(set(a[0]) <= set(b[0]) for a, b in zip(calls, calls[1:]) if not a[1])
        return (ok, seen, kept)
    if prop == 'C07':
        return c                                       # wait returns are judged against call ends: everything
    if prop == 'C08':
        return [e for e in c if e[0] in ('start', 'end')]   # call instants and contents
    return c


# ------------------------------------------------------------------ monitors
def monitors(T, prog, outcomes, evs, want):
    bad = []
    subs = [(st[1], pitems(st[3]), st[2]) for st in prog if st[0] == 's']
    all_items = [x for _, xs, _ in subs for x in xs]
    calls = []
    cur = None
    for e in evs:
        if e[0] == 'start':
            if cur is not None and 'C08' in want:
                bad.append(('C08', 'overlap', e))
            cur = e
            if not e[2] and 'C08' in want:
                bad.append(('C08', 'empty-call', e))
        elif e[0] == 'end':
            if cur is not None:
                calls.append((cur[1], e[1], cur[2], e[2]))
            cur = None
    okcalls = [c for c in calls if c[3]]
    delivered = [x for c in okcalls for x in c[2]]
    func_can_succeed = True        # outcomes beyond the script succeed
    if 'C03' in want:
        for c in calls:
            for x in c[2]:
                if x not in all_items:
                    bad.append(('C03', 'not-submitted', x))
        for x in all_items:
            n = delivered.count(x)
            if n != 1:
                bad.append(('C03', 'delivered-%d-times' % n, x))
        # kept on failure: the call after a failed one is a superset
        for a, b in zip(calls, calls[1:]):
            if not a[3] and not set(a[2]) <= set(b[2]):
                bad.append(('C03', 'lost-after-failure', (a, b)))
    if 'C07' in want:
        for e in evs:
            if e[0] == 'wait-ret':
                wcall = next(st[1] for st in prog if st[0] == 'w' and st[2] == e[2])
                # submissions issued before the wait (earlier in program order at or before its instant)
                idx = next(i for i, st in enumerate(prog) if st[0] == 'w' and st[2] == e[2])
                before = [x for st in prog[:idx] if st[0] == 's' for x in pitems(st[3])]
                got = [x for c in okcalls if c[1] <= e[1] for x in c[2]]
                for x in before:
                    if x not in got:
                        bad.append(('C07', 'barrier', (e, x)))
                        break
            if e[0] == 'wait-pending':
                bad.append(('C07', 'wait-never-returned', e))
    if 'C08' in want:
        immediate = all(k in ('put', 'map', 'mapiter') for _, _, k in subs)
        forced = any(st[0] == 'w' and st[3] for st in prog)
        if immediate and not forced:
            times = sorted({t for t, xs, _ in subs})
            for c in calls:
                for t in times:
                    if c[0] - T < t < c[0]:
                        bad.append(('C08', 'not-quiet', (c, t)))
            # burst: an element submitted while the function is idle is first offered in a call that starts
            # exactly `timeout` after the latest submission preceding that call
            for t, xs, _ in subs:
                if not xs:
                    continue
                if any(c[0] <= t < c[1] or (c[0] == t) for c in calls):
                    continue
                first = next((c for c in calls if xs[0] in c[2]), None)
                if first is None:
                    bad.append(('C08', 'never-offered', (t, xs)))
                    continue
                s = first[0]
                if any(t <= c[0] < s or t < c[1] <= s for c in calls if c is not first):
                    continue          # another call was in flight in between: not a burst from idle
                last = max(u for u in times if u <= s and u <= max(t, u))
                last = max(u for u in times if u < s)
                if s != last + T:
                    bad.append(('C08', 'burst-call-time', (t, xs, s, last + T)))
                for (u, ys, _) in subs:
                    if t <= u < s and ys and not set(ys) <= set(first[2]):
                        bad.append(('C08', 'burst-split', (u, ys, first)))
                # "a single call": once that call has succeeded the burst is not offered again
                if first[3]:
                    again = next((c for c in calls if c is not first and set(xs) & set(c[2])), None)
                    if again is not None:
                        bad.append(('C08', 'burst-offered-twice', (t, xs, first, again)))
    return bad
