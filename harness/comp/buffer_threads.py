"""BufferAsyncCalls with foreign submitting threads under the baton scheduler (C03 / C07, foreign-thread
clauses).  The loop thread runs the buffer's loop and submits from its own thread; 1..2 foreign threads
submit with `buffer(x)` and may call `wait_from_anywhere()`.  Schedule points: every access to the shared
completion flag (`set`, `clear`, `is_set`, by whichever thread), the thread-safe hand-off, the loop's
idle wait.  Monitors only (the Lean buffer machine is single-threaded; with the round ending on the call's
success rather than on the shared flag, a foreign `clear` is just an extra input that keeps the
invariant - see Buffer/RunProps.lean `fclear`)."""
import asyncio
import threading

from ..core.baton import Sched, BLoop


class FlagProxy(asyncio.Event):
    """The completion flag; every access is a schedule point."""
    S = None
    log = None

    def _who(self):
        return threading.current_thread().name

    def set(self):
        if self.S is not None:
            self.S.point('flag.set')
        super().set()
        if self.log is not None:
            self.log.append(('set', self._who()))

    def clear(self):
        if self.S is not None:
            self.S.point('flag.clear')
        super().clear()
        if self.log is not None:
            self.log.append(('clear', self._who()))

    def is_set(self):
        if self.S is not None:
            self.S.point('flag.is_set')
        return super().is_set()


def gen(rng):
    """Scenario: timeout T (virtual seconds), loop-thread submissions [(t, item)], foreign threads each
    [(t, item)] and whether they end with wait_from_anywhere, per-invocation (duration, ok)."""
    T = rng.choice([1, 2])
    item = [0]

    def subs(n, tmax):
        out = []
        for _ in range(n):
            out.append((rng.choice([0, 0, 0.5, 1, 1.5, 2, 2.5, 3, 4][: 2 + tmax]), item[0]))
            item[0] += 1
        return sorted(out)
    own = subs(rng.randint(1, 3), 6)
    foreign = []
    for _ in range(rng.randint(1, 2)):
        foreign.append({'subs': subs(rng.randint(1, 2), 7), 'wait': rng.random() < 0.5})
    outcomes = [(rng.choice([0, 0, 0.5]), rng.random() >= 0.25) for _ in range(4)]
    scn = {'T': T, 'own': own, 'foreign': foreign, 'outcomes': outcomes, 'final_wait': True}
    if rng.random() < 0.3:
        # the wrapper is constructed by the first foreign thread (which had the loop as its current loop, as a module
        # level decorator in the main thread does) while another thread runs the loop; and the loop is *quiet*: after
        # its own submissions it waits for an external signal, with no timer of its own that would wake it up
        scn['ctor'] = 'foreign'
        scn['quiet'] = True
        scn['own'] = [(0, x) for _, x in own[:1]]
        for f in foreign:
            f['wait'] = False
    return scn


def run(scn, seed, pct=0, choices=None, preempt=None):
    """Returns dict(calls=[(start, end, sorted args, ok)], waits=[(who, t, submitted-before)], hung, errors,
    trace, branching, flaglog)."""
    import aiuti.asyncio as A
    S = Sched(seed, choices=choices, pct_depth=pct, max_steps=20000, preempt=preempt)
    calls = []
    waits = []
    flaglog = []
    submitted = []          # (who, item) in the order the submitting call was *made*
    idle_checks = []        # quiet scenarios: (who, t, items of that thread still undelivered after ample time)
    state = {}
    ready = threading.Event()

    n = [0]

    async def func(xs):
        k = n[0]
        n[0] += 1
        dur, ok = scn['outcomes'][k] if k < len(scn['outcomes']) else (0, True)
        rec = [S.vt, None, sorted(xs), ok]
        calls.append(rec)
        if dur:
            await asyncio.sleep(dur)
        rec[1] = S.vt
        if not ok:
            raise (RuntimeError('scripted failure'), asyncio.CancelledError())[k % 2]

    def construct():
        buf = A.BufferAsyncCalls(func, timeout=scn['T'])
        flag = FlagProxy()
        flag.S = S
        flag.log = flaglog
        asyncio.Event.set(flag)          # as constructed: set
        buf.event = flag
        state['buf'] = buf

    quiet = bool(scn.get('quiet'))
    foreign_ctor = scn.get('ctor') == 'foreign'

    def loop_thread():
        if foreign_ctor:
            S.point('l.start', enabled=lambda: 'buf' in state)
            loop = state['loop']
        else:
            loop = BLoop(S)
            state['loop'] = loop
        asyncio.set_event_loop(loop)

        async def main():
            if not foreign_ctor:
                construct()
            buf = state['buf']
            ready.set()
            t0 = 0
            for (t, x) in scn['own']:
                if t > t0:
                    await asyncio.sleep(t - t0)
                    t0 = t
                submitted.append(('L', x))
                buf(x)
            if quiet:
                # no timer of the loop's own: only a thread-safe hand-off can wake it up
                state['release'] = loop.create_future()
                await state['release']
            else:
                # let the foreign threads finish, then one final barrier from the loop thread
                await asyncio.sleep(max([0] + [t for f in scn['foreign'] for t, _ in f['subs']]) + 0.25 - t0)
            before = [x for _, x in submitted]
            await buf.wait()
            waits.append(('L', S.vt, before))
            # grace period: "lost" (C03) means never delivered even given time, not "the barrier (C07) let go early"
            await asyncio.sleep(4 * scn['T'] + 3 * max([0.5] + [d for d, _ in scn['outcomes']]))
        try:
            loop.run_until_complete(main())
        finally:
            state['done'] = True

    def foreign_thread(k, spec):
        def body():
            if foreign_ctor and k == 0:
                loop = BLoop(S)
                asyncio.set_event_loop(loop)          # the constructing thread's current loop, run by thread L
                state['loop'] = loop
                construct()
            S.point('f.start', enabled=lambda: 'buf' in state and (not quiet or 'release' in state))
            buf = state['buf']
            for (t, x) in spec['subs']:
                if S.vt < t:
                    S.point('f.sleep', enabled=lambda: False, deadline=t)
                submitted.append((f'F{k}', x))
                buf(x)
            if quiet:
                # give the buffer ample (virtual) time, look, and only then wake the loop's main coroutine
                S.point('f.sleep', enabled=lambda: False,
                        deadline=S.vt + 6 * scn['T'] + 4 * max([0.5] + [d for d, _ in scn['outcomes']]))
                done_now = [x for c in calls if c[3] and c[1] is not None for x in c[2]]
                idle_checks.append((f'F{k}', S.vt, [x for _, x in spec['subs'] if x not in done_now]))
                state.setdefault('released', 0)
                state['released'] += 1
                if state['released'] == len(scn['foreign']):
                    state['loop'].call_soon_threadsafe(
                        lambda: state['release'].done() or state['release'].set_result(None))
            if spec['wait']:
                before = [x for w, x in submitted if w == f'F{k}']
                loop = BLoop(S)
                asyncio.set_event_loop(loop)
                try:
                    loop.run_until_complete(buf.wait_from_anywhere())
                    waits.append((f'F{k}', S.vt, before))
                finally:
                    loop.close()
        return body

    S.spawn('L', loop_thread)
    for k, spec in enumerate(scn['foreign']):
        S.spawn(f'F{k}', foreign_thread(k, spec))
    saved = A.sleep if hasattr(A, 'sleep') else None
    S.run(wall_timeout=30)
    loop = state.get('loop')
    try:
        if loop is not None and not loop.is_running() and not loop.is_closed():
            # cancel the daemon without running the loop again (it swallows cancellations: finding F5)
            loop.close()
    except Exception:  # noqa
        pass
    return dict(calls=[tuple(c) for c in calls], waits=waits, hung=S.hung, errors=list(S.errors), trace=list(S.trace),
                branching=list(S.branching), flaglog=flaglog, submitted=list(submitted),
                idle_checks=idle_checks)


def monitors(scn, r, want):
    bad = []
    if r['hung']:
        if 'C07' in want:
            bad.append(('C07', 'hang', f'a wait() never returned / the run never finished: {r["hung"]}'))
        return bad
    okcalls = [c for c in r['calls'] if c[3] and c[1] is not None]
    delivered = [x for c in okcalls for x in c[2]]
    everything = [x for _, x in r['submitted']]
    if 'C03' in want:
        for who, t, missing in r.get('idle_checks', []):
            if missing:
                bad.append(('C03', 'stuck-while-idle', f'{missing}, submitted by {who} while the loop was idle (the wrapper '
                                                       f'had been constructed by thread F0, the loop is run by thread L), '
                                                       f'had still not been delivered at {t}, long after timeout + call '
                                                       f'duration: the hand-off did not wake the loop'))
        for c in r['calls']:
            for x in c[2]:
                if x not in everything:
                    bad.append(('C03', 'not-submitted', f'{x} was passed to the function but never submitted'))
        for who, x in r['submitted']:
            n = delivered.count(x)
            if n == 0:
                bad.append(('C03', 'lost', f'{x} (submitted by {who}) never reached a successful call'))
            elif n > 1 and who == 'L':
                bad.append(('C03', 'delivered-%d-times' % n,
                            f'{x}, submitted from the loop\'s own thread, was passed to {n} successful calls: '
                            f'{[c[2] for c in okcalls if x in c[2]]}'))
    if 'C07' in want:
        for who, t, before in r['waits']:
            got = [x for c in okcalls if c[1] <= t for x in c[2]]
            missing = [x for x in before if x not in got]
            if missing:
                bad.append(('C07', 'barrier', f'wait() of {who} returned at {t} but {missing}, submitted before it, '
                                              f'had not been delivered by a successful call'))
    return bad
