"""BufferAsyncCalls with foreign submitting threads under the baton scheduler (C03 / C07, foreign-thread
clauses).  The loop thread runs the buffer's loop and submits from its own thread; 1..2 foreign threads
submit with `buffer(x)` and may call `wait_from_anywhere()`.  Schedule points: every access to the shared
completion flag (`set`, `clear`, `is_set`, by whichever thread), the thread-safe hand-off, the loop's
idle wait.  Monitors only (the Lean buffer machine is single-threaded; with the round ending on the call's
success rather than on the shared flag, a foreign `clear` is just an extra input that keeps the
invariant - see Buffer/RunProps.lean `fclear`)."""
import asyncio
import threading

from ..core.baton import Sched, BLoop


class FlagProxy(asyncio.Event):
    """The completion flag; every access is a schedule point."""
    S = None
    log = None

    def _who(self):
        return threading.current_thread().name

    def set(self):
        if self.S is not None:
            self.S.point('flag.set')
        super().set()
        if self.log is not None:
            self.log.append(('set', self._who()))

    def clear(self):
        if self.S is not None:
            self.S.point('flag.clear')
        super().clear()
        if self.log is not None:
            self.log.append(('clear', self._who()))

    def is_set(self):
        if self.S is not None:
            self.S.point('flag.is_set')
        return super().is_set()


def gen(rng):
    """Scenario: timeout T (virtual seconds), loop-thread submissions [(t, item)], foreign threads each
    [(t, item)] and whether they end with wait_from_anywhere, per-invocation (duration, ok)."""
    T = rng.choice([1, 2])
    item = [0]

    def subs(n, tmax):
        out = []
        for _ in range(n):
            out.append((rng.choice([0, 0, 0.5, 1, 1.5, 2, 2.5, 3, 4][: 2 + tmax]), item[0]))
            item[0] += 1
        return sorted(out)
    own = subs(rng.randint(1, 3), 6)
    foreign = []
    for _ in range(rng.randint(1, 2)):
        foreign.append({'subs': subs(rng.randint(1, 2), 7), 'wait': rng.random() < 0.5})
    outcomes = [(rng.choice([0, 0, 0.5]), rng.random() >= 0.25) for _ in range(4)]
    return {'T': T, 'own': own, 'foreign': foreign, 'outcomes': outcomes, 'final_wait': True}


def run(scn, seed, pct=0, choices=None, preempt=None):
    """Returns dict(calls=[(start, end, sorted args, ok)], waits=[(who, t, submitted-before)], hung, errors,
    trace, branching, flaglog)."""
    import aiuti.asyncio as A
    S = Sched(seed, choices=choices, pct_depth=pct, max_steps=20000, preempt=preempt)
    calls = []
    waits = []
    flaglog = []
    submitted = []          # (who, item) in the order the submitting call was *made*
    state = {}
    ready = threading.Event()

    def loop_thread():
        loop = BLoop(S)
        asyncio.set_event_loop(loop)
        state['loop'] = loop
        n = [0]

        async def func(xs):
            k = n[0]
            n[0] += 1
            dur, ok = scn['outcomes'][k] if k < len(scn['outcomes']) else (0, True)
            rec = [S.vt, None, sorted(xs), ok]
            calls.append(rec)
            if dur:
                await asyncio.sleep(dur)
            rec[1] = S.vt
            if not ok:
                raise RuntimeError('scripted failure')

        async def main():
            buf = A.BufferAsyncCalls(func, timeout=scn['T'])
            flag = FlagProxy()
            flag.S = S
            flag.log = flaglog
            asyncio.Event.set(flag)          # as constructed: set
            buf.event = flag
            state['buf'] = buf
            ready.set()
            t0 = 0
            for (t, x) in scn['own']:
                if t > t0:
                    await asyncio.sleep(t - t0)
                    t0 = t
                submitted.append(('L', x))
                buf(x)
            # let the foreign threads finish, then one final barrier from the loop thread
            await asyncio.sleep(max([0] + [t for f in scn['foreign'] for t, _ in f['subs']]) + 0.25 - t0)
            before = [x for _, x in submitted]
            await buf.wait()
            waits.append(('L', S.vt, before))
            # grace period: "lost" (C03) means never delivered even given time, not "the barrier (C07) let go early"
            await asyncio.sleep(4 * scn['T'] + 3 * max([0.5] + [d for d, _ in scn['outcomes']]))
        try:
            loop.run_until_complete(main())
        finally:
            state['done'] = True

    def foreign_thread(k, spec):
        def body():
            S.point('f.start', enabled=lambda: 'buf' in state)
            buf = state['buf']
            for (t, x) in spec['subs']:
                if S.vt < t:
                    S.point('f.sleep', enabled=lambda: False, deadline=t)
                submitted.append((f'F{k}', x))
                buf(x)
            if spec['wait']:
                before = [x for w, x in submitted if w == f'F{k}']
                loop = BLoop(S)
                asyncio.set_event_loop(loop)
                try:
                    loop.run_until_complete(buf.wait_from_anywhere())
                    waits.append((f'F{k}', S.vt, before))
                finally:
                    loop.close()
        return body

    S.spawn('L', loop_thread)
    for k, spec in enumerate(scn['foreign']):
        S.spawn(f'F{k}', foreign_thread(k, spec))
    saved = A.sleep if hasattr(A, 'sleep') else None
    S.run(wall_timeout=30)
    loop = state.get('loop')
    try:
        if loop is not None and not loop.is_running() and not loop.is_closed():
            # cancel the daemon without running the loop again (it swallows cancellations: finding F5)
            loop.close()
    except Exception:  # noqa
        pass
    return dict(calls=[tuple(c) for c in calls], waits=waits, hung=S.hung, errors=list(S.errors), trace=list(S.trace),
                branching=list(S.branching), flaglog=flaglog, submitted=list(submitted))


def monitors(scn, r, want):
    bad = []
    if r['hung']:
        if 'C07' in want:
            bad.append(('C07', 'hang', f'a wait() never returned / the run never finished: {r["hung"]}'))
        return bad
    okcalls = [c for c in r['calls'] if c[3] and c[1] is not None]
    delivered = [x for c in okcalls for x in c[2]]
    everything = [x for _, x in r['submitted']]
    if 'C03' in want:
        for c in r['calls']:
            for x in c[2]:
                if x not in everything:
                    bad.append(('C03', 'not-submitted', f'{x} was passed to the function but never submitted'))
        for who, x in r['submitted']:
            n = delivered.count(x)
            if n == 0:
                bad.append(('C03', 'lost', f'{x} (submitted by {who}) never reached a successful call'))
            elif n > 1 and who == 'L':
                bad.append(('C03', 'delivered-%d-times' % n,
                            f'{x}, submitted from the loop\'s own thread, was passed to {n} successful calls: '
                            f'{[c[2] for c in okcalls if x in c[2]]}'))
    if 'C07' in want:
        for who, t, before in r['waits']:
            got = [x for c in okcalls if c[1] <= t for x in c[2]]
            missing = [x for x in before if x not in got]
            if missing:
                bad.append(('C07', 'barrier', f'wait() of {who} returned at {t} but {missing}, submitted before it, '
                                              f'had not been delivered by a successful call'))
    return bad
