"""FileLock: hook-free instrumentation (module-global proxies for threading / os / fcntl / time in
aiuti.filelock), sequential differential against the Lean model (C12), contract monitor."""
import errno
import fcntl as _fcntl
import os as _os
import shutil
import tempfile
import threading as _threading
import time as _time
import types

POLL = 50          # ticks; acquire(poll_interval=POLL * TICK)
TICK = 0.001


class WouldBlock(BaseException):
    """Raised by a proxy when the real call would block for ever in a sequential run."""


class Env:
    """One sequential run: virtual time, logical current thread, OS call numbering, fault set."""

    def __init__(self, faults=()):
        self.vt = 0.0
        self.cur = 0                    # logical thread executing the current operation
        self.ncall = 0
        self.faults = set(faults)
        self.calls = []                 # kinds of the OS calls made, by number
        self.open_fds = set()

    def oscall(self, kind):
        k = self.ncall
        self.ncall += 1
        self.calls.append(kind)
        return k in self.faults


ENV = None


class CoopLock:
    """threading.Lock / RLock for sequential runs: a contended acquire cannot be satisfied while
    the caller waits (nobody else runs), so it fails after its time-out or would block for ever."""

    def __init__(self, reentrant):
        self.re = reentrant
        self.owner = None
        self.depth = 0

    def acquire(self, blocking=True, timeout=-1):
        if not blocking and timeout != -1:
            raise ValueError("can't specify a timeout for a non-blocking call")
        me = ENV.cur
        free = self.owner is None or (self.re and self.owner == me)
        if free:
            self.owner = me
            self.depth += 1
            return True
        if not blocking:
            return False
        if timeout is not None and timeout >= 0:
            ENV.vt += timeout
            return False
        raise WouldBlock('thread lock')

    def release(self):
        me = ENV.cur
        if self.owner is None:
            raise RuntimeError('release unlocked lock')
        if self.re and self.owner != me:
            raise RuntimeError('cannot release un-acquired lock')
        self.depth -= 1
        if self.depth == 0:
            self.owner = None


class ThreadingProxy(types.ModuleType):
    def __getattr__(self, n):
        return getattr(_threading, n)

    @staticmethod
    def Lock():
        return CoopLock(False)

    @staticmethod
    def RLock():
        return CoopLock(True)


class OsProxy(types.ModuleType):
    def __getattr__(self, n):
        return getattr(_os, n)

    @staticmethod
    def open(path, mode, *a):
        if ENV.oscall('open'):
            raise OSError(errno.EIO, 'injected')
        fd = _os.open(path, mode, *a)
        ENV.open_fds.add(fd)
        return fd

    @staticmethod
    def close(fd):
        fail = ENV.oscall('close')
        _os.close(fd)                      # a close that reports an error has still closed the descriptor
        ENV.open_fds.discard(fd)
        if fail:
            raise OSError(errno.EIO, 'injected')


class FcntlProxy(types.ModuleType):
    def __getattr__(self, n):
        return getattr(_fcntl, n)

    @staticmethod
    def flock(fd, op):
        if op == _fcntl.LOCK_UN:
            if ENV.oscall('unlock'):
                raise OSError(errno.EIO, 'injected')
            return _fcntl.flock(fd, op)
        if ENV.oscall('lock'):
            raise OSError(errno.EIO, 'injected')
        if op & _fcntl.LOCK_NB:
            return _fcntl.flock(fd, op)
        try:
            return _fcntl.flock(fd, op | _fcntl.LOCK_NB)
        except OSError:
            # the real call would block in the kernel for ever; FileLock would never reach its own
            # clean-up, so the harness closes the descriptor of the abandoned attempt itself
            _os.close(fd)
            ENV.open_fds.discard(fd)
            raise WouldBlock('flock')


class TimeProxy(types.ModuleType):
    def __getattr__(self, n):
        return getattr(_time, n)

    @staticmethod
    def time():
        return ENV.vt

    @staticmethod
    def sleep(d):
        ENV.vt += d


_installed = [False]


def install():
    import aiuti.filelock as FL
    if not _installed[0]:
        for name in ('threading', 'os', 'fcntl', 'time'):
            if not hasattr(FL, name):
                raise RuntimeError(f'aiuti.filelock has no module global {name!r} to attach to')
        FL.threading = ThreadingProxy('threading')
        FL.os = OsProxy('os')
        FL.fcntl = FcntlProxy('fcntl')
        FL.time = TimeProxy('time')
        _installed[0] = True
    return FL


# ------------------------------------------------------------------ sequential runs
def enc_op(op):
    if op[0] == 'a':
        return f'a:{op[1]}:{op[2]}:{op[3]}'
    return f'r:{op[1]}:{op[2]}:{1 if op[3] else 0}'


def model_line(reent, faults, ops):
    return (f"flock reent={','.join('1' if r else '0' for r in reent)} "
            f"faults={','.join(map(str, sorted(faults)))} ops={';'.join(enc_op(o) for o in ops)}")


def run_seq(reent, faults, ops, workdir):
    """Execute ops one after the other on real FileLock objects over one real lock file.
    op = ('a', obj, thread, mode) with mode 'n' | 'b' | 't<ticks>'   or   ('r', obj, thread, force).
    Returns list of 'res/locked/open/elapsed' strings (same format as the model) and the Env."""
    global ENV
    FL = install()
    ENV = Env(faults)
    env = ENV
    path = _os.path.join(workdir, 'seq.lock')
    objs = [FL.FileLock(path, reentrant=r) for r in reent]
    out = []
    try:
        for op in ops:
            env.cur = op[2]
            t0 = env.vt
            n0 = env.ncall
            o = objs[op[1]]
            try:
                if op[0] == 'a':
                    m = op[3]
                    if m == 'n':
                        r = o.acquire(blocking=False)
                    elif m == 'b':
                        r = o.acquire()
                    else:
                        r = o.acquire(timeout=int(m[1:]) * TICK, poll_interval=POLL * TICK)
                    res = 'T' if r is True else 'F' if r is False else repr(r)
                else:
                    r = o.release(force=op[3])
                    res = 'U' if r is None else repr(r)
            except WouldBlock:
                res = 'B'
                env.ncall = n0                 # the abandoned call does not count (the model leaves the state)
                del env.calls[n0:]
                env.vt = t0
            except OSError:
                res = 'X'
            except BaseException as e:  # noqa
                res = 'EXC-' + type(e).__name__
            locked = ''.join('1' if ob.is_locked else '0' for ob in objs)
            out.append(f'{res}/{locked}/{len(env.open_fds)}/{round((env.vt - t0) / TICK)}')
    finally:
        for ob in objs:
            ob._thread_lock = CoopLock(False)      # never let __del__ trip over a lock state
            fd = ob._lock_file_fd
            ob._lock_file_fd = None
            if fd is not None and fd in env.open_fds:
                try:
                    _os.close(fd)
                except OSError:
                    pass
        for fd in list(env.open_fds):
            try:
                _os.close(fd)
            except OSError:
                pass
    return out, env


# ------------------------------------------------------------------ the Lock/RLock contract (monitor)
def contract(reent, ops, results):
    """Independent statement of C12 for fault-free, contract-respecting sequences.
    Returns None, or a message. `results` are the 'res/locked/open/elapsed' strings."""
    hold = None          # (obj, thread, depth)
    for k, (op, r) in enumerate(zip(ops, results)):
        res, locked, nopen, dt = r.split('/')
        dt = int(dt)
        if op[0] == 'a':
            _, o, t, m = op
            ok = hold is None or (hold[0] == o and hold[1] == t and reent[o])
            if ok:
                exp = 'T'
                hold = (o, t, (hold[2] + 1) if hold else 1)
            else:
                exp = 'B' if m == 'b' else 'F'
            if res != exp:
                return f'op {k} {op}: acquire gave {res}, the contract says {exp}'
            if m == 'n' and dt != 0:
                return f'op {k} {op}: non-blocking acquire took {dt} ticks'
            if m.startswith('t') and dt > int(m[1:]) + POLL:
                return f'op {k} {op}: timed acquire took {dt} ticks > timeout + poll interval'
        else:
            _, o, t, force = op
            if hold is not None and hold[0] == o:
                if hold[1] != t:
                    return None          # outside the contract from here on
                d = 0 if force else hold[2] - 1
                hold = None if d == 0 else (o, t, d)
            if res != 'U':
                return f'op {k} {op}: release gave {res}'
        exp_locked = ''.join('1' if (hold is not None and hold[0] == i) else '0' for i in range(len(reent)))
        if locked != exp_locked:
            return f'op {k} {op}: is_locked flags {locked}, the contract says {exp_locked}'
        if int(nopen) != (1 if hold else 0):
            return f'op {k} {op}: {nopen} descriptors open, the contract says {1 if hold else 0}'
    return None


def mkworkdir():
    return tempfile.mkdtemp(prefix='aiuti-verif-flock-')


def rmworkdir(d):
    shutil.rmtree(d, ignore_errors=True)
