"""FileLock: hook-free instrumentation (module-global proxies for threading / os / fcntl / time in
aiuti.filelock), sequential differential against the Lean model (C12), contract monitor."""
import errno
import fcntl as _fcntl
import os as _os
import shutil
import tempfile
import threading as _threading
import time as _time
import types

from ..core import attach

POLL = 50          # ticks; acquire(poll_interval=POLL * TICK)
TICK = 0.001


class WouldBlock(BaseException):
    """Raised by a proxy when the real call would block for ever in a sequential run."""


class Env:
    """One sequential run: virtual time, logical current thread, OS call numbering, fault set."""

    def __init__(self, faults=(), interrupts=()):
        self.interrupts = set(interrupts)   # OS call numbers at which a KeyboardInterrupt arrives instead
        self.abandon = False                # a would-block-for-ever abandonment is propagating
        self.vt = 0.0
        self.cur = 0                    # logical thread executing the current operation
        self.ncall = 0
        self.faults = set(faults)
        self.calls = []                 # kinds of the OS calls made, by number
        self.open_fds = set()

    def oscall(self, kind):
        k = self.ncall
        self.ncall += 1
        self.calls.append(kind)
        if k in self.interrupts:
            raise KeyboardInterrupt('injected into ' + kind)
        return k in self.faults


ENV = None


class CoopLock:
    """threading.Lock / RLock for sequential runs: a contended acquire cannot be satisfied while
    the caller waits (nobody else runs), so it fails after its time-out or would block for ever."""

    def __init__(self, reentrant):
        self.re = reentrant
        self.owner = None
        self.depth = 0

    def acquire(self, blocking=True, timeout=-1):
        if not blocking and timeout != -1:
            raise ValueError("can't specify a timeout for a non-blocking call")
        me = ENV.cur
        free = self.owner is None or (self.re and self.owner == me)
        if free:
            self.owner = me
            self.depth += 1
            return True
        if not blocking:
            return False
        if timeout is not None and timeout >= 0:
            ENV.vt += timeout
            return False
        raise WouldBlock('thread lock')

    def release(self):
        me = ENV.cur
        if self.owner is None:
            raise RuntimeError('release unlocked lock')
        if self.re and self.owner != me:
            raise RuntimeError('cannot release un-acquired lock')
        self.depth -= 1
        if self.depth == 0:
            self.owner = None


class ThreadingProxy(types.ModuleType):
    def __getattr__(self, n):
        return getattr(_threading, n)

    @staticmethod
    def Lock():
        return CoopLock(False)

    @staticmethod
    def RLock():
        return CoopLock(True)


class OsProxy(types.ModuleType):
    def __getattr__(self, n):
        return getattr(_os, n)

    @staticmethod
    def open(path, mode, *a):
        if ENV.oscall('open'):
            raise OSError(errno.EIO, 'injected')
        fd = _os.open(path, mode, *a)
        ENV.open_fds.add(fd)
        return fd

    @staticmethod
    def close(fd):
        if ENV.abandon:
            _os.close(fd)
            ENV.open_fds.discard(fd)
            return
        fail = ENV.oscall('close')
        _os.close(fd)                      # a close that reports an error has still closed the descriptor
        ENV.open_fds.discard(fd)
        if fail:
            raise OSError(errno.EIO, 'injected')


class FcntlProxy(types.ModuleType):
    def __getattr__(self, n):
        return getattr(_fcntl, n)

    @staticmethod
    def flock(fd, op):
        if op == _fcntl.LOCK_UN:
            if ENV.oscall('unlock'):
                raise OSError(errno.EIO, 'injected')
            return _fcntl.flock(fd, op)
        if ENV.oscall('lock'):
            raise OSError(errno.EIO, 'injected')
        if op & _fcntl.LOCK_NB:
            return _fcntl.flock(fd, op)
        try:
            return _fcntl.flock(fd, op | _fcntl.LOCK_NB)
        except OSError:
            # the real call would block in the kernel for ever: the attempt is abandoned (run_seq closes whatever
            # descriptor the abandoned attempt leaves open; clean-up calls made while the abandonment propagates
            # are not numbered and take no injected fault - in reality they never happen)
            ENV.abandon = True
            raise WouldBlock('flock')


class TimeProxy(types.ModuleType):
    def __getattr__(self, n):
        return getattr(_time, n)

    @staticmethod
    def time():
        return ENV.vt

    @staticmethod
    def sleep(d):
        ENV.vt += d


_installed = [False]
_MODULES = (_threading, _os, _fcntl, _time)


_REAL_LOCK = type(_threading.Lock())
_saved_guards = {}


class Guard:
    """A module-level lock of the library (not one of a lock object): cooperative under the baton scheduler - a real
    one held across a schedule point would block the thread that has the baton -, immediate in sequential runs; it
    is not part of the modelled protocol, so it writes no label."""

    def __init__(self):
        self.owner = None

    def acquire(self, blocking=True, timeout=-1):
        E = BENV
        if E is not None and _threading.current_thread().name in getattr(E.S, 'threads', {}):
            E.S.point('guard.acquire', enabled=lambda: self.owner is None)
        self.owner = _threading.current_thread().name
        return True

    def release(self):
        self.owner = None

    def __enter__(self):
        self.acquire()
        return self

    def __exit__(self, *a):
        self.release()

    def locked(self):
        return self.owner is not None


def _guards(FL):
    for name, val in _saved_guards.items():
        setattr(FL, name, val)
    _saved_guards.clear()
    for name, val in list(vars(FL).items()):
        if isinstance(val, _REAL_LOCK):
            _saved_guards[name] = val
            setattr(FL, name, Guard())


def _attach(FL, pairs):
    _guards(FL)
    missing = attach.substitute(FL, pairs, _MODULES)
    need = [r for r in missing if r in (_os.open, _os.close, _fcntl.flock, _time.time)]
    if need:
        raise attach.AttachError('aiuti.filelock references none of ' + ', '.join(
            f'{getattr(r, "__module__", "?")}.{getattr(r, "__name__", r)}' for r in need)
            + ' (neither directly nor through its module)')


def install():
    import aiuti.filelock as FL
    if not _installed[0]:
        _attach(FL, [(_threading.Lock, ThreadingProxy.Lock), (_threading.RLock, ThreadingProxy.RLock),
                     (_os.open, OsProxy.open), (_os.close, OsProxy.close), (_fcntl.flock, FcntlProxy.flock),
                     (_time.time, TimeProxy.time), (_time.monotonic, TimeProxy.time), (_time.sleep, TimeProxy.sleep)])
        _installed[0] = True
    return FL


def neutralise(ob, open_fds):
    """A lock object the run is done with: whatever attributes hold its thread lock and its descriptor (found by
    value, not by name) are reset so that `__del__` finds nothing to release.  Returns the descriptors it held."""
    fds = []
    for name, v in list(vars(ob).items()):
        if isinstance(v, (CoopLock, BatonLock)):
            setattr(ob, name, CoopLock(False))
        elif type(v) is int and v in open_fds and 'fd' in name.lower():
            fds.append(v)
            setattr(ob, name, None)
    return fds


# ------------------------------------------------------------------ sequential runs
def enc_op(op):
    if op[0] == 'a':
        return f'a:{op[1]}:{op[2]}:{op[3]}'
    return f'r:{op[1]}:{op[2]}:{1 if op[3] else 0}'


class BodyError(Exception):
    pass


def model_line(reent, faults, ops):
    return (f"flock reent={','.join('1' if r else '0' for r in reent)} "
            f"faults={','.join(map(str, sorted(faults)))} ops={';'.join(enc_op(o) for o in ops)}")


def run_seq(reent, faults, ops, workdir, expand=False, ctor=None, interrupts=()):
    """Execute ops one after the other on real FileLock objects over one real lock file.
    op = ('a', obj, thread, mode) with mode 'n' | 'b' | 't<ticks>'   or   ('r', obj, thread, force)   or
    ('x', obj, thread, mode): a whole `with obj.acquire_ctx(...)` block (mode 'w': the plain with-statement; 'we': the same with a body
    that raises - the block is left through `__exit__(exc_type, exc, tb)`),
    which counts as the acquire followed - only when the block was entered - by a plain release.
    Returns list of 'res/locked/open/elapsed' strings (same format as the model) and the Env; with
    `expand` also the operation list in which every 'x' is replaced by what it amounted to.
    `ctor[i]` = default timeout (ticks) given to object i's constructor: its plain `acquire()` and `with obj:` are then
    timed acquires, and appear as such in the expanded list."""
    global ENV
    FL = install()
    ENV = Env(faults, interrupts)
    env = ENV
    path = _os.path.join(workdir, 'seq.lock')
    ctor = list(ctor) if ctor else [None] * len(reent)
    import pathlib
    # the lock file may be given as any path-like: object 1 gets a pathlib.Path, object 0 a str
    objs = [FL.FileLock(pathlib.Path(path) if i % 2 else path, reentrant=r,
                        **({} if ctor[i] is None else {'timeout': ctor[i] * TICK}))
            for i, r in enumerate(reent)]
    out = []
    flat = []

    def eff(o, m):
        # what a blocking acquire amounts to on an object constructed with a default timeout
        return f't{ctor[o]}' if m == 'b' and ctor[o] is not None else m

    def snap(res, t0):
        locked = ''.join('1' if ob.is_locked else '0' for ob in objs)
        out.append(f'{res}/{locked}/{len(env.open_fds)}/{round((env.vt - t0) / TICK)}')

    try:
        for op in ops:
            env.cur = op[2]
            t0 = env.vt
            n0 = env.ncall
            fds0 = set(env.open_fds)
            o = objs[op[1]]
            entered = None
            body_raises = False
            try:
                if op[0] == 'a':
                    m = op[3]
                    flat.append(('a', op[1], op[2], eff(op[1], m)))
                    if m == 'n':
                        r = o.acquire(blocking=False)
                    elif m == 'b':
                        r = o.acquire()
                    else:
                        r = o.acquire(timeout=int(m[1:]) * TICK, poll_interval=POLL * TICK)
                    res = 'T' if r is True else 'F' if r is False else repr(r)
                elif op[0] == 'x':
                    m = op[3]
                    body_raises = m.endswith('e')          # 'we': the body of the with-statement raises
                    if body_raises:
                        m = m[:-1]
                    flat.append(('a', op[1], op[2], eff(op[1], 'b' if m == 'w' else m)))
                    if m == 'w':
                        cm = o
                    elif m == 'n':
                        cm = o.acquire_ctx(blocking=False, poll_interval=POLL * TICK)
                    elif m == 'b':
                        cm = o.acquire_ctx(poll_interval=POLL * TICK)
                    else:
                        cm = o.acquire_ctx(timeout=int(m[1:]) * TICK, poll_interval=POLL * TICK)
                    try:
                        cm.__enter__()
                        res = 'T'
                        entered = cm
                    except TimeoutError:
                        res = 'F'
                else:
                    flat.append(op)
                    r = o.release(force=op[3])
                    res = 'U' if r is None else repr(r)
            except WouldBlock:
                res = 'B'
                env.abandon = False
                env.ncall = n0                 # the abandoned call does not count (the model leaves the state)
                del env.calls[n0:]
                env.vt = t0
                for fd in list(env.open_fds - fds0):      # descriptor of the abandoned attempt, if still open
                    try:
                        _os.close(fd)
                    except OSError:
                        pass
                    env.open_fds.discard(fd)
            except OSError:
                res = 'X'
            except BaseException as e:  # noqa
                res = 'EXC-' + type(e).__name__
            snap(res, t0)
            if entered is not None:            # leave the block: this is the release
                t0 = env.vt
                flat.append(('r', op[1], op[2], False))
                try:
                    if body_raises:
                        exc = BodyError('raised inside the with-block')
                        r = entered.__exit__(BodyError, exc, None)
                    else:
                        r = entered.__exit__(None, None, None)
                    res = 'U' if not r else repr(r)
                except OSError:
                    res = 'X'
                except BaseException as e:  # noqa
                    res = 'EXC-' + type(e).__name__
                snap(res, t0)
    finally:
        for ob in objs:
            for fd in neutralise(ob, env.open_fds):   # never let __del__ trip over a lock state or close a reused fd
                try:
                    _os.close(fd)
                except OSError:
                    pass
        for fd in list(env.open_fds):
            try:
                _os.close(fd)
            except OSError:
                pass
    if expand:
        return out, env, flat
    return out, env


# ------------------------------------------------------------------ the Lock/RLock contract (monitor)
def contract(reent, ops, results):
    """Independent statement of C12 for fault-free, contract-respecting sequences.
    Returns None, or a message. `results` are the 'res/locked/open/elapsed' strings."""
    hold = None          # (obj, thread, depth)
    for k, (op, r) in enumerate(zip(ops, results)):
        res, locked, nopen, dt = r.split('/')
        dt = int(dt)
        if op[0] == 'a':
            _, o, t, m = op
            ok = hold is None or (hold[0] == o and hold[1] == t and reent[o])
            if ok:
                exp = 'T'
                hold = (o, t, (hold[2] + 1) if hold else 1)
            else:
                exp = 'B' if m == 'b' else 'F'
            if res != exp:
                return f'op {k} {op}: acquire gave {res}, the contract says {exp}'
            if m == 'n' and dt != 0:
                return f'op {k} {op}: non-blocking acquire took {dt} ticks'
            if m.startswith('t') and dt > int(m[1:]) + POLL:
                return f'op {k} {op}: timed acquire took {dt} ticks > timeout + poll interval'
        else:
            _, o, t, force = op
            if hold is not None and hold[0] == o:
                if hold[1] != t:
                    return None          # outside the contract from here on
                d = 0 if force else hold[2] - 1
                hold = None if d == 0 else (o, t, d)
            if res != 'U':
                return f'op {k} {op}: release gave {res}'
        exp_locked = ''.join('1' if (hold is not None and hold[0] == i) else '0' for i in range(len(reent)))
        if locked != exp_locked:
            return f'op {k} {op}: is_locked flags {locked}, the contract says {exp_locked}'
        if int(nopen) != (1 if hold else 0):
            return f'op {k} {op}: {nopen} descriptors open, the contract says {1 if hold else 0}'
    return None


def mkworkdir():
    return tempfile.mkdtemp(prefix='aiuti-verif-flock-')


def rmworkdir(d):
    shutil.rmtree(d, ignore_errors=True)


# ====================================================================== threads under the baton (C02)
class BatonEnv:
    """Shared state of one controlled multi-thread run."""

    def __init__(self, sched):
        self.S = sched
        self.labels = []
        self.ctx = {}            # logical thread -> 'acquire' | 'release' | None
        self.holder = None       # descriptor holding the flock (all flock calls go through the proxy)
        self.occ = 0
        self.maxocc = 0
        self.overlaps = []
        self.open_fds = set()

    def me(self):
        return int(_threading.current_thread().name[1:])


BENV = None


class BatonLock:
    def __init__(self, reentrant):
        self.re = reentrant
        self.owner = None
        self.depth = 0
        self.oid = None

    def _free(self, me):
        return self.owner is None or (self.re and self.owner == me)

    def acquire(self, blocking=True, timeout=-1):
        E = BENV
        me = E.me()
        if not blocking:
            E.S.point('tl.try')
            ok = self._free(me)
        elif timeout is not None and timeout >= 0:
            E.S.point('tl.timed', enabled=lambda: self._free(me), deadline=E.S.vt + timeout)
            ok = self._free(me)
        else:
            E.S.point('tl.acquire', enabled=lambda: self._free(me))
            ok = self._free(me)
        if ok:
            self.owner = me
            self.depth += 1
        E.labels.append(f'ta:{me}:{self.oid}:{1 if ok else 0}')
        return ok

    def release(self):
        E = BENV
        me = E.me()
        E.S.point('tl.release')
        if self.owner is None:
            raise RuntimeError('release unlocked lock')
        if self.re and self.owner != me:
            raise RuntimeError('cannot release un-acquired lock')
        self.depth -= 1
        if self.depth == 0:
            self.owner = None
        E.labels.append(('gu:%d' if E.ctx.get(me) == 'acquire' else 'tr:%d') % me)


class BatonThreading(types.ModuleType):
    def __getattr__(self, n):
        return getattr(_threading, n)

    @staticmethod
    def Lock():
        return BatonLock(False)

    @staticmethod
    def RLock():
        return BatonLock(True)


class BatonOs(types.ModuleType):
    def __getattr__(self, n):
        return getattr(_os, n)

    @staticmethod
    def open(path, mode, *a):
        E = BENV
        E.S.point('os.open')
        fd = _os.open(path, mode, *a)
        E.open_fds.add(fd)
        E.labels.append(f'op:{E.me()}:1')
        return fd

    @staticmethod
    def close(fd):
        E = BENV
        me = E.me()
        E.S.point('os.close')
        _os.close(fd)
        E.open_fds.discard(fd)
        if E.holder == fd:
            E.holder = None
        E.labels.append(('ca:%d' if E.ctx.get(me) == 'acquire' else 'cr:%d') % me)


class BatonFcntl(types.ModuleType):
    def __getattr__(self, n):
        return getattr(_fcntl, n)

    @staticmethod
    def flock(fd, op):
        E = BENV
        me = E.me()
        if op == _fcntl.LOCK_UN:
            E.S.point('flock.unlock')
            _fcntl.flock(fd, op)
            if E.holder == fd:
                E.holder = None
            E.labels.append(f'ul:{me}')
            return
        if op & _fcntl.LOCK_NB:
            E.S.point('flock.nb')
        else:
            E.S.point('flock.block', enabled=lambda: E.holder is None)
        try:
            _fcntl.flock(fd, op | _fcntl.LOCK_NB)
        except OSError:
            E.labels.append(f'fl:{me}:0')
            raise
        E.holder = fd
        E.labels.append(f'fl:{me}:1')


class BatonTime(types.ModuleType):
    def __getattr__(self, n):
        return getattr(_time, n)

    @staticmethod
    def time():
        return BENV.S.vt

    @staticmethod
    def sleep(d):
        E = BENV
        E.labels.append(f'rt:{E.me()}')
        E.S.point('sleep', enabled=lambda: False, deadline=E.S.vt + d)


def install_baton():
    import aiuti.filelock as FL
    _attach(FL, [(_threading.Lock, BatonThreading.Lock), (_threading.RLock, BatonThreading.RLock),
                 (_os.open, BatonOs.open), (_os.close, BatonOs.close), (_fcntl.flock, BatonFcntl.flock),
                 (_time.time, BatonTime.time), (_time.monotonic, BatonTime.time), (_time.sleep, BatonTime.sleep)])
    _installed[0] = False        # the sequential proxies have to be re-installed before a sequential run
    return FL


def gen_threads(rng):
    """A multi-thread scenario: objects (reentrancy) and one script per thread.
    round = (obj, form, nested, force) with form in
      'b' blocking acquire(), 'n' non-blocking, 't<ticks>' timed, 'with' the with-statement,
      'ctxb' / 'ctxn' / 'ctxt<ticks>' acquire_ctx(), 'withx' nested with-statements, the inner one left by an exception.
    An optional fifth element is the number of ticks the holder stays inside its critical section (virtual
    time only passes while nobody can run, so this is what lets the others' timeouts expire)."""
    nobj = rng.randint(1, 2)
    reent = [rng.random() < 0.5 for _ in range(nobj)]
    nthr = rng.randint(2, 4)
    scripts = []
    for k in range(nthr):
        rounds = []
        for _ in range(rng.randint(1, 3)):
            o = rng.randrange(nobj)
            form = rng.choice(['b', 'b', 'n', 't30', 't200', 'with', 'ctxb', 'ctxt60', 'ctxn', 'ctxt30'])
            nested = reent[o] and rng.random() < 0.4
            force = nested and rng.random() < 0.5
            hold = rng.choice([0, 0, 100, 400])
            if reent[o] and rng.random() < 0.2:
                # `with ob:` around an inner `with ob:` whose body raises (the error is handled inside the outer
                # block); the critical section comes after the inner block
                form = 'withx'
            rounds.append((o, form, nested, force, hold))
        scripts.append(rounds)
    scn = {'reent': reent, 'scripts': scripts}
    if rng.random() < 0.3:
        # objects constructed with a default timeout: plain acquire() and `with ob:` are timed acquires
        scn['ctor'] = [rng.choice([None, 30, 60]) for _ in range(nobj)]
    return scn


def run_threads(scn, seed, workdir, choices=None, pct=0):
    """Run the scenario under the baton scheduler. Returns dict(labels, maxocc, hung, errors, trace)."""
    from .. core.baton import Sched
    global BENV
    FL = install_baton()
    S = Sched(seed, choices=choices, pct_depth=pct)
    E = BatonEnv(S)
    BENV = E
    path = _os.path.join(workdir, 'thr.lock')
    objs = []
    notheld = []
    ctor = scn.get('ctor') or [None] * len(scn['reent'])
    for i, r in enumerate(scn['reent']):
        ob = FL.FileLock(path, reentrant=r, **({} if ctor[i] is None else {'timeout': ctor[i] * TICK}))
        for v in vars(ob).values():         # the object's thread lock, under whatever name it is kept
            if isinstance(v, BatonLock):
                v.oid = i
        objs.append(ob)

    def critical(me, hold=0, ob=None):
        S.point('cs.enter')
        if ob is not None and not ob.is_locked:     # told it holds the lock, and the object says nobody does
            notheld.append(me)
        E.occ += 1
        E.maxocc = max(E.maxocc, E.occ)
        if E.occ > 1:
            E.overlaps.append(me)
        E.labels.append(f'en:{me}')
        if hold:
            S.point('cs.hold', enabled=lambda: False, deadline=S.vt + hold * TICK)
        else:
            S.point('cs.inside')
        E.occ -= 1
        E.labels.append(f'ex:{me}')

    def do_release(me, o, force=False):
        S.point('release')
        E.labels.append(f'rb:{me}:{o}:{1 if force else 0}')
        E.ctx[me] = 'release'
        try:
            objs[o].release(force=force)
        finally:
            E.ctx[me] = None

    def do_acquire(me, o, **kw):
        E.ctx[me] = 'acquire'
        try:
            return objs[o].acquire(poll_interval=POLL * TICK, **kw)
        finally:
            E.ctx[me] = None

    def body(me):
        def f():
            for rnd in scn['scripts'][me]:
                (o, form, nested, force), hold = rnd[:4], (rnd[4] if len(rnd) > 4 else 0)
                ob = objs[o]
                if form == 'with':
                    E.ctx[me] = 'acquire'
                    try:
                        ob.__enter__()
                    except TimeoutError:          # default timeout of the object expired: the block is not entered
                        E.ctx[me] = None
                        continue
                    E.ctx[me] = None
                    critical(me, hold, ob)
                    S.point('release')
                    E.labels.append(f'rb:{me}:{o}:0')
                    E.ctx[me] = 'release'
                    ob.__exit__(None, None, None)
                    E.ctx[me] = None
                    continue
                if form == 'withx':
                    E.ctx[me] = 'acquire'
                    try:
                        ob.__enter__()
                    except TimeoutError:
                        E.ctx[me] = None
                        continue
                    ob.__enter__()
                    E.ctx[me] = None
                    S.point('release')
                    E.labels.append(f'rb:{me}:{o}:0')
                    E.ctx[me] = 'release'
                    ob.__exit__(BodyError, BodyError('raised inside the inner with-block'), None)
                    E.ctx[me] = None
                    critical(me, hold, ob)
                    S.point('release')
                    E.labels.append(f'rb:{me}:{o}:0')
                    E.ctx[me] = 'release'
                    ob.__exit__(None, None, None)
                    E.ctx[me] = None
                    continue
                if form.startswith('ctx'):
                    kw = ({} if form == 'ctxb' else {'blocking': False} if form == 'ctxn'
                          else {'timeout': int(form[4:]) * TICK})
                    cm = ob.acquire_ctx(poll_interval=POLL * TICK, **kw)
                    E.ctx[me] = 'acquire'
                    try:
                        cm.__enter__()
                    except TimeoutError:
                        E.ctx[me] = None
                        continue
                    E.ctx[me] = None
                    critical(me, hold, ob)
                    S.point('release')
                    E.labels.append(f'rb:{me}:{o}:0')
                    E.ctx[me] = 'release'
                    cm.__exit__(None, None, None)
                    E.ctx[me] = None
                    continue
                if form == 'b':
                    ok = do_acquire(me, o)
                elif form == 'n':
                    ok = do_acquire(me, o, blocking=False)
                else:
                    ok = do_acquire(me, o, timeout=int(form[1:]) * TICK)
                if not ok:
                    continue
                if nested:
                    ok2 = do_acquire(me, o, blocking=False)
                    critical(me, hold, ob)
                    if ok2:
                        if force:
                            do_release(me, o, force=True)
                            continue
                        do_release(me, o)
                    do_release(me, o)
                else:
                    critical(me, hold, ob)
                    do_release(me, o)
        return f
    for k in range(len(scn['scripts'])):
        S.spawn(f'T{k}', body(k))
    S.run()
    res = dict(labels=E.labels, maxocc=E.maxocc, overlaps=E.overlaps, hung=S.hung, errors=S.errors,
               trace=S.trace, still_locked=[ob.is_locked for ob in objs], notheld=notheld)
    for ob in objs:
        neutralise(ob, E.open_fds)
    for fd in list(E.open_fds):
        try:
            _os.close(fd)
        except OSError:
            pass
    return res


def small_model_line(scn, labels):
    n = len(scn['scripts'])
    return (f"flocksm reent={','.join('1' if r else '0' for r in scn['reent'])} "
            f"procT={','.join('0' for _ in range(n))} procO={','.join('0' for _ in scn['reent'])} "
            f"labels={';'.join(labels)}")
