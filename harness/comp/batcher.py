"""AsyncBackgroundBatcher: program generator, real execution under a virtual clock, model line,
property monitors (C04, C09, C10, C11). Shared by the four checks (and C15)."""
import asyncio
import random

from ..core.vtime import VLoop, TICK

KEYERROR, MISSING, TYPEERROR = 1, 2, 3
HORIZON = 100000


def kenc(k):
    """explicit key strings: key 3 is the empty string - a falsy key is a key"""
    return '' if k == 3 else str(k)


def kdec(s):
    return 3 if s == '' else int(s)


class NoMoreRows(StopIteration):
    """an application error class that happens to derive from StopIteration"""


class EB(BaseException):
    """raised by the batch function in one batch out of three: a failure that is not an `Exception` (what a
    batch function re-raises when something it awaits was cancelled)"""


class ModelOutOfFuel(Exception):
    pass


class E(Exception):
    def __len__(self):          # falsy when its code is even: `if exc:` and concurrent.futures' result() overlook it
        return int(self.args[0]) % 2 if self.args and isinstance(self.args[0], int) else 1


# ------------------------------------------------------------------ the harness-owned batch function
def rotate(l, n):
    if not l:
        return l
    n %= len(l)
    return l[n:] + l[:n]


class Behaviour:
    """Same code as `behaviour` in lean/AiutiVerif/Batcher/Model.lean."""

    def __init__(self, plan):
        self.plan = plan
        self.seen = {}
        self.nb = 0

    def __call__(self, batch):
        p = self.plan
        b = self.nb
        self.nb += 1
        items = list(batch)
        if p['order'] == 1:
            items.reverse()
        elif p['order'] >= 2:
            items = rotate(items, b)
        ra = p['raiseAt'][b % len(p['raiseAt'])] if p['raiseAt'] else 99
        script = []
        for j, (k, a) in enumerate(items):
            if ra == j:
                script.append((p['idelay'], ('raise', 1000 + b)))
                return b, script
            occ = self.seen.get(k, 0)
            self.seen[k] = occ + 1
            kinds = p['per'][k] if k < len(p['per']) else []
            kind = kinds[occ % len(kinds)] if kinds else 0
            if kind == 0:
                script.append((p['idelay'], ('yield', k, ('val', k, a, b))))
            elif kind == 1:
                script.append((p['idelay'], ('yield', k, ('err', 2000 + 100 * k + b))))
            elif kind == 2:
                pass
            elif kind == 3:
                script.append((p['idelay'], ('yield', k, ('val', k, a, b))))
                script.append((p['idelay'], ('yield', k, ('val', 999, 0, 0))))
            elif kind == 5:
                # an Exception instance that a future refuses (`set_exception(StopIteration())` raises TypeError):
                # the model's script has `raise TypeError` at this point - every unanswered caller gets it
                script.append((p['idelay'], ('yield', k, ('stop',))))
            else:
                script.append((p['idelay'], ('yield', 99, ('val', 0, 0, 0))))
        script.append((p['tail'], ('fin',)))
        return b, script


# ------------------------------------------------------------------ generation
def gen(rng, flavor):
    """flavor: 'c04' outcomes, 'c10' timing/limits, 'c11' retention, 'c09' cancellation."""
    bt = 64
    cfg = dict(maxb=rng.randint(1, 5), maxc=rng.randint(1, 3), bt=bt,
               ret=rng.choice([0, 0, 96, 640]))
    nkeys = rng.randint(1, 4)
    if flavor == 'c11':
        nkeys = rng.randint(1, 3)
        cfg['ret'] = rng.choice([0, 96, 96, 640])
    n = rng.randint(1, 12 if flavor == 'c10' else 10)
    if flavor == 'c10':
        nkeys = 12       # distinct keys: every call creates work
        cfg['ret'] = 0
    grid = [0, 16, bt - 16, bt, bt + 16, 2 * bt, 96 - 16, 96 + 16, 640 + 16, 5 * bt]
    t = 0
    ins = []
    for i in range(n):
        same = rng.random() < (0.3 if flavor == 'c09' else 0.12) and i > 0
        t += 0 if same else rng.choice(grid) + 1
        key = i if flavor == 'c10' else rng.randrange(nkeys)
        dk = rng.random() < 0.2 and key != 3      # key 3 is spelled '' (an explicit, falsy key): never the default str(arg)
        ins.append(('c', t, i, key if dk else rng.randint(0, 9), key, 1 if dk else 0))
    per_kinds = [0, 0, 0, 0, 1, 1, 2, 2, 3, 3, 4, 4, 5]
    if flavor in ('c10', 'c09'):
        per_kinds = [0, 0, 0, 0, 1, 2] if flavor == 'c09' else [0]
    plan = dict(per=[[rng.choice(per_kinds) for _ in range(6)] for _ in range(max(nkeys, 1))],
                order=rng.choice([0, 1, 2]),
                raiseAt=[rng.choice([99, 99, 99, 0, 1, 2]) if flavor != 'c10' else 99 for _ in range(12)],
                idelay=rng.choice([0, 16, 48, 160]), tail=rng.choice([0, 16, 160]))
    if flavor == 'c10':
        plan['idelay'] = rng.choice([0, 16, 48, 160, 400])
        if rng.random() < 0.4:        # mutate max_batch_size while running
            for _ in range(rng.randint(1, 2)):
                ins.append(('m', rng.randint(1, max(2, t)), rng.randint(1, 5)))
    if flavor == 'c09':
        # cancel any subset at instants covering queued / running-before-result / after-result
        cids = [i for i in range(n) if rng.random() < 0.45]
        for cid in cids:
            t0 = ins[cid][1]
            off = rng.choice([0, 0, 1, 8, 24, bt + 3, bt + 24, bt + 100, bt + 300, 700, 1500])
            # at the call's own instant the cancel comes 1..3 loop iterations later (the caller has started;
            # a task cancelled before its first step never calls the batcher at all)
            ins.append(('x', t0 + off, cid, rng.choice([1, 1, 2, 3]) if off == 0 else rng.choice([0, 0, 1])))
        # followed by fresh calls
        last = max(i[1] for i in ins)
        for j in range(rng.randint(1, 2)):
            last += rng.choice([100, 700, 3000])
            ins.append(('c', last, n + j, rng.randint(0, 9), rng.randrange(nkeys), 0))
    ins.sort(key=lambda i: (i[1], 0 if i[0] == 'm' else 1 if i[0] == 'c' else 2))
    return cfg, ins, plan


def model_line(cfg, ins, plan):
    def enc(i):
        if i[0] == 'c':
            return f'c:{i[1]}:{i[2]}:{i[3]}:{i[4]}'
        if i[0] == 'x':
            return f'x:{i[1]}:{i[2]}'
        return f'm:{i[1]}:{i[2]}'
    return (f"bat maxb={cfg['maxb']} maxc={cfg['maxc']} bt={cfg['bt']} ret={cfg['ret']} "
            f"per={';'.join(','.join(map(str, r)) for r in plan['per'])} order={plan['order']} "
            f"raiseAt={','.join(map(str, plan['raiseAt']))} idelay={plan['idelay']} tail={plan['tail']} "
            f"ins={';'.join(enc(i) for i in ins)}")


def parse_model(ans):
    d = dict(tok.partition('=')[::2] for tok in ans.split(' '))
    evs = []
    for tok in d.get('outs', '').split(';') if d.get('outs') else []:
        p = tok.split(':')
        if p[0] == 'B':
            evs.append(('batch', int(p[1]), int(p[2]), [int(x) for x in p[3].split('.')] if p[3] else []))
        else:
            o = p[3].split('.')
            oc = ('ok',) + tuple(map(int, o[1:])) if o[0] == 'ok' else \
                 ('exc', int(o[1])) if o[0] == 'exc' else ('cancelled',)
            evs.append(('done', int(p[1]), int(p[2]), oc))
    pending = [int(x) for x in d['pending'].split(',')] if d.get('pending') else []
    if d.get('fuel') == '0':
        # the theorems about the retention window assume that the machine fired everything that was due
        raise ModelOutOfFuel(ans[:200])
    return d.get('tie') == '1', evs, pending


# ------------------------------------------------------------------ real execution
def run_real(cfg, ins, plan, make_batcher=None):
    """Returns the event list: ('batch', t, b, keys, script) ('act', t, b, idx) ('batchend', t, b)
    ('done', t, cid, outcome) ('pending', cid)."""
    from aiuti.asyncio import AsyncBackgroundBatcher
    loop = VLoop()
    loop.horizon = HORIZON * 4 * TICK
    asyncio.set_event_loop(loop)
    out = []
    now = lambda: round(loop.time() / TICK)
    beh = Behaviour(plan)

    async def main():
        def bf(batch):
            # a plain callable returning an async iterable (what the batch function is declared to be); when the
            # plan says "raise before anything else, at once" and the code is 2 mod 3, the error is a StopIteration
            # raised by the call itself (`next(pool)` on an exhausted pool before delegating to a generator)
            batch = list(batch)
            b, script = beh([(kdec(k), a) for k, a in batch])
            out.append(('batch', now(), b, [kdec(k) for k, _ in batch], script))
            d0, act0 = script[0]
            if act0[0] == 'raise' and d0 == 0 and act0[1] % 3 == 2:
                out.append(('act', now(), b, 0))
                out.append(('batchend', now(), b))
                raise StopIteration(act0[1])
            if plan.get('wrapiter') and b % 2:
                # any async iterable will do as the batch function's result: here an object whose `__aiter__` is the
                # generator doing the work (it has no `aclose` of its own)
                class Rows:
                    def __aiter__(self, batch=batch, b=b, script=script):
                        return agen(batch, b, script)
                return Rows()
            return agen(batch, b, script)

        async def agen(batch, b, script):
            try:
                for idx, (d, act) in enumerate(script):
                    await asyncio.sleep(d * TICK)
                    for _ in range(plan.get('hops', 0)):       # ... and so is each step of the batch function
                        await asyncio.sleep(0)
                    out.append(('act', now(), b, idx))
                    if act[0] == 'yield':
                        r = act[2]
                        yield kenc(act[1]), (E(r[1]) if r[0] == 'err' else
                                             (StopIteration, NoMoreRows)[(b + idx) % 2]('s') if r[0] == 'stop'
                                             else tuple(r[1:]))
                    elif act[0] == 'raise':
                        raise (EB if act[1] % 3 == 1 else E)(act[1])
            finally:
                if plan.get('cleanup'):
                    # winding the execution up takes time (closing a connection, ...): until then it is in progress
                    await asyncio.sleep(plan['cleanup'] * TICK)
                out.append(('batchend', now(), b))
        if make_batcher is None:
            bt = AsyncBackgroundBatcher(bf, max_batch_size=cfg['maxb'], max_concurrent_batches=cfg['maxc'],
                                        batch_timeout=cfg['bt'] * TICK, retention_timeout=cfg['ret'] * TICK)
            call = bt
        else:
            bt, call = make_batcher(bf, cfg)

        async def caller(cid, arg, key, dk):
            try:
                r = await (call(arg) if dk else call(arg, key=kenc(key)))
                oc = ('ok',) + tuple(r) if isinstance(r, tuple) else ('ok', repr(r))
            except (E, EB) as e:
                oc = ('exc', e.args[0])
            except KeyError:
                oc = ('exc', KEYERROR)
            except ValueError:
                oc = ('exc', MISSING)
            except TypeError:
                oc = ('exc', TYPEERROR)
            except RuntimeError as e:
                # a StopIteration raised by the batch function cannot be set on a future as it is
                c = e.__cause__
                oc = (('exc', TYPEERROR if c.args[0] == 's' else c.args[0]) if isinstance(c, StopIteration) and c.args
                      else ('exc', 'RuntimeError'))
            except asyncio.CancelledError:
                oc = ('cancelled',)
            except BaseException as e:  # noqa
                oc = ('exc', type(e).__name__)
            out.append(('done', now(), cid, oc))
        tasks = {}
        for i in ins:
            dt = i[1] * TICK - loop.time()
            if dt > 0:
                await asyncio.sleep(dt)
            if i[0] == 'c':
                for _ in range(i[6] if len(i) > 6 else 0):     # the call is made a few loop iterations into its instant
                    await asyncio.sleep(0)
                tasks[i[2]] = asyncio.create_task(caller(i[2], i[3], i[4], i[5]))
            elif i[0] == 'x':
                for _ in range(i[3] if len(i) > 3 else 0):
                    await asyncio.sleep(0)
                if i[2] in tasks:          # a caller id that never called: the cancel is a no-op (C09 variants)
                    tasks[i[2]].cancel()
            elif bt is not None:
                bt.max_batch_size = i[2]
        await asyncio.sleep(HORIZON * TICK)
        for cid, t in tasks.items():
            if not t.done():
                out.append(('pending', cid))
                t.cancel()
        await asyncio.sleep(0)
    try:
        loop.run_until_complete(main())
    finally:
        try:
            loop.run_until_complete(loop.shutdown_asyncgens())
        except BaseException:  # noqa
            pass
        loop.close()
        asyncio.set_event_loop(None)
    return out


def canon(evs):
    """Events comparable with the model: batches and done events, same-instant groups sorted."""
    keep = []
    for e in evs:
        if e[0] == 'batch':
            keep.append(('batch', e[1], e[2], tuple(e[3])))
        elif e[0] == 'done':
            keep.append(('done', e[1], e[2], tuple(e[3])))
    return sorted(keep, key=lambda e: (e[1], e[0], repr(e)))


def project(evs, prop):
    """Relevance projection (DESIGN §2.4): the part of the behaviour a property's theorems mention."""
    c = canon(evs)
    if prop in ('C04', 'C09'):
        return sorted((e[2], e[3]) for e in c if e[0] == 'done')           # who got which outcome
    if prop == 'C10':
        return [e for e in c if e[0] == 'batch']                            # times, identities, contents
    if prop == 'C11':
        return ([e[3] for e in c if e[0] == 'batch'],                        # batch contents in order
                sorted((e[2], e[3]) for e in c if e[0] == 'done'))
    return c


# ------------------------------------------------------------------ executions that take time to wind up (C10)
def gen_cleanup(rng):
    """c10 programs (distinct keys, bursts) whose batch function needs `cleanup` ticks in its `finally` and which
    sometimes trips `_process_batch` itself (a key yielded twice / an unknown key / a refused result), so that the
    generator is abandoned in mid-flight.  Outside the Lean machine (it has no winding-up phase): monitor only."""
    cfg, ins, plan = gen(rng, 'c10')
    ins = [i for i in ins if i[0] != 'm']
    plan['per'] = [[rng.choice([0, 0, 3, 4, 5]) for _ in range(6)] for _ in range(12)]
    plan['cleanup'] = rng.choice([16, 48, 160])
    plan['wrapiter'] = rng.random() < 0.5
    plan['idelay'] = rng.choice([0, 16, 48])
    cfg['maxc'] = rng.choice([1, 1, 2])
    return cfg, ins, plan


def monitor_cleanup(cfg, evs):
    """never more than max_concurrent_batches executions in progress: from the call of the batch function to the end
    of its `finally`."""
    bad = []
    evq = sorted([(e[1], 1, e[2]) for e in evs if e[0] == 'batch'] + [(e[1], 0, e[2]) for e in evs if e[0] == 'batchend'])
    run = 0
    for t, kind, b in evq:
        run += 1 if kind else -1
        if run > cfg['maxc']:
            bad.append(('C10', 'concurrency', f'{run} executions of the batch function in progress at tick {t} (batch {b} '
                                              f'started before an earlier execution had finished winding up); '
                                              f'max_concurrent_batches = {cfg["maxc"]}'))
            break
    return bad


# ------------------------------------------------------------------ arrivals that coincide with batch ends (C10)
def gen_race(rng):
    """Distinct keys, `max_batch_size` 1..2, the slots saturated and batches waiting for one, while further calls
    arrive at the very instants at which running batches finish - each a few loop iterations into the instant, the
    batch function a few iterations into its own.  Which of a release and an arrival of the same instant comes first
    is not the model's business (it flags the tie); arrival order across batches, sizes and the concurrency limit do
    not depend on it and are judged by the monitors."""
    D = rng.choice([8, 16])
    cfg = dict(maxb=rng.choice([1, 1, 2]), maxc=rng.choice([1, 1, 2]), bt=rng.choice([0, D]), ret=0)
    n = rng.randint(3, 7)
    ins = []
    t = 0
    for i in range(n):
        t += rng.choice([0, 1, D, D, D, 2 * D, D // 2])
        ins.append(('c', t, i, rng.randint(0, 9), i, 0, rng.choice([0, 0, 1, 2, 3])))
    if rng.random() < 0.4:
        # a burst larger than everything that can be in flight at once (max_batch_size * max_concurrent_batches), all
        # in one loop iteration, and one or two calls a few iterations later in the same instant: whatever queues the
        # implementation keeps between the callers and the batch function, arrival order is arrival order
        B = cfg['maxb'] * cfg['maxc']
        n = B + rng.randint(1, 4)
        t0 = rng.choice([0, 3, D])
        ins = [('c', t0, i, rng.randint(0, 9), i, 0, 0) for i in range(n)]
        for j in range(rng.randint(1, 2)):
            ins.append(('c', t0, n + j, rng.randint(0, 9), n + j, 0, rng.choice([1, 2, 3]) + 3 * j))
        if rng.random() < 0.5:
            ins.append(('c', t0 + rng.choice([1, D, 3 * D]), n + 2, rng.randint(0, 9), n + 2, 0, rng.choice([0, 1, 2])))
    plan = dict(per=[[0] * 6 for _ in range(12)], order=0, raiseAt=[99] * 12, idelay=D, tail=rng.choice([0, 0, D]),
                hops=rng.choice([0, 1, 2, 3]))
    return cfg, ins, plan


# ------------------------------------------------------------------ cancel variants (C09, the theorem's shape)
GHOST = 900


def gen_variant(rng):
    """A c09-flavoured program of calls only; the cancellations are chosen by `run_variant` from what a first run
    shows (so that they land on the very instants at which answers are produced)."""
    cfg, ins, plan = gen(rng, 'c09')
    calls = [i for i in ins if i[0] == 'c']
    return cfg, calls, plan, rng.getrandbits(32)


def variant_ops(cfg, calls, plan, pick):
    """Run the calls alone, then choose 1..3 victims and, for each, an instant among: the instant it is answered
    (and one tick either side), the instant its batch starts, the instants of the batch function's actions, its
    own call instant; each with 0..3 loop iterations of delay."""
    rng = random.Random(pick)
    base = run_real(cfg, calls, plan)
    done = {e[2]: e[1] for e in base if e[0] == 'done'}
    marks = sorted({e[1] for e in base if e[0] in ('batch', 'act')})
    tcall = {i[2]: i[1] for i in calls}
    victims = rng.sample(sorted(tcall), min(len(tcall), rng.randint(1, 3)))
    xs = []
    for v in victims:
        cand = [tcall[v]]
        if v in done:
            cand += [done[v]] * 4 + [done[v] + 1, max(tcall[v], done[v] - 1)]
        cand += [m for m in marks if m >= tcall[v]][:6]
        t = rng.choice(cand)
        k = rng.choice([1, 2, 3]) if t == tcall[v] else rng.choice([0, 1, 2, 3])
        xs.append(('x', t, v, k))
    return base, xs


def merge_ops(calls, xs):
    ins = list(calls) + list(xs)
    ins.sort(key=lambda i: (i[1], 0 if i[0] == 'm' else 1 if i[0] == 'c' else 2))
    return ins


def run_variant(cfg, calls, plan, pick):
    """The two runs the theorem C09_cancellations_invisible compares: the victims cancelled at the chosen instants,
    and the same program with those cancellations aimed at caller ids that never called.  Returns
    (xs, with, without)."""
    _, xs = variant_ops(cfg, calls, plan, pick)
    ghosts = [('x', x[1], GHOST + j, x[3]) for j, x in enumerate(xs)]
    a = run_real(cfg, merge_ops(calls, xs), plan)
    b = run_real(cfg, merge_ops(calls, ghosts), plan)
    return xs, a, b


def monitor_variant(calls, xs, a, b):
    """C09: every caller that was not cancelled gets, in the run with the cancellations, exactly the outcome it
    gets in the run without them, and nobody stays pending."""
    bad = []
    victims = {x[2] for x in xs}
    da = {e[2]: e[3] for e in a if e[0] == 'done'}
    db = {e[2]: e[3] for e in b if e[0] == 'done'}
    pa = sorted(e[1] for e in a if e[0] == 'pending')
    pb = sorted(e[1] for e in b if e[0] == 'pending')
    if pb:
        return bad                      # the baseline itself leaves callers pending: C04's business, not judged here
    for i in calls:
        cid = i[2]
        if cid in victims:
            continue
        if cid in pa:
            bad.append(('C09', 'pending-forever', f'caller {cid} (key {i[4]}) never completes when {sorted(victims)} are '
                                                  f'cancelled at {xs}; without the cancellations it gets {db.get(cid)}'))
        elif da.get(cid) != db.get(cid):
            bad.append(('C09', 'outcome-changed', f'caller {cid} (key {i[4]}) gets {da.get(cid)} when {sorted(victims)} are '
                                                  f'cancelled at {xs}, and {db.get(cid)} without the cancellations'))
    return bad


# ------------------------------------------------------------------ chained re-requests (C11)
def gen_chain(rng):
    """A few callers, each of which re-requests its key in the very step in which it is resumed with its
    answer (`await b(x); await b(x)`), possibly a third time after a pause.  Judged by `monitor_chain` only."""
    bt = 64
    cfg = dict(maxb=rng.randint(1, 4), maxc=rng.randint(1, 3), bt=bt, ret=rng.choice([0, 0, 0, 96, 640]))
    nkeys = rng.randint(1, 3)
    n = rng.randint(1, 4)
    t = 0
    callers = []
    for i in range(n):
        t += rng.choice([0, 16, bt + 16, 3 * bt])
        callers.append(dict(t=t, key=rng.randrange(nkeys), dk=rng.random() < 0.3, arg=rng.randint(0, 9),
                            again=rng.choice([1, 1, 2]), pause=rng.choice([0, 0, 1, bt])))
    plan = dict(per=[[rng.choice([0, 0, 0, 1]) for _ in range(6)] for _ in range(nkeys)], order=rng.choice([0, 1, 2]),
                raiseAt=[rng.choice([99, 99, 99, 0]) for _ in range(12)], idelay=rng.choice([0, 16, 48]),
                tail=rng.choice([0, 16]))
    return cfg, callers, plan


def run_chain(cfg, callers, plan):
    """Returns per caller the list of (issued at, answered at, outcome) of its successive requests, and the
    batches [(t, id, keys)]."""
    from aiuti.asyncio import AsyncBackgroundBatcher
    loop = VLoop()
    loop.horizon = HORIZON * 4 * TICK
    asyncio.set_event_loop(loop)
    now = lambda: round(loop.time() / TICK)
    beh = Behaviour(plan)
    batches = []
    res = {}

    async def main():
        async def bf(batch):
            batch = list(batch)
            b, script = beh([(int(k), a) for k, a in batch])
            batches.append((now(), b, [int(k) for k, _ in batch]))
            for idx, (d, act) in enumerate(script):
                await asyncio.sleep(d * TICK)
                if act[0] == 'yield':
                    r = act[2]
                    yield str(act[1]), (E(r[1]) if r[0] == 'err' else tuple(r[1:]))
                elif act[0] == 'raise':
                    raise E(act[1])
        bt = AsyncBackgroundBatcher(bf, max_batch_size=cfg['maxb'], max_concurrent_batches=cfg['maxc'],
                                    batch_timeout=cfg['bt'] * TICK, retention_timeout=cfg['ret'] * TICK)

        async def once(c):
            t0 = now()
            try:
                r = await (bt(c['key']) if c['dk'] else bt(c['arg'], key=str(c['key'])))
                oc = ('ok',) + tuple(r)
            except (E, EB) as e:
                oc = ('exc', e.args[0])
            except KeyError:
                oc = ('exc', KEYERROR)
            except ValueError:
                oc = ('exc', MISSING)
            return (t0, now(), oc)

        async def caller(i, c):
            await asyncio.sleep(c['t'] * TICK)
            out = [await once(c)]
            for k in range(c['again']):
                if k == 1 and c['pause']:
                    await asyncio.sleep(c['pause'] * TICK)
                out.append(await once(c))          # no suspension between the answer and the re-request
            res[i] = out
        ts = [asyncio.create_task(caller(i, c)) for i, c in enumerate(callers)]
        await asyncio.wait(ts, timeout=HORIZON * TICK)
        for t in ts:
            if not t.done():
                t.cancel()
        await asyncio.sleep(0)
    try:
        loop.run_until_complete(main())
    finally:
        try:
            loop.run_until_complete(loop.shutdown_asyncgens())
        except BaseException:  # noqa
            pass
        loop.close()
        asyncio.set_event_loop(None)
    return res, batches


def gen_idle(rng):
    """C11: one loop used, left alone for a while (not running, or busy with synchronous work), used again."""
    R = rng.choice([0, 96, 640])
    return {'ret': R, 'bt': rng.choice([4, 16]), 'dur': rng.choice([0, 8, 48]),
            # idle phase measured from the answer of the first call: inside the window, at its edge, far beyond
            'idle': rng.choice([R // 2, max(0, R - 1), R + 1, 3 * R + 7, 5000]),
            # calls for the same key (and one bystander key) made right after the idle phase, before the loop has had
            # a chance to run the timers that became due meanwhile; then a straggler while that work is pending / done
            'after': rng.randint(1, 3), 'bystander': rng.random() < 0.5,
            'straggler': rng.choice([None, 0, 1, 2, 60]), 'how': rng.choice(['stopped', 'busy'])}


def run_idle(cfg):
    """Returns (results: tag -> (issued, answered, value), batches [(t, keys)], t_done of the first call)."""
    from aiuti.asyncio import AsyncBackgroundBatcher
    loop = VLoop()
    loop.horizon = HORIZON * 4 * TICK
    asyncio.set_event_loop(loop)
    now = lambda: round(loop.time() / TICK)
    batches = []
    res = {}
    info = {}

    async def bf(batch):
        batch = list(batch)
        batches.append((now(), [k for k, _ in batch]))
        n = len(batches)
        await asyncio.sleep(cfg['dur'] * TICK)
        for k, a in batch:
            yield k, ('v', k, n)

    async def once(bt, tag, key):
        t0 = now()
        try:
            r = await asyncio.wait_for(bt(key), HORIZON * TICK)
        except BaseException as e:  # noqa
            r = ('failed', type(e).__name__)
        res[tag] = (t0, now(), r)

    async def first():
        info['bt'] = AsyncBackgroundBatcher(bf, max_batch_size=4, max_concurrent_batches=2,
                                            batch_timeout=cfg['bt'] * TICK, retention_timeout=cfg['ret'] * TICK)
        await once(info['bt'], 'first', 1)
        info['done'] = now()

    async def second():
        bt = info['bt']
        ts = [asyncio.ensure_future(once(bt, f'after{i}', 1)) for i in range(cfg['after'])]
        if cfg['bystander']:
            ts.append(asyncio.ensure_future(once(bt, 'bystander', 2)))
        if cfg['straggler'] is not None:
            await asyncio.sleep(cfg['straggler'] * TICK)
            ts.append(asyncio.ensure_future(once(bt, 'straggler', 1)))
        await asyncio.wait(ts, timeout=2 * HORIZON * TICK)

    async def busy_then_second():
        loop.block(cfg['idle'] * TICK)      # a callback doing synchronous work: nothing else runs meanwhile
        await second()
    try:
        loop.run_until_complete(first())
        if cfg['how'] == 'stopped':
            loop.block(cfg['idle'] * TICK)
            loop.run_until_complete(second())
        else:
            loop.run_until_complete(busy_then_second())
    finally:
        try:
            loop.run_until_complete(loop.shutdown_asyncgens())
        except BaseException:  # noqa
            pass
        loop.close()
        asyncio.set_event_loop(None)
    return res, batches, info.get('done')


def monitor_idle(cfg, res, batches, t_done):
    bad = []
    R = cfg['ret']
    for t, keys in batches:
        if len(keys) != len(set(keys)):
            bad.append(('C11', 'duplicate-key-in-batch', f'batch at {t} carries {keys}'))
    for tag, (t0, t1, r) in res.items():
        if r[0] != 'v':
            bad.append(('C11', 'call-not-served', f'{tag} (issued at {t0}) ended with {r}'))
    expected = 1 + cfg['after'] + (1 if cfg['bystander'] else 0) + (1 if cfg['straggler'] is not None else 0)
    if len(res) != expected:
        bad.append(('C11', 'call-never-answered', f'{expected} calls were made, answered: {sorted(res)}'))
    if bad or 'first' not in res:
        return bad
    old = res['first'][2]
    n1 = sum(1 for t, keys in batches if 1 in keys or '1' in keys)
    afters = [res[f'after{i}'] for i in range(cfg['after']) if f'after{i}' in res]
    issued = afters[0][0] if afters else None
    if issued is not None and R > 0 and issued < t_done + R:
        # inside the window: everybody shares the remembered outcome, no new work
        for a in afters:
            if a[2] != old:
                bad.append(('C11', 'window-not-honoured', f'a call at {a[0]}, {a[0] - t_done} ticks after the answer '
                            f'(retention {R}), got {a[2]} instead of the remembered {old}'))
    if issued is not None and issued > t_done + R:
        # after the window (the timer that forgets the key could not run during the idle phase): one fresh
        # computation, shared by all the calls made together
        vals = {a[2] for a in afters}
        if old in vals:
            bad.append(('C11', 'old-result-after-window', f'a call {issued - t_done} ticks after the answer (retention '
                        f'{R}) got the old result {old}'))
        if len(vals) > 1:
            bad.append(('C11', 'pending-request-not-shared', f'{len(afters)} same-key calls made in one step got '
                        f'different computations: {sorted(vals)}'))
        st = res.get('straggler')
        extra = 0
        if st is not None and R == 0 and st[0] >= afters[0][1]:
            extra = 1           # nothing is remembered with retention 0: a call after the answer is computed afresh
        if st is not None and R > 0 and st[2] not in vals:
            bad.append(('C11', 'pending-request-not-shared', f'a same-key call {st[0] - issued} ticks later, while '
                        f'the fresh request was pending or remembered, got {st[2]} instead of sharing {sorted(vals)}'))
        if n1 > 2 + extra:
            bad.append(('C11', 'extra-work', f'key 1 was handed to the batch function {n1} times (batches {batches}); '
                        f'expected the first computation and one fresh one'))
    return bad


def batch_of(oc):
    """The batch index an outcome carries (values and batch-function exceptions are stamped), else None."""
    if oc[0] == 'ok' and len(oc) == 4:
        return oc[3]
    if oc[0] == 'exc' and isinstance(oc[1], int):
        if 1000 <= oc[1] < 2000:
            return oc[1] - 1000
        if oc[1] >= 2000:
            return (oc[1] - 2000) % 100
    return None


def monitor_chain(cfg, callers, res, batches):
    """C11 on the re-requests: with retention_timeout = 0 nothing is remembered once the caller has been
    answered - the re-request made in that very step is computed afresh (another batch); inside a
    retention window it shares the answer; after the window it is fresh again."""
    bad = []
    for i, c in enumerate(callers):
        rs = res.get(i)
        if rs is None:
            bad.append(('C11', 'pending-forever', (i, c)))
            continue
        for (a, b) in zip(rs, rs[1:]):
            ba, bb = batch_of(a[2]), batch_of(b[2])
            if ba is None or bb is None:
                continue
            if a[0] == a[1]:
                continue        # `a` was issued at the very instant of the answer: an exact tie, not judged
            gap = b[0] - a[1]
            if cfg['ret'] == 0 and ba == bb:
                bad.append(('C11', 'remembered-with-zero-retention',
                            f'caller {i} (key {c["key"]}) was answered by batch {ba} at {a[1]} and its re-request issued '
                            f'at {b[0]} got the outcome of the same batch: {b[2]}'))
            if cfg['ret'] > 0 and gap < cfg['ret'] and ba != bb and not any(
                    # another caller's fresh work may legitimately have replaced the key in between
                    False for _ in ()):
                # inside the window the key is remembered - unless the remembered request is not `a` itself
                # (a sharer's window counts from the original completion); judged only when `a` was the
                # work-creating request: its batch started after it was issued
                started = next((t for (t, bid, ks) in batches if bid == ba), None)
                orig_done = a[1]
                if started is not None and started >= a[0] and b[0] < orig_done + cfg['ret']:
                    bad.append(('C11', 'recomputed-inside-window',
                                f'caller {i} (key {c["key"]}): answered by batch {ba} at {a[1]}, re-request at {b[0]} '
                                f'(window {cfg["ret"]}) was computed again by batch {bb}'))
            if cfg['ret'] > 0 and ba == bb:
                comp = a[1]
                if b[0] > comp + cfg['ret']:
                    bad.append(('C11', 'stale-after-window',
                                f'caller {i} (key {c["key"]}): re-request at {b[0]}, more than {cfg["ret"]} after the '
                                f'answer at {comp}, still got batch {ba}'))
    for (t, bid, ks) in batches:
        if len(set(ks)) != len(ks):
            bad.append(('C11', 'dup-key-in-batch', (t, bid, ks)))
    return bad


# ------------------------------------------------------------------ monitors
def spec_outcome(script, keys, key):
    """The property's reading of one batch: the first yield for the key, unless a raise, a repeated or
    an unknown key comes first; a key never yielded is an error. Returns (outcome, action index)."""
    seen = set()
    for idx, (d, act) in enumerate(script):
        if act[0] == 'yield':
            k, r = act[1], act[2]
            if k in seen or k not in keys:
                return ('exc', KEYERROR), idx
            seen.add(k)
            if k == key and r[0] == 'stop':
                return ('exc', TYPEERROR), idx      # a StopIteration instance reaches its caller wrapped in a RuntimeError
            if k == key:
                return (('exc', r[1]) if r[0] == 'err' else ('ok',) + tuple(r[1:])), idx
        elif act[0] == 'raise':
            return ('exc', act[1]), idx
        elif act[0] == 'fin':
            return ('exc', MISSING), idx
    return None, None


def analyse(cfg, ins, evs):
    """Reconstruct, from the observed events only, which calls created work, which batch carried them
    and when each piece of work completed. Returns dict or a ('bad', reason)."""
    batches = [e for e in evs if e[0] == 'batch']
    acts = {(e[2], e[3]): e[1] for e in evs if e[0] == 'act'}
    ends = {e[2]: e[1] for e in evs if e[0] == 'batchend'}
    done = {e[2]: e for e in evs if e[0] == 'done'}
    flat = [(b[2], k) for b in batches for k in b[3]]
    bymeta = {b[2]: b for b in batches}

    def completion(widx):
        if widx >= len(flat):
            return None, None
        bid, k = flat[widx]
        b = bymeta[bid]
        oc, idx = spec_outcome(b[4], set(b[3]), k)
        if oc is None:
            return None, None
        t = acts.get((bid, idx))
        return (t, oc) if t is not None else (None, None)
    work = []          # (t, cid, key)
    window = {}        # key -> work index
    answered_by = {}   # cid -> work index
    for i in ins:
        if i[0] != 'c':
            continue
        _, t, cid, arg, key, dk = i[:6]
        w = window.get(key)
        if w is not None:
            comp, _ = completion(w)
            if comp is None or t < comp or (cfg['ret'] > 0 and t < comp + cfg['ret']):
                answered_by[cid] = w
                continue
            if t == comp or (cfg['ret'] > 0 and t == comp + cfg['ret']):
                return {'tie': True}
        window[key] = len(work)
        answered_by[cid] = len(work)
        work.append((t, cid, key))
    return dict(batches=batches, acts=acts, ends=ends, done=done, flat=flat, work=work,
                answered_by=answered_by, completion=completion, bymeta=bymeta)


def monitors(cfg, ins, evs, want, timing=True):
    """Property-level monitors on one real execution. `want` = set of property ids to judge.
    Returns list of (property, kind, detail).  `timing=False`: an input coincided with an internal event of the
    machine (a tie): only the monitors that do not depend on which of the two came first are applied (sizes,
    duplicate keys, the concurrency limit, arrival order across batches, nobody pending, outcomes)."""
    bad = []
    a = analyse(cfg, ins, evs)
    if a.get('tie'):
        return bad
    batches, ends, done = a['batches'], a['ends'], a['done']
    cancelled = {i[2]: i[1] for i in ins if i[0] == 'x'}
    maxes = sorted([(i[1], i[2]) for i in ins if i[0] == 'm'])
    pend = [e[1] for e in evs if e[0] == 'pending']
    if pend:
        for p in ('C04', 'C09'):
            if p in want:
                bad.append((p, 'pending-forever', pend))
    # ---- C10 size / non-empty, C11 no duplicate key, C10 concurrency
    def limit_during(t0, t1):
        lim = cfg['maxb']
        best = None
        for (tm, n) in maxes:
            if tm <= t0:
                lim = n
        best = lim
        for (tm, n) in maxes:
            if t0 < tm <= t1:
                best = max(best, n)
        return best
    wi = 0
    for b in batches:
        items = a['work'][wi:wi + len(b[3])]
        wi += len(b[3])
        first = items[0][0] if items else b[1]
        lim = limit_during(first, b[1])
        if 'C10' in want and not (1 <= len(b[3]) <= max(1, lim)):
            bad.append(('C10', 'size', (b[1], b[2], b[3], lim)))
        if 'C11' in want and len(set(b[3])) != len(b[3]):
            bad.append(('C11', 'dup-key-in-batch', (b[1], b[2], b[3])))
    if 'C10' in want:
        evq = sorted([(b[1], 1, b[2]) for b in batches] + [(ends[b[2]], 0, b[2]) for b in batches if b[2] in ends])
        run = 0
        for t, kind, _ in evq:
            run += 1 if kind else -1
            if run > cfg['maxc']:
                bad.append(('C10', 'concurrency', t))
                break
    # ---- FIFO / sharing: the keys handed to the batch function, in start order, are exactly the
    # work-creating calls in arrival order
    flatk = [k for _, k in a['flat']]
    workk = [k for _, _, k in a['work']]
    if workk != flatk:
        # decide who is to blame: same multiset & no sharing difference -> order (C10) else C11
        if len(workk) == len(flatk) and sorted(workk) == sorted(flatk):
            if 'C10' in want:
                bad.append(('C10', 'fifo', (workk, flatk)))
        else:
            if 'C11' in want:
                bad.append(('C11', 'sharing-or-fresh', (workk, flatk)))
            if 'C10' in want and len(set(workk)) == len(workk):
                bad.append(('C10', 'fifo', (workk, flatk)))
        return bad
    # ---- C10 deadline / early / sharing of a batch (no limit change in the run: timing is exact)
    if 'C10' in want and not maxes and timing:
        i = 0
        pos = {}
        for bi, b in enumerate(batches):
            items = a['work'][i:i + len(b[3])]
            for j in range(len(b[3])):
                pos[i + j] = bi
            i += len(b[3])
            if not items:
                continue
            last = items[-1][0]
            due = last + cfg['bt'] if len(b[3]) < cfg['maxb'] else last
            running = sum(1 for o in batches if o[2] != b[2] and o[1] <= due and ends.get(o[2], 10 ** 12) > due
                          and o[2] < b[2])
            earlier_waiting = any(o[2] < b[2] and o[1] > due for o in batches)
            if running < cfg['maxc'] and not earlier_waiting and b[1] > due:
                bad.append(('C10', 'late', (b[1], b[2], b[3], last)))
            if len(b[3]) < cfg['maxb'] and b[1] < last + cfg['bt']:
                bad.append(('C10', 'early', (b[1], b[2], b[3], last)))
        w = a['work']
        for j in range(len(w) - 1):
            if j + 1 in pos and w[j + 1][0] - w[j][0] < cfg['bt'] and pos[j] != pos[j + 1] \
                    and len(batches[pos[j]][3]) < cfg['maxb']:
                bad.append(('C10', 'not-shared', (w[j], w[j + 1])))
    # ---- outcomes: every caller that was not cancelled gets the spec outcome of the batch that carried
    # its key (C04 without cancellation, C09 with), sharers get the original's outcome (C11)
    for i in ins:
        if i[0] != 'c':
            continue
        cid, key = i[2], i[4]
        w = a['answered_by'].get(cid)
        if w is None or w >= len(a['flat']):
            continue
        comp, exp = a['completion'](w)
        if exp is None or cid not in done:
            continue
        got = done[cid][3]
        if cid in cancelled and (got == ('cancelled',)):
            if comp is not None and cancelled[cid] > comp and 'C09' in want:
                pass       # cancelled after completion: either outcome is legitimate at the same instant
            continue
        if tuple(got) != tuple(exp):
            shared = a['work'][w][1] != cid
            for p in (('C09',) if cancelled else ('C11', 'C04') if shared else ('C04',)):
                if p in want:
                    bad.append((p, 'outcome', (cid, key, got, exp)))
            if cancelled and 'C04' in want and not want & {'C09'}:
                bad.append(('C04', 'outcome', (cid, key, got, exp)))
    return bad
