"""Tie B: regenerate Lean data about the three decorators from /repo/aiuti/asyncio.py (ast).

For each decorator we extract
  options      keyword-only parameters of the decorator (name, repr of the default)
  partial      keyword -> value-name pairs re-bound by `partial(<decorator>, ...)` in the `func is None` branch
  ctor         keyword -> value-name pairs handed to the underlying constructor in the direct branch
  uses         option names read anywhere in the direct branch (outside `if func is None`)
and write lean/AiutiVerif/Generated/Decorators.lean.  Source the translator does not understand
raises TranslateError: the tie is then reported as broken by the check (never silently ignored).
"""
import ast
import os

from ..core.common import REPO, LEAN_DIR

DECORATORS = {
    'threadsafe_async_cache': None,                 # no constructor: the option is used in the body
    'buffer_until_timeout': 'BufferAsyncCalls',
    'async_background_batcher': 'AsyncBackgroundBatcher',
}
OUT = os.path.join(LEAN_DIR, 'AiutiVerif', 'Generated', 'Decorators.lean')


class TranslateError(Exception):
    pass


NOTES = []      # how the data was obtained this time (goes into the evidence)


def _is_func_none_test(t):
    return (isinstance(t, ast.Compare) and isinstance(t.left, ast.Name) and t.left.id == 'func'
            and len(t.ops) == 1 and isinstance(t.ops[0], ast.Is)
            and isinstance(t.comparators[0], ast.Constant) and t.comparators[0].value is None)


def _const(tree, node):
    """A literal number, or a module-level name bound once to one."""
    if isinstance(node, ast.Constant) and isinstance(node.value, (int, float)):
        return node.value
    if isinstance(node, ast.Name):
        vals = [st.value.value for st in tree.body if isinstance(st, ast.Assign) and len(st.targets) == 1
                and isinstance(st.targets[0], ast.Name) and st.targets[0].id == node.id
                and isinstance(st.value, ast.Constant) and isinstance(st.value.value, (int, float))]
        if len(vals) == 1:
            return vals[0]
    return None


def _is_partial(f):
    return ((isinstance(f, ast.Name) and f.id == 'partial')
            or (isinstance(f, ast.Attribute) and f.attr == 'partial' and isinstance(f.value, ast.Name)
                and f.value.id == 'functools'))


def _kw_pairs(call):
    pairs = []
    for kw in call.keywords:
        if kw.arg is None:
            raise TranslateError('**kwargs in a call the translator must read')
        val = kw.value.id if isinstance(kw.value, ast.Name) else ast.dump(kw.value)
        pairs.append((kw.arg, val))
    return pairs


def extract(source):
    tree = ast.parse(source)
    found = {}
    for node in tree.body:
        if isinstance(node, ast.FunctionDef) and node.name in DECORATORS and not any(
                isinstance(d, ast.Name) and d.id == 'overload' for d in node.decorator_list):
            found[node.name] = node
    res = []
    for name, ctor in DECORATORS.items():
        fn = found.get(name)
        if fn is None:
            raise TranslateError(f'decorator {name} not found')
        opts = [(a.arg, ast.unparse(d) if d is not None else '<required>')
                for a, d in zip(fn.args.kwonlyargs, fn.args.kw_defaults)]
        none_branch = None
        rest = []
        for st in fn.body:
            if isinstance(st, ast.If) and _is_func_none_test(st.test) and none_branch is None:
                none_branch = st
            else:
                rest.append(st)
        if none_branch is None:
            raise TranslateError(f'{name}: no `if func is None` branch')
        partial_pairs = None
        for sub in ast.walk(none_branch):
            if isinstance(sub, ast.Call) and _is_partial(sub.func):
                if not (sub.args and isinstance(sub.args[0], ast.Name) and sub.args[0].id == name):
                    raise TranslateError(f'{name}: partial() of something else')
                if len(sub.args) != 1:
                    raise TranslateError(f'{name}: partial() with positional arguments')
                partial_pairs = _kw_pairs(sub)
        if partial_pairs is None:
            raise TranslateError(f'{name}: the options branch does not return partial({name}, ...)')
        ctor_pairs = []
        uses = set()
        for st in rest:
            for sub in ast.walk(st):
                if isinstance(sub, ast.Name) and isinstance(sub.ctx, ast.Load):
                    uses.add(sub.id)
                if ctor and isinstance(sub, ast.Call) and isinstance(sub.func, ast.Name) and sub.func.id == ctor:
                    ctor_pairs = _kw_pairs(sub)
        res.append(dict(name=name, ctor=ctor or '', options=opts, partial=partial_pairs,
                        ctor_pairs=ctor_pairs, uses=sorted(u for u in uses if u in {o for o, _ in opts})))
    # constants the models take as parameters
    consts = {}
    for node in ast.walk(tree):
        if isinstance(node, ast.Call) and isinstance(node.func, ast.Attribute) and node.func.attr == 'wait_for':
            if len(node.args) == 2:
                v = _const(tree, node.args[1])
                if v is not None:
                    consts['cache_safety_timeout'] = v
    return res, consts


def extract_dynamic(source):
    """The same data read off the *loaded* code instead of its text, for sources whose shape the ast reader does not
    know (the options re-bound through a helper, the constructor called from a helper object, ...): every option is
    given a distinct sentinel value; `partial` = the keywords of the functools.partial object the options form
    returns; `ctor` = the keywords the underlying constructor (replaced by a recorder) receives when the direct form
    is used; `uses` = the options that arrive there (for the cache: the supplied mapping is the store)."""
    import asyncio
    import functools
    import aiuti.asyncio as A
    tree = ast.parse(source)
    res = []
    for name, ctor in DECORATORS.items():
        fn = next((n for n in tree.body if isinstance(n, ast.FunctionDef) and n.name == name and not any(
            isinstance(d, ast.Name) and d.id == 'overload' for d in n.decorator_list)), None)
        if fn is None:
            raise TranslateError(f'decorator {name} not found')
        opts = [(a.arg, ast.unparse(d) if d is not None else '<required>')
                for a, d in zip(fn.args.kwonlyargs, fn.args.kw_defaults)]
        deco = getattr(A, name)
        sent = {}
        for k, (o, _) in enumerate(opts):
            sent[o] = _Mapping() if o == 'cache' else 1000.0 + 7 * k
        back = {id(v): o for o, v in sent.items()}

        def names(kws):
            out = []
            for kw, v in kws.items():
                src = back.get(id(v)) or next((o for o, sv in sent.items() if not isinstance(sv, dict) and sv == v), None)
                if src is None:
                    raise TranslateError(f'{name}: keyword {kw} carries a value that is none of the options')
                out.append((kw, src))
            return out
        p = deco(**sent)
        if not isinstance(p, functools.partial) or p.func is not deco or p.args:
            raise TranslateError(f'{name}: the options form does not return functools.partial({name}, ...)')
        partial_pairs = names(p.keywords)
        ctor_pairs, uses = [], []
        if ctor:
            seen = {}

            class Recorder:
                def __init__(self, func, **kw):
                    seen.update(kw)

                async def __call__(self, *a, **kw):
                    return None
            real = getattr(A, ctor)
            setattr(A, ctor, Recorder)
            try:
                async def target(x):
                    return None
                w = deco(target, **sent)
                if not seen:                        # constructed lazily, inside a running loop
                    async def main():
                        await w(0)
                    loop = asyncio.new_event_loop()
                    try:
                        loop.run_until_complete(main())
                    finally:
                        loop.close()
            finally:
                setattr(A, ctor, real)
            ctor_pairs = names(seen)
            uses = sorted({src for _, src in ctor_pairs})
        else:
            async def target(x):
                return x
            w = deco(target, **sent)
            loop = asyncio.new_event_loop()
            try:
                loop.run_until_complete(w(1))
            finally:
                loop.close()
            uses = sorted(o for o, v in sent.items() if isinstance(v, dict) and len(v))
        res.append(dict(name=name, ctor=ctor or '', options=opts, partial=partial_pairs, ctor_pairs=ctor_pairs, uses=uses))
    consts = {}
    for node in ast.walk(tree):
        if isinstance(node, ast.Call) and isinstance(node.func, ast.Attribute) and node.func.attr == 'wait_for':
            if len(node.args) == 2:
                v = _const(tree, node.args[1])
                if v is not None:
                    consts['cache_safety_timeout'] = v
    return res, consts


class _Mapping(dict):
    pass


def lean_str(s):
    return '"' + s.replace('\\', '\\\\').replace('"', '\\"') + '"'


def render(res, consts):
    def pairs(ps):
        return '[' + ', '.join(f'({lean_str(a)}, {lean_str(b)})' for a, b in ps) + ']'
    lines = ['/-! GENERATED by harness/comp/decorators.py from /repo/aiuti/asyncio.py — do not edit. -/',
             'namespace AiutiVerif.Generated', '',
             'structure Deco where',
             '  name : String',
             '  ctor : String                          -- underlying constructor ("" = option used in the body)',
             '  options : List (String × String)       -- keyword-only option, source text of its default',
             '  partialBinds : List (String × String)  -- keyword ↦ value name in `partial(deco, …)`',
             '  ctorBinds : List (String × String)     -- keyword ↦ value name in the constructor call',
             '  uses : List String                     -- options read in the direct branch',
             '  deriving Repr, DecidableEq', '',
             'def decorators : List Deco := [']
    items = []
    for d in res:
        items.append('  { name := %s, ctor := %s,\n    options := %s,\n    partialBinds := %s,\n    ctorBinds := %s,\n    uses := %s }'
                     % (lean_str(d['name']), lean_str(d['ctor']), pairs(d['options']), pairs(d['partial']),
                        pairs(d['ctor_pairs']), '[' + ', '.join(lean_str(u) for u in d['uses']) + ']'))
    lines.append(',\n'.join(items) + ']')
    lines.append('')
    lines.append(f"def cacheSafetyTimeout : Nat := {int(consts.get('cache_safety_timeout', 0))}")
    lines += ['', 'end AiutiVerif.Generated', '']
    return '\n'.join(lines)


def regenerate():
    """Rewrite the generated file when the source says something else now. Returns (data, consts)."""
    with open(os.path.join(REPO, 'aiuti', 'asyncio.py')) as f:
        src = f.read()
    try:
        res, consts = extract(src)
        if any(d['ctor'] and not d['ctor_pairs'] for d in res):
            raise TranslateError('the constructor call is not in the decorator body')
    except TranslateError as first:
        try:
            res, consts = extract_dynamic(src)
        except TranslateError:
            raise
        except Exception as e:  # noqa
            raise TranslateError(f'{first}; reading the loaded code failed too: {type(e).__name__}: {e}')
        NOTES.append(f'Tie B read the decorators off the loaded code (the ast reader said: {first})')
    text = render(res, consts)
    old = None
    if os.path.exists(OUT):
        with open(OUT) as f:
            old = f.read()
    if old != text:
        os.makedirs(os.path.dirname(OUT), exist_ok=True)
        with open(OUT, 'w') as f:
            f.write(text)
    return res, consts
