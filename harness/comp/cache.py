"""threadsafe_async_cache under the baton scheduler: hook-free instrumentation (lock class, cache mapping,
in-flight table, events, loop-state reads), loop life-cycle scripts, observation trace for the Lean LTS,
property monitors (C01, C05, C06)."""
import asyncio
import collections
import contextvars
import functools
import sys
import threading
import types

from ..core import attach
from ..core.baton import Sched, BLoop


class Boom(Exception):
    def __len__(self):          # falsy when its code is even: `if exc:` and concurrent.futures' result() overlook it
        return int(self.args[0]) % 2 if self.args and isinstance(self.args[0], int) else 1


class Rejected(tuple):
    """a result the supplied mapping refuses to store"""


class StoreBoom(Exception):
    pass


class FalsyV(tuple):
    def __bool__(self):
        return False


class BoomBase(BaseException):
    """A failure of the wrapped function that is not an `Exception` (a control-flow exception deriving from
    BaseException): for the property it is a failed computation like any other."""


class CEnv:
    def __init__(self, S):
        self.S = S
        self.obs = []
        self.task2c = {}
        self.owner_phase = {}      # caller -> True from the start of its invocation until its release decision
        self.contains_hit = {}     # caller -> True right after a successful `key in table` test
        self.pending_md = {}       # caller -> True while between events.get(...) and the delete decision
        self.inv = []              # invocation records
        self.results = {}          # caller -> dict
        self.loops = []            # index -> loop object
        self.lock_owner = None
        self.dead = False
        self.keep = []             # every task created: nothing is finalized by the garbage collector during the run
        self.none_pending = {}     # caller -> invocation whose result was None (a value like any other)
        self.last_get = {}         # caller -> invocation whose value it last read from the cache

    def cur(self):
        if self.dead:
            return None
        try:
            t = asyncio.current_task()
        except RuntimeError:
            return None
        return self.task2c.get(t)


ENV = None
# the caller on whose behalf code runs: a task the wrapper may create for the wrapped function inherits it (the function
# need not run in the caller's own task)
CALLER = contextvars.ContextVar('aiuti_verif_cache_caller', default=None)


def _flush_md(E, c):
    if E.pending_md.pop(c, None):
        E.obs.append(f'md:{c}:0')
        E.owner_phase.pop(c, None)


class ILock:
    """`event_making_lock`: a blocking lock (it blocks the whole loop thread, as the real one does)."""

    def __init__(self, E):
        self.owner = None
        self.E = E

    def __enter__(self):
        E = self.E
        c = E.cur()
        if c is None:              # a finalizer of an abandoned coroutine (garbage collection): not part of the run
            return self
        E.S.point('lock.acquire', enabled=lambda: self.owner is None)
        self.owner = c
        E.obs.append(f'la:{c}')
        return self

    def __exit__(self, *a):
        E = self.E
        c = E.cur()
        if c is None:
            return
        E.S.point('lock.release')
        self.owner = None
        _flush_md(E, c)
        E.obs.append(f'lr:{c}')


class ICache(collections.abc.MutableMapping):
    def __init__(self, E, capacity=None):
        self.d = collections.OrderedDict()
        self.me_of = {}            # key -> invocation that produced the stored value (None values carry no tag)
        self.capacity = capacity
        self.E = E

    def __getitem__(self, k):
        E = self.E
        c = E.cur()
        if c is None:
            return self.d[k]
        E.S.point('cache.get')
        try:
            v = self.d[k]
        except KeyError:
            E.obs.append(f'cg:{c}:m')
            raise
        m = v[1] if v is not None else self.me_of.get(k)
        E.last_get[c] = m
        E.obs.append(f'cg:{c}:h:{m}')
        return v

    def __setitem__(self, k, v):
        E = self.E
        c = E.cur()
        if c is None:
            self.d[k] = v
            return
        E.S.point('cache.set')
        if isinstance(v, Rejected):
            raise StoreBoom(v[1])
        self.d[k] = v
        m = v[1] if v is not None else E.none_pending.get(c)
        self.me_of[k] = m
        E.obs.append(f'cs:{c}:{m}')
        while self.capacity is not None and len(self.d) > self.capacity:
            old, _ = self.d.popitem(last=False)
            E.obs.append(f'ev:{old[0][0]}')

    def __delitem__(self, k):
        del self.d[k]

    def __iter__(self):
        return iter(self.d)

    def __len__(self):
        return len(self.d)


class IEvents(dict):
    """The in-flight table `events`."""

    def __init__(self, E):
        super().__init__()
        self.E = E

    def __getitem__(self, k):
        E = self.E
        c = E.cur()
        if c is None:
            return dict.__getitem__(self, k)
        if E.contains_hit.pop(c, False):
            return dict.__getitem__(self, k)        # `if key in table: table[key]`: one protocol step, already logged
        E.S.point('events.get')
        try:
            v = dict.__getitem__(self, k)
        except KeyError:
            E.obs.append(f'mg:{c}:0')
            raise
        E.obs.append(f'mg:{c}:1')
        return v

    def __setitem__(self, k, v):
        E = self.E
        c = E.cur()
        if c is None:
            return dict.__setitem__(self, k, v)
        E.S.point('events.set')
        dict.__setitem__(self, k, v)
        E.obs.append(f'mp:{c}')

    def get(self, k, default=None):
        E = self.E
        c = E.cur()
        if c is None:
            return dict.get(self, k, default)
        if not E.owner_phase.get(c):
            # a look-up spelled `.get(key)` instead of `[key]` + KeyError: the same protocol step
            E.S.point('events.get')
            hit = dict.__contains__(self, k)
            E.obs.append(f'mg:{c}:{1 if hit else 0}')
            return dict.get(self, k, default)
        E.S.point('events.own?')
        E.pending_md[c] = True
        return dict.get(self, k, default)

    def __contains__(self, k):
        E = self.E
        c = E.cur()
        if c is None or E.owner_phase.get(c):
            return dict.__contains__(self, k)
        E.S.point('events.get')
        hit = dict.__contains__(self, k)
        E.obs.append(f'mg:{c}:{1 if hit else 0}')
        E.contains_hit[c] = hit
        return hit

    def __delitem__(self, k):
        E = self.E
        c = E.cur()
        if c is None:
            return dict.__delitem__(self, k)
        if not E.pending_md.get(c):
            E.S.point('events.del')
        E.pending_md.pop(c, None)
        E.owner_phase.pop(c, None)
        dict.__delitem__(self, k)
        E.obs.append(f'md:{c}:1')


def find_tables(w):
    """The in-flight table of a freshly made wrapper, wherever a rewrite keeps it: every empty plain `dict` reachable
    from the wrapper through closure cells, helper closures and attributes / slots of helper objects defined in
    aiuti.asyncio.  Returns a list of setters (call one with the replacement)."""
    found = []
    seen = set()
    todo = [w]

    def ours(o):
        return getattr(type(o), '__module__', None) == 'aiuti.asyncio'

    def visit(val, setter):
        if type(val) is dict:
            if not val and id(val) not in seen:
                seen.add(id(val))
                found.append(setter)
        elif isinstance(val, (types.FunctionType, types.MethodType, functools.partial)) or ours(val):
            todo.append(val)

    while todo:
        o = todo.pop()
        if id(o) in seen:
            continue
        seen.add(id(o))
        if isinstance(o, types.MethodType):
            todo += [o.__self__, o.__func__]
        elif isinstance(o, functools.partial):
            todo += [o.func, *o.args, *o.keywords.values()]
        elif isinstance(o, types.FunctionType):
            if o.__globals__.get('__name__') != 'aiuti.asyncio':     # (`wraps` copies __module__ from the wrapped one)
                continue
            for cell in o.__closure__ or ():
                try:
                    val = cell.cell_contents
                except ValueError:
                    continue

                def set_cell(new, cell=cell):
                    cell.cell_contents = new
                visit(val, set_cell)
        elif ours(o):
            names = list(getattr(o, '__dict__', {}))
            for klass in type(o).__mro__:
                sl = klass.__dict__.get('__slots__', ())
                names += [sl] if isinstance(sl, str) else list(sl)
            for n in names:
                try:
                    val = getattr(o, n)
                except AttributeError:
                    continue

                def set_attr(new, o=o, n=n):
                    setattr(o, n, new)
                visit(val, set_attr)
    return found


class IEvent(asyncio.Event):
    E = None

    def set(self):
        E = self.E
        c = E.cur() if E is not None else None
        if c is not None:
            E.S.point('event.set')
            E.obs.append(f'es:{c}')
        super().set()


class AioProxy(types.ModuleType):
    def __getattr__(self, n):
        return getattr(asyncio, n)


class CLoop(BLoop):
    """A caller's loop: the library's reads of a caching loop's state (from the wrapper or a helper of it) are
    observations."""

    def is_closed(self):
        b = super().is_closed()
        E = getattr(self, 'E', None)
        if E is not None and sys._getframe(1).f_globals.get('__name__') == 'aiuti.asyncio' and E.cur() is not None:
            c = E.cur()
            E.S.point('loop.is_closed')
            b = super().is_closed()
            if b:
                E.obs.append(f'run:{c}:0')
        return b

    def is_running(self):
        E = getattr(self, 'E', None)
        if E is not None and sys._getframe(1).f_globals.get('__name__') == 'aiuti.asyncio' and E.cur() is not None:
            c = E.cur()
            E.S.point('loop.is_running')
            b = super().is_running()
            E.obs.append(f'run:{c}:{1 if b else 0}')
            return b
        return super().is_running()


def gen_scenario(rng, lifecycle=True, resume=False):
    nloops = rng.randint(2, 4)
    loops = []
    for li in range(nloops):
        callers = []
        for _ in range(rng.randint(1, 3)):
            callers.append({'key': rng.choice([0, 0, 1]), 'delay': rng.choice([0, 0, 1, 30, 65]),
                            'cancel_at': rng.choice([None, None, None, 2, 61, 100])})
        life = 'complete'
        if lifecycle and rng.random() < 0.35:
            life = rng.choice(['early-shutdown', 'early-shutdown', 'early-close'] +
                              (['pause-resume', 'pause-resume'] if resume else []))
        loops.append({'callers': callers, 'life': life, 'early_at': rng.choice([0, 1, 3]),
                      'gap': rng.choice([0, 2, 10, 70])})
    return {'loops': loops, 'durs': [rng.choice([0, 1, 5, 70, 130]) for _ in range(8)],
            'fails': [rng.random() < 0.3 for _ in range(8)], 'capacity': rng.choice([None, None, None, 1])}


def gen_takeover_resume(rng):
    """Scenario family: a loop pauses with a computation and a co-located waiter pending, another loop takes the
    key over and finishes during the pause, the first loop is resumed and its computation ends."""
    a = {'callers': [{'key': 0, 'delay': 0, 'cancel_at': None},
                     {'key': 0, 'delay': rng.choice([0, 0, 1]), 'cancel_at': rng.choice([None, None, None, 100])}],
         'life': 'pause-resume', 'early_at': rng.choice([0, 1, 1, 3]), 'gap': rng.choice([2, 4, 10])}
    b = {'callers': [{'key': 0, 'delay': rng.choice([1, 2, 3, 4, 6]), 'cancel_at': None}],
         'life': 'complete', 'early_at': 0, 'gap': 0}
    loops = [a, b]
    if rng.random() < 0.4:
        loops.append({'callers': [{'key': rng.choice([0, 1]), 'delay': rng.choice([0, 2, 9, 30]), 'cancel_at': None}],
                      'life': rng.choice(['complete', 'complete', 'early-shutdown']), 'early_at': rng.choice([0, 1, 3]),
                      'gap': rng.choice([0, 2, 10])})
    if rng.random() < 0.3:
        loops[0], loops[1] = loops[1], loops[0]
    durs = [rng.choice([5, 8, 12, 20]), rng.choice([0, 1, 2])] + [rng.choice([0, 1, 5, 70]) for _ in range(6)]
    fails = [rng.random() < 0.15, rng.random() < 0.15] + [rng.random() < 0.3 for _ in range(6)]
    return {'loops': loops, 'durs': durs, 'fails': fails, 'capacity': rng.choice([None, None, None, 1])}


def gen_death_race(rng):
    """Scenario family: a caller on another loop arrives just as the computing loop returns from
    run_until_complete and is shut down / closed (the instants coincide; the schedule decides the rest)."""
    e = rng.choice([0, 1, 3])
    a = {'callers': [{'key': 0, 'delay': 0, 'cancel_at': None}],
         'life': rng.choice(['early-close', 'early-shutdown']), 'early_at': e, 'gap': rng.choice([0, 0, 2])}
    b = {'callers': [{'key': 0, 'delay': e, 'cancel_at': rng.choice([None, None, 61])}],
         'life': 'complete', 'early_at': 0, 'gap': 0}
    if rng.random() < 0.3:
        b['callers'].append({'key': 0, 'delay': rng.choice([0, e]), 'cancel_at': None})
    loops = [a, b] if rng.random() < 0.5 else [b, a]
    durs = [rng.choice([5, 70]), rng.choice([0, 1, 5])] + [rng.choice([0, 1, 5]) for _ in range(6)]
    fails = [False, rng.random() < 0.3] + [rng.random() < 0.3 for _ in range(6)]
    return {'loops': loops, 'durs': durs, 'fails': fails, 'capacity': None}


def run_scenario(scn, seed, pct=0, choices=None, preempt=None):
    global ENV
    import aiuti.asyncio as A
    S = Sched(seed, choices=choices, pct_depth=pct, max_steps=30000, preempt=preempt)
    E = CEnv(S)
    ENV = E
    # the lock the wrapper creates (whichever kind) and the events it creates are the cooperative / observing ones,
    # found by identity however the module spells its imports
    event_pair = (asyncio.Event, type('IEventE', (IEvent,), {'E': E}))
    attach.substitute(A, [(threading.Lock, lambda: ILock(E)), (threading.RLock, lambda: ILock(E)), event_pair],
                      (threading, asyncio))
    cache = ICache(E, scn['capacity'])
    vsalt = len(scn['loops']) + sum(len(lp['callers']) for lp in scn['loops'])

    async def f(key):
        c = E.cur()
        if c is None:
            c = CALLER.get()
        me = len(E.inv)
        lp = asyncio.get_running_loop()
        rec = dict(key=key, caller=c, start=S.vt, end=None, out=None, loop=getattr(lp, 'li', None))
        E.inv.append(rec)
        E.owner_phase[c] = True
        E.obs.append(f'is:{c}')
        try:
            d = scn['durs'][me % 8]
            if d:
                await asyncio.sleep(d)
            if scn['fails'][me % 8]:
                rec['out'] = ('raise', me)
                E.obs.append(f'ie:{c}:1:{me}')
                if (me + len(scn['loops'])) % 3 == 1:
                    raise BoomBase(me)
                raise Boom(me)
            if (me + vsalt) % 5 == 4 and scn.get('capacity') is None:
                # the supplied mapping refuses this value (`__setitem__` raises, as a size-bounded mapping does): for
                # the protocol that is a failed computation - the caller gets the mapping's error, nothing is cached,
                # waiters are woken
                rec['out'] = ('raise', me)
                E.obs.append(f'ie:{c}:1:{me}')
                return Rejected(('v', me))
            rec['out'] = ('ok', me)
            E.obs.append(f'ie:{c}:0:{me}')
            vk = (me + vsalt) % 3
            if vk == 2:
                E.none_pending[c] = me                      # a cached value may well be None ...
                return None
            return (FalsyV if vk else tuple)(('v', me))     # ... or falsy
        except asyncio.CancelledError:
            rec['out'] = ('cancel', me)
            E.obs.append(f'ie:{c}:2:0')
            raise
        finally:
            rec['end'] = S.vt
    def g(key):
        # the wrapped callable need not be a coroutine function: one that returns an awaitable may also fail at call
        # time, before there is anything to await (argument validation, a TypeError of the binding) - for the
        # protocol a failed computation of no duration
        me = len(E.inv)
        if scn['fails'][me % 8] and not scn['durs'][me % 8] and (me + vsalt) % 2 == 0:
            c = E.cur()
            if c is None:
                c = CALLER.get()
            lp = asyncio.get_running_loop()
            E.inv.append(dict(key=key, caller=c, start=S.vt, end=S.vt, out=('raise', me), loop=getattr(lp, 'li', None)))
            E.owner_phase[c] = True
            E.obs.append(f'is:{c}')
            E.obs.append(f'ie:{c}:1:{me}')
            raise Boom(me)
        return f(key)
    try:
        w = A.threadsafe_async_cache(g, cache=cache)
    finally:
        attach.substitute(A, [event_pair], (asyncio,))       # locks created from now on are real ones again
    tables = find_tables(w)
    if len(tables) != 1:
        attach.restore(A)
        raise RuntimeError(f'cannot attach to the in-flight table of the wrapper: {len(tables)} candidate dict(s) '
                           f'reachable from its closure (expected exactly one, empty, plain dict)')
    tables[0](IEvents(E))
    cid = [0]
    stop_info = {}

    def mk(li, spec):
        def body():
            loop = CLoop(S)
            loop.E = E
            loop.li = li
            E.loops.append(loop)
            asyncio.set_event_loop(loop)
            tasks = []

            async def caller(c, cs):
                CALLER.set(c)
                if cs['delay']:
                    await asyncio.sleep(cs['delay'])
                E.obs.append(f'call:{c}:{cs["key"]}:{li}')
                t0 = S.vt
                try:
                    r = await w(cs['key'])
                    m = r[1] if r is not None else (E.none_pending[c] if c in E.none_pending else E.last_get.get(c))
                    E.obs.append(f'rt:{c}:0:{m}')
                    E.results[c] = dict(loop=li, key=cs['key'], t0=t0, t1=S.vt, out=('ok', m))
                except (Boom, BoomBase, StoreBoom) as e:
                    E.obs.append(f'rt:{c}:1:{e.args[0]}')
                    E.results[c] = dict(loop=li, key=cs['key'], t0=t0, t1=S.vt, out=('boom', e.args[0]))
                except asyncio.CancelledError:
                    E.obs.append(f'rt:{c}:2:0')
                    E.results[c] = dict(loop=li, key=cs['key'], t0=t0, t1=S.vt, out=('cancelled',),
                                        by_client=cs.get('_cancelled', False), by_shutdown=stop_info.get(li, False))
                    raise
                except BaseException as e:  # noqa
                    E.obs.append(f'rt:{c}:9:0')
                    E.results[c] = dict(loop=li, key=cs['key'], t0=t0, t1=S.vt, out=('OTHER', type(e).__name__, str(e)))

            async def main():
                for cs in spec['callers']:
                    c = cid[0]
                    cid[0] += 1
                    cs['_id'] = c
                    t = loop.create_task(caller(c, cs))
                    E.task2c[t] = c
                    tasks.append(t)
                    E.keep.append(t)
                    if cs['cancel_at'] is not None:
                        def do_cancel(t=t, cs=cs):
                            if not t.done():
                                cs['_cancelled'] = True
                                t.cancel()
                        loop.call_later(cs['delay'] + cs['cancel_at'], do_cancel)
                if spec['life'] == 'complete':
                    await asyncio.gather(*tasks, return_exceptions=True)
                else:
                    await asyncio.sleep(spec['early_at'])
            E.obs.append(f'ls:{li}')
            try:
                loop.run_until_complete(main())
            finally:
                E.obs.append(f'lp:{li}')
            if spec['life'] != 'complete':
                S.point('loop.stopped', enabled=lambda: False, deadline=S.vt + spec['gap'])
            if spec['life'] == 'pause-resume':
                # `run_until_complete` a second time on the same loop: the callers left pending go on
                S.point('loop.resume')
                E.obs.append(f'lu:{li}')
                try:
                    loop.run_until_complete(asyncio.gather(*tasks, return_exceptions=True))
                finally:
                    E.obs.append(f'lp:{li}')
            if spec['life'] == 'early-shutdown':
                S.point('loop.shutdown')
                stop_info[li] = True
                E.obs.append(f'sb:{li}')
                to_cancel = asyncio.all_tasks(loop)
                for t in to_cancel:
                    t.cancel()
                loop.run_until_complete(asyncio.gather(*to_cancel, return_exceptions=True))
            S.point('loop.close')
            E.obs.append(f'lc:{li}')
            loop.close()
        return body
    try:
        for li, spec in enumerate(scn['loops']):
            S.spawn(f'T{li}', mk(li, spec))
        S.run(wall_timeout=30)
    finally:
        attach.restore(A)
    # the run is over: whatever abandoned coroutines do when they are finalized is not part of it
    out = dict(obs=list(E.obs), inv=list(E.inv), results=dict(E.results), hung=S.hung, errors=list(S.errors),
               trace=list(S.trace), branching=list(S.branching), ncallers=sum(len(l['callers']) for l in scn['loops']), vt=S.vt)
    E.dead = True
    for t in E.keep:
        if not t.done():
            try:
                t.get_coro().close()
            except BaseException:  # noqa
                pass
    E.task2c.clear()
    E.keep.clear()
    return out


# ------------------------------------------------------------------ monitors
def monitors(scn, r, want):
    """Returns list of (property, kind, detail)."""
    bad = []
    obs = r['obs']
    # loop life-cycle instants from the observation order: index of lp / sb / lc per loop
    stop_idx = {}
    for i, o in enumerate(obs):
        p = o.split(':')
        if p[0] == 'lp':
            stop_idx.setdefault(int(p[1]), i)
    # invocation intervals in observation order: (start index, end index, caller, key, loop, outcome)
    caller_loop = {}
    caller_key = {}
    for o in obs:
        p = o.split(':')
        if p[0] == 'call':
            caller_loop[int(p[1])] = int(p[3])
            caller_key[int(p[1])] = int(p[2])
    live = {}       # key -> set of callers with a live invocation
    ok_for_key = {}
    retained = scn['capacity'] is None
    succeeded = {}  # key -> obs index of the first non-orphan successful invocation end
    started_after_success = []
    for i, o in enumerate(obs):
        p = o.split(':')
        if p[0] == 'is':
            c = int(p[1])
            k = caller_key.get(c)
            others = {d for d in live.get(k, set())}
            if others and 'C01' in want:
                bad.append(('C01', 'overlap', f'invocation of caller {c} for key {k} started while callers '
                                              f'{sorted(others)} were computing it on running loops (obs {i})'))
            live.setdefault(k, set()).add(c)
            if retained and k in succeeded and 'C01' in want:
                bad.append(('C01', 'recompute-after-success', f'caller {c} invoked the function for key {k} after a '
                                                               f'successful invocation had returned (obs {i})'))
        elif p[0] == 'ie':
            c = int(p[1])
            k = caller_key.get(c)
            live.get(k, set()).discard(c)
            if p[2] == '0':
                ok_for_key.setdefault(k, set()).add(int(p[3]))
                succeeded.setdefault(k, i)
        elif p[0] == 'lp':
            # invocations pending on a loop that stopped count as ended from this moment
            l = int(p[1])
            for k in live:
                live[k] = {c for c in live[k] if caller_loop.get(c) != l}
    # outcomes
    if r['hung']:
        for pr in ('C05',):
            if pr in want:
                bad.append((pr, 'hang', f'callers never finished: {r["hung"]}'))
    inv_by_id = {i: v for i, v in enumerate(r['inv'])}
    for c, res in r['results'].items():
        o = res['out']
        if o[0] == 'OTHER' and 'C06' in want:
            bad.append(('C06', 'foreign-exception', f'caller {c} raised {o[1]}: {o[2]} (not raised by its own invocation)'))
        if o[0] == 'ok':
            iv = inv_by_id.get(o[1])
            if 'C06' in want and (iv is None or iv['key'] != res['key'] or iv['out'] != ('ok', o[1])):
                bad.append(('C06', 'wrong-value', f'caller {c} (key {res["key"]}) returned the value of invocation {o[1]}'))
        if o[0] == 'boom' and 'C06' in want:
            iv = inv_by_id.get(o[1])
            if iv is None or iv['caller'] != c:
                bad.append(('C06', 'foreign-failure', f'caller {c} raised the exception of invocation {o[1]} '
                                                      f'performed by caller {iv and iv["caller"]}'))
        if o[0] == 'cancelled' and 'C06' in want:
            if not res.get('by_client') and not res.get('by_shutdown'):
                bad.append(('C06', 'foreign-cancel', f'caller {c} was cancelled although neither its client nor its '
                                                     f'own loop\'s shutdown cancelled it'))
    if 'C05' in want and not r['hung']:
        # promptness: a caller that returns a value without computing it itself finishes no later than the end of
        # the computation it last waited for (the owner of the in-flight marker it last captured) - a wake-up,
        # not the 60 s safety timer, releases it; a caller that never waited finishes at once.  Its own loop
        # being paused meanwhile is the only allowance.
        marker = {}
        last_owner = {}
        invoked = set()
        for o in obs:
            p = o.split(':')
            if p[0] == 'mp':
                marker[caller_key.get(int(p[1]))] = int(p[1])
            elif p[0] == 'md' and p[2] == '1':
                if marker.get(caller_key.get(int(p[1]))) == int(p[1]):
                    del marker[caller_key.get(int(p[1]))]
            elif p[0] == 'mg' and p[2] == '1':
                last_owner[int(p[1])] = marker.get(caller_key.get(int(p[1])))
            elif p[0] == 'is':
                invoked.add(int(p[1]))
        inv_of = {v['caller']: v for v in r['inv']}
        for c, res in r['results'].items():
            if res['out'][0] != 'ok' or c in invoked:
                continue
            mine = scn['loops'][res['loop']]
            if mine['life'] not in ('complete', 'pause-resume'):
                continue
            slack = mine['gap'] if mine['life'] == 'pause-resume' else 0
            if c not in last_owner:
                if res['t1'] > res['t0'] + slack:
                    bad.append(('C05', 'late', f'caller {c} found its value in the cache at {res["t0"]} but returned at {res["t1"]}'))
                continue
            iv = inv_of.get(last_owner[c])
            if iv is None or iv['end'] is None:
                continue             # the computation it waited for never ended (its loop died): the safety net applies
            expect = max(res['t0'], iv['end'])
            # the wake-up of a cross-loop waiter travels through the computing loop (the wait runs there): if that
            # loop stops - pauses, is shut down, or simply exits because its own work is done - after the
            # computation ended and before the waiter is released, the wake-up may be delayed or lost and the 60 s
            # safety timer recovers; the property allows that ("while the computing loop is alive")
            theirs = scn['loops'][iv['loop']] if iv.get('loop') is not None else mine
            if theirs is not mine:
                i_end = next((i for i, o in enumerate(obs) if o.startswith(f'ie:{last_owner[c]}:')), 0)
                i_ret = next((i for i, o in enumerate(obs) if o.startswith(f'rt:{c}:')), len(obs))
                if any(o in (f'lp:{iv["loop"]}', f'lc:{iv["loop"]}') for o in obs[i_end:i_ret]):
                    slack += 60
            if res['t1'] > expect + slack:
                bad.append(('C05', 'late', f'caller {c} last waited for the computation of caller {last_owner[c]}, which '
                                           f'ended at {iv["end"]}, but was released only at {res["t1"]} '
                                           f'(called at {res["t0"]})'))
        done = set(r['results'])
        for li, spec in enumerate(scn['loops']):
            if spec['life'] in ('complete', 'pause-resume'):
                for cs in spec['callers']:
                    # (a caller whose client cancelled it before it ever called the wrapper made no call)
                    if cs.get('_id') not in done and cs.get('_id') in caller_key:
                        bad.append(('C05', 'never-finished', f'caller {cs.get("_id")} on loop {li} never finished'))
    return bad
