"""threadsafe_async_cache under the baton scheduler: hook-free instrumentation (lock class, cache mapping,
in-flight table, events, loop-state reads), loop life-cycle scripts, observation trace for the Lean LTS,
property monitors (C01, C05, C06)."""
import asyncio
import collections
import sys
import threading
import types

from ..core.baton import Sched, BLoop


class Boom(Exception):
    pass


class CEnv:
    def __init__(self, S):
        self.S = S
        self.obs = []
        self.task2c = {}
        self.pending_md = {}       # caller -> True while between events.get(...) and the delete decision
        self.inv = []              # invocation records
        self.results = {}          # caller -> dict
        self.loops = []            # index -> loop object
        self.lock_owner = None
        self.dead = False
        self.keep = []             # every task created: nothing is finalized by the garbage collector during the run

    def cur(self):
        if self.dead:
            return None
        try:
            t = asyncio.current_task()
        except RuntimeError:
            return None
        return self.task2c.get(t)


ENV = None


def _flush_md(E, c):
    if E.pending_md.pop(c, None):
        E.obs.append(f'md:{c}:0')


class ILock:
    """`event_making_lock`: a blocking lock (it blocks the whole loop thread, as the real one does)."""

    def __init__(self, E):
        self.owner = None
        self.E = E

    def __enter__(self):
        E = self.E
        c = E.cur()
        if c is None:              # a finalizer of an abandoned coroutine (garbage collection): not part of the run
            return self
        E.S.point('lock.acquire', enabled=lambda: self.owner is None)
        self.owner = c
        E.obs.append(f'la:{c}')
        return self

    def __exit__(self, *a):
        E = self.E
        c = E.cur()
        if c is None:
            return
        E.S.point('lock.release')
        self.owner = None
        _flush_md(E, c)
        E.obs.append(f'lr:{c}')


class ICache(collections.abc.MutableMapping):
    def __init__(self, E, capacity=None):
        self.d = collections.OrderedDict()
        self.capacity = capacity
        self.E = E

    def __getitem__(self, k):
        E = self.E
        c = E.cur()
        if c is None:
            return self.d[k]
        E.S.point('cache.get')
        try:
            v = self.d[k]
        except KeyError:
            E.obs.append(f'cg:{c}:m')
            raise
        E.obs.append(f'cg:{c}:h:{v[1]}')
        return v

    def __setitem__(self, k, v):
        E = self.E
        c = E.cur()
        if c is None:
            self.d[k] = v
            return
        E.S.point('cache.set')
        self.d[k] = v
        E.obs.append(f'cs:{c}:{v[1]}')
        while self.capacity is not None and len(self.d) > self.capacity:
            old, _ = self.d.popitem(last=False)
            E.obs.append(f'ev:{old[0][0]}')

    def __delitem__(self, k):
        del self.d[k]

    def __iter__(self):
        return iter(self.d)

    def __len__(self):
        return len(self.d)


class IEvents(dict):
    """The in-flight table `events`."""

    def __init__(self, E):
        super().__init__()
        self.E = E

    def __getitem__(self, k):
        E = self.E
        c = E.cur()
        if c is None:
            return dict.__getitem__(self, k)
        E.S.point('events.get')
        try:
            v = dict.__getitem__(self, k)
        except KeyError:
            E.obs.append(f'mg:{c}:0')
            raise
        E.obs.append(f'mg:{c}:1')
        return v

    def __setitem__(self, k, v):
        E = self.E
        c = E.cur()
        if c is None:
            return dict.__setitem__(self, k, v)
        E.S.point('events.set')
        dict.__setitem__(self, k, v)
        E.obs.append(f'mp:{c}')

    def get(self, k, default=None):
        E = self.E
        c = E.cur()
        if c is None:
            return dict.get(self, k, default)
        E.S.point('events.own?')
        E.pending_md[c] = True
        return dict.get(self, k, default)

    def __delitem__(self, k):
        E = self.E
        c = E.cur()
        if c is None:
            return dict.__delitem__(self, k)
        if not E.pending_md.get(c):
            E.S.point('events.del')
        E.pending_md.pop(c, None)
        dict.__delitem__(self, k)
        E.obs.append(f'md:{c}:1')


class IEvent(asyncio.Event):
    E = None

    def set(self):
        E = self.E
        c = E.cur() if E is not None else None
        if c is not None:
            E.S.point('event.set')
            E.obs.append(f'es:{c}')
        super().set()


class AioProxy(types.ModuleType):
    def __getattr__(self, n):
        return getattr(asyncio, n)


class CLoop(BLoop):
    """A caller's loop: the wrapper's reads of a caching loop's state are observations."""

    def is_closed(self):
        b = super().is_closed()
        E = getattr(self, 'E', None)
        if E is not None and sys._getframe(1).f_code.co_name == '_wrapper' and E.cur() is not None:
            c = E.cur()
            E.S.point('loop.is_closed')
            b = super().is_closed()
            if b:
                E.obs.append(f'run:{c}:0')
        return b

    def is_running(self):
        E = getattr(self, 'E', None)
        if E is not None and sys._getframe(1).f_code.co_name == '_wrapper' and E.cur() is not None:
            c = E.cur()
            E.S.point('loop.is_running')
            b = super().is_running()
            E.obs.append(f'run:{c}:{1 if b else 0}')
            return b
        return super().is_running()


def gen_scenario(rng, lifecycle=True):
    nloops = rng.randint(2, 4)
    loops = []
    for li in range(nloops):
        callers = []
        for _ in range(rng.randint(1, 3)):
            callers.append({'key': rng.choice([0, 0, 1]), 'delay': rng.choice([0, 0, 1, 30, 65]),
                            'cancel_at': rng.choice([None, None, None, 2, 61, 100])})
        life = 'complete'
        if lifecycle and rng.random() < 0.35:
            life = rng.choice(['early-shutdown', 'early-shutdown', 'early-close'])
        loops.append({'callers': callers, 'life': life, 'early_at': rng.choice([0, 1, 3]),
                      'gap': rng.choice([0, 2, 10, 70])})
    return {'loops': loops, 'durs': [rng.choice([0, 1, 5, 70, 130]) for _ in range(8)],
            'fails': [rng.random() < 0.3 for _ in range(8)], 'capacity': rng.choice([None, None, None, 1])}


def run_scenario(scn, seed, pct=0, choices=None):
    global ENV
    import aiuti.asyncio as A
    S = Sched(seed, choices=choices, pct_depth=pct, max_steps=30000)
    E = CEnv(S)
    ENV = E
    saved = (A.Lock, A.aio)
    A.Lock = lambda: ILock(E)
    proxy = AioProxy('asyncio')
    proxy.Event = type('IEventE', (IEvent,), {'E': E})
    A.aio = proxy
    cache = ICache(E, scn['capacity'])

    async def f(key):
        c = E.cur()
        me = len(E.inv)
        lp = asyncio.get_running_loop()
        rec = dict(key=key, caller=c, start=S.vt, end=None, out=None, loop=getattr(lp, 'li', None))
        E.inv.append(rec)
        E.obs.append(f'is:{c}')
        try:
            d = scn['durs'][me % 8]
            if d:
                await asyncio.sleep(d)
            if scn['fails'][me % 8]:
                rec['out'] = ('raise', me)
                E.obs.append(f'ie:{c}:1:{me}')
                raise Boom(me)
            rec['out'] = ('ok', me)
            E.obs.append(f'ie:{c}:0:{me}')
            return ('v', me)
        except asyncio.CancelledError:
            rec['out'] = ('cancel', me)
            E.obs.append(f'ie:{c}:2:0')
            raise
        finally:
            rec['end'] = S.vt
    try:
        w = A.threadsafe_async_cache(f, cache=cache)
    finally:
        A.Lock = saved[0]
    cells = dict(zip(w.__code__.co_freevars, w.__closure__))
    if 'events' not in cells or not isinstance(cells['events'].cell_contents, dict):
        A.aio = saved[1]
        raise RuntimeError('cannot attach to the in-flight table of the wrapper (closure cell `events`)')
    cells['events'].cell_contents = IEvents(E)
    cid = [0]
    stop_info = {}

    def mk(li, spec):
        def body():
            loop = CLoop(S)
            loop.E = E
            loop.li = li
            E.loops.append(loop)
            asyncio.set_event_loop(loop)
            tasks = []

            async def caller(c, cs):
                if cs['delay']:
                    await asyncio.sleep(cs['delay'])
                E.obs.append(f'call:{c}:{cs["key"]}:{li}')
                t0 = S.vt
                try:
                    r = await w(cs['key'])
                    E.obs.append(f'rt:{c}:0:{r[1]}')
                    E.results[c] = dict(loop=li, key=cs['key'], t0=t0, t1=S.vt, out=('ok', r[1]))
                except Boom as e:
                    E.obs.append(f'rt:{c}:1:{e.args[0]}')
                    E.results[c] = dict(loop=li, key=cs['key'], t0=t0, t1=S.vt, out=('boom', e.args[0]))
                except asyncio.CancelledError:
                    E.obs.append(f'rt:{c}:2:0')
                    E.results[c] = dict(loop=li, key=cs['key'], t0=t0, t1=S.vt, out=('cancelled',),
                                        by_client=cs.get('_cancelled', False), by_shutdown=stop_info.get(li, False))
                    raise
                except BaseException as e:  # noqa
                    E.obs.append(f'rt:{c}:9:0')
                    E.results[c] = dict(loop=li, key=cs['key'], t0=t0, t1=S.vt, out=('OTHER', type(e).__name__, str(e)))

            async def main():
                for cs in spec['callers']:
                    c = cid[0]
                    cid[0] += 1
                    cs['_id'] = c
                    t = loop.create_task(caller(c, cs))
                    E.task2c[t] = c
                    tasks.append(t)
                    E.keep.append(t)
                    if cs['cancel_at'] is not None:
                        def do_cancel(t=t, cs=cs):
                            if not t.done():
                                cs['_cancelled'] = True
                                t.cancel()
                        loop.call_later(cs['delay'] + cs['cancel_at'], do_cancel)
                if spec['life'] == 'complete':
                    await asyncio.gather(*tasks, return_exceptions=True)
                else:
                    await asyncio.sleep(spec['early_at'])
            E.obs.append(f'ls:{li}')
            try:
                loop.run_until_complete(main())
            finally:
                E.obs.append(f'lp:{li}')
            if spec['life'] != 'complete':
                S.point('loop.stopped', enabled=lambda: False, deadline=S.vt + spec['gap'])
            if spec['life'] == 'early-shutdown':
                S.point('loop.shutdown')
                stop_info[li] = True
                E.obs.append(f'sb:{li}')
                to_cancel = asyncio.all_tasks(loop)
                for t in to_cancel:
                    t.cancel()
                loop.run_until_complete(asyncio.gather(*to_cancel, return_exceptions=True))
            S.point('loop.close')
            E.obs.append(f'lc:{li}')
            loop.close()
        return body
    try:
        for li, spec in enumerate(scn['loops']):
            S.spawn(f'T{li}', mk(li, spec))
        S.run(wall_timeout=30)
    finally:
        A.aio = saved[1]
    # the run is over: whatever abandoned coroutines do when they are finalized is not part of it
    out = dict(obs=list(E.obs), inv=list(E.inv), results=dict(E.results), hung=S.hung, errors=list(S.errors),
               trace=list(S.trace), ncallers=sum(len(l['callers']) for l in scn['loops']), vt=S.vt)
    E.dead = True
    for t in E.keep:
        if not t.done():
            try:
                t.get_coro().close()
            except BaseException:  # noqa
                pass
    E.task2c.clear()
    E.keep.clear()
    return out


# ------------------------------------------------------------------ monitors
def monitors(scn, r, want):
    """Returns list of (property, kind, detail)."""
    bad = []
    obs = r['obs']
    # loop life-cycle instants from the observation order: index of lp / sb / lc per loop
    stop_idx = {}
    for i, o in enumerate(obs):
        p = o.split(':')
        if p[0] == 'lp':
            stop_idx.setdefault(int(p[1]), i)
    # invocation intervals in observation order: (start index, end index, caller, key, loop, outcome)
    caller_loop = {}
    caller_key = {}
    for o in obs:
        p = o.split(':')
        if p[0] == 'call':
            caller_loop[int(p[1])] = int(p[3])
            caller_key[int(p[1])] = int(p[2])
    live = {}       # key -> set of callers with a live invocation
    ok_for_key = {}
    retained = scn['capacity'] is None
    succeeded = {}  # key -> obs index of the first non-orphan successful invocation end
    started_after_success = []
    for i, o in enumerate(obs):
        p = o.split(':')
        if p[0] == 'is':
            c = int(p[1])
            k = caller_key.get(c)
            others = {d for d in live.get(k, set())}
            if others and 'C01' in want:
                bad.append(('C01', 'overlap', f'invocation of caller {c} for key {k} started while callers '
                                              f'{sorted(others)} were computing it on running loops (obs {i})'))
            live.setdefault(k, set()).add(c)
            if retained and k in succeeded and 'C01' in want:
                bad.append(('C01', 'recompute-after-success', f'caller {c} invoked the function for key {k} after a '
                                                               f'successful invocation had returned (obs {i})'))
        elif p[0] == 'ie':
            c = int(p[1])
            k = caller_key.get(c)
            live.get(k, set()).discard(c)
            if p[2] == '0':
                ok_for_key.setdefault(k, set()).add(int(p[3]))
                succeeded.setdefault(k, i)
        elif p[0] == 'lp':
            # invocations pending on a loop that stopped count as ended from this moment
            l = int(p[1])
            for k in live:
                live[k] = {c for c in live[k] if caller_loop.get(c) != l}
    # outcomes
    if r['hung']:
        for pr in ('C05',):
            if pr in want:
                bad.append((pr, 'hang', f'callers never finished: {r["hung"]}'))
    inv_by_id = {i: v for i, v in enumerate(r['inv'])}
    for c, res in r['results'].items():
        o = res['out']
        if o[0] == 'OTHER' and 'C06' in want:
            bad.append(('C06', 'foreign-exception', f'caller {c} raised {o[1]}: {o[2]} (not raised by its own invocation)'))
        if o[0] == 'ok':
            iv = inv_by_id.get(o[1])
            if 'C06' in want and (iv is None or iv['key'] != res['key'] or iv['out'] != ('ok', o[1])):
                bad.append(('C06', 'wrong-value', f'caller {c} (key {res["key"]}) returned the value of invocation {o[1]}'))
        if o[0] == 'boom' and 'C06' in want:
            iv = inv_by_id.get(o[1])
            if iv is None or iv['caller'] != c:
                bad.append(('C06', 'foreign-failure', f'caller {c} raised the exception of invocation {o[1]} '
                                                      f'performed by caller {iv and iv["caller"]}'))
        if o[0] == 'cancelled' and 'C06' in want:
            if not res.get('by_client') and not res.get('by_shutdown'):
                bad.append(('C06', 'foreign-cancel', f'caller {c} was cancelled although neither its client nor its '
                                                     f'own loop\'s shutdown cancelled it'))
    if 'C05' in want and not r['hung']:
        # promptness: a caller that returns a value finishes no later than the end of the invocation that
        # produced it (if it asked before), unless its own loop was not running in between
        for c, res in r['results'].items():
            o = res['out']
            if o[0] == 'ok':
                iv = inv_by_id.get(o[1])
                if iv and iv['end'] is not None:
                    expect = max(res['t0'], iv['end'])
                    dead = sum(1 for l in scn['loops'] if l['life'] != 'complete')
                    # waiters of a loop that died may need the 60 s safety timer (once per dead loop) to recover
                    if res['t1'] > expect + 60 * dead and scn['loops'][res['loop']]['life'] == 'complete':
                        bad.append(('C05', 'late', f'caller {c} got the value of invocation {o[1]} at {res["t1"]} '
                                                   f'although it was available at {expect} '
                                                   f'({dead} loops stopped mid-run)'))
        done = set(r['results'])
        for li, spec in enumerate(scn['loops']):
            if spec['life'] == 'complete':
                for cs in spec['callers']:
                    if cs.get('_id') not in done:
                        bad.append(('C05', 'never-finished', f'caller {cs.get("_id")} on loop {li} never finished'))
    return bad
