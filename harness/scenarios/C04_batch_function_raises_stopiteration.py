"""
C04 violation demo: a batch function that *raises* StopIteration leaves every
caller of that batch pending forever.

The batch function is a plain callable returning an async iterable (exactly
the documented ``_BatchFunc`` type: Callable[[Iterable], AsyncIterable]).  It
takes a connection from a small pool with ``next(pool)`` and then delegates to
an async generator.  When the pool iterator is exhausted, ``next`` raises
StopIteration *from the batch function*.

C04 promises: "an exception raised by the batch function is raised to every
caller of that batch still unanswered" and "every call ... completes".
"""
import asyncio as aio
import sys

from aiuti.asyncio import AsyncBackgroundBatcher

HANG_LIMIT = 3.0  # seconds; batch_timeout is 0.01 and the function is instant


async def main() -> int:
    pool = iter(["conn-1"])  # one connection: the 2nd batch finds it exhausted

    async def run_on(conn, batch):
        for key, value in batch:
            yield key, value + 1

    def batch_func(batch):
        conn = next(pool)  # raises StopIteration once the pool is exhausted
        return run_on(conn, batch)

    batcher = AsyncBackgroundBatcher(
        batch_func, max_batch_size=2, max_concurrent_batches=1,
        batch_timeout=0.01, retention_timeout=0.,
    )

    # Round 1: everything works, so the function is a legitimate batch function
    first = await aio.wait_for(aio.gather(batcher(1), batcher(2)), HANG_LIMIT)
    assert first == [2, 3], first

    # Round 2: the batch function raises (StopIteration) for this batch
    callers = [aio.ensure_future(batcher(v)) for v in (10, 20)]
    done, pending = await aio.wait(callers, timeout=HANG_LIMIT)

    if pending:
        print(
            "VIOLATION: the batch function raised StopIteration for the batch "
            f"[10, 20]; C04 promises the exception is raised to every caller "
            f"of that batch and that every call completes, but after "
            f"{HANG_LIMIT}s {len(pending)} of {len(callers)} callers are still "
            "pending (their futures were never answered: Future.set_exception"
            "(StopIteration) raised TypeError inside the fan-out loop)."
        )
        for t in pending:
            t.cancel()
        return 1

    outcomes = []
    for t in callers:
        outcomes.append(repr(t.exception()) if t.exception() else t.result())
    print("OK: every caller was answered:", outcomes)
    return 0


if __name__ == "__main__":
    logging_off = __import__("logging")
    logging_off.disable(logging_off.CRITICAL)
    loop = aio.new_event_loop()
    # keep the "exception was never retrieved" noise of the dead batch task
    # out of the output; it is not what is being demonstrated
    loop.set_exception_handler(lambda *_: None)
    try:
        rc = loop.run_until_complete(main())
    finally:
        loop.close()
    sys.exit(rc)
