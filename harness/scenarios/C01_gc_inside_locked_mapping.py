"""
C01 - residual of the F29 repair (abandoned call finalized by the garbage
collector): the finally block of a computing call still takes
``event_making_lock`` with a *blocking* acquire when the call is finalized by
the garbage collector.  Making the lock reentrant only helps when the collector
runs in the thread that already owns it.  When the collector runs in a thread
which is inside the (lock protected) cache mapping, while another thread owns
``event_making_lock`` and is about to probe the same mapping, the two threads
wait for each other for ever: the cache is dead for everybody, no caller ever
receives a result again - also not for keys which were computed successfully.

The cache mapping used here is a plain thread-safe dictionary (a
MutableMapping whose methods run under one threading.Lock).  Such a mapping is
what a user has to pass as soon as the mapping is not atomic by itself (a
pure Python LRU, for instance), because the decorator reads and writes the
mapping outside of its own lock (first probe, ``_cache[key] = result``).

The only "unusual" thing the program does is to call ``gc.collect()`` inside
the mapping: this stands for an automatic collection, which the interpreter
may start at any allocation (a Python-level mapping allocates in every method).
Everything else is forced with threading events; nothing depends on luck.

History (all within the quantifier of C01):
  1. loop A: run_until_complete returns with the computation of 'abandoned'
     still pending, the loop is closed without cancelling (old style
     shutdown), all references are dropped -> the call is garbage.
  2. thread C (own loop) calls f('c'): first probe misses, C takes
     event_making_lock and is about to re-probe the mapping.
  3. thread B (own loop) calls f('done') - a key whose result IS cached:
     inside the mapping (holding the mapping's lock) an automatic
     collection finalizes the abandoned call -> its finally block waits for
     event_making_lock (owned by C); C waits for the mapping's lock (owned
     by B).
"""
import asyncio as aio
import gc
import logging
import os
import sys
import threading
from collections.abc import MutableMapping

from aiuti.asyncio import threadsafe_async_cache

logging.getLogger('asyncio').setLevel(logging.CRITICAL)  # "Task was destroyed"

c_owns_cache_lock_next = threading.Event()  # C holds event_making_lock
b_inside_mapping = threading.Event()        # B holds the mapping's lock
armed = threading.Event()                   # hooks only act in phase 2/3


class LockedDict(MutableMapping):
    """An ordinary thread-safe dict: every method under one lock."""

    def __init__(self):
        self._d = {}
        self._lock = threading.Lock()
        self._probes = {}  # thread name -> number of lookups (harness)

    def __getitem__(self, key):
        me = threading.current_thread().name
        if armed.is_set() and me == 'C':
            n = self._probes[me] = self._probes.get(me, 0) + 1
            if n == 2:
                # second probe of C = the one under event_making_lock
                c_owns_cache_lock_next.set()
                b_inside_mapping.wait(30)
        with self._lock:
            if armed.is_set() and me == 'B' and not b_inside_mapping.is_set():
                b_inside_mapping.set()
                # an automatic garbage collection starts here (any
                # allocation can start one)
                gc.collect()
            return self._d[key]

    def __setitem__(self, key, value):
        with self._lock:
            self._d[key] = value

    def __delitem__(self, key):
        with self._lock:
            del self._d[key]

    def __iter__(self):
        with self._lock:
            return iter(list(self._d))

    def __len__(self):
        with self._lock:
            return len(self._d)


invocations = []


@threadsafe_async_cache(cache=LockedDict())
async def f(key):
    invocations.append(key)
    if key == 'abandoned':
        await aio.sleep(3600)
    return 'result of %s' % key


def phase1():
    # a successfully computed key, and a call which is abandoned
    gc.disable()  # keep the moment of the collection under our control
    loop = aio.new_event_loop()

    async def main():
        assert await f('done') == 'result of done'
        aio.ensure_future(f('abandoned'))
        await aio.sleep(0.01)  # computation started, still pending

    loop.run_until_complete(main())
    loop.close()  # no cancellation: the pending call is abandoned


results = {}


def thread_c():
    loop = aio.new_event_loop()
    try:
        results['C'] = loop.run_until_complete(f('c'))
    finally:
        loop.close()


def thread_b():
    c_owns_cache_lock_next.wait(30)
    loop = aio.new_event_loop()
    try:
        results['B'] = loop.run_until_complete(f('done'))
    finally:
        loop.close()


def main():
    t = threading.Thread(target=phase1, name='A')
    t.start()
    t.join(30)
    assert not t.is_alive() and invocations == ['done', 'abandoned']

    armed.set()
    tc = threading.Thread(target=thread_c, name='C', daemon=True)
    tb = threading.Thread(target=thread_b, name='B', daemon=True)
    tc.start()
    tb.start()
    tc.join(6)
    tb.join(6)
    if tc.is_alive() or tb.is_alive():
        print("VIOLATION: dead-lock - the caller of f('done') (a key whose "
              "invocation returned successfully) and the caller of f('c') "
              "never receive a result (B alive=%s, C alive=%s after 12 s): "
              "the abandoned call, finalized by the garbage collector inside "
              "the thread-safe cache mapping, blocks on event_making_lock "
              "owned by the other thread, which waits for the mapping. "
              "Clause broken: 'every later or waiting caller receives that "
              "one result' (the cache is dead for every key and thread)."
              % (tb.is_alive(), tc.is_alive()))
        sys.stdout.flush()
        os._exit(1)
    if results != {'B': 'result of done', 'C': 'result of c'}:
        print('VIOLATION: wrong results', results)
        sys.stdout.flush()
        os._exit(1)
    if invocations.count('done') != 1 or invocations.count('c') != 1:
        print('VIOLATION: invoked more than once', invocations)
        sys.stdout.flush()
        os._exit(1)
    print('OK')
    sys.stdout.flush()
    os._exit(0)


main()
