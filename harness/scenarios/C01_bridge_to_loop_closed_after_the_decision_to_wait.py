"""
C01: single-flight. Loop A computes the key; a caller on loop B decides (under the lock) to wait for A and is held just
before its bridging call; A is stopped and closed; a caller on loop C takes the key over and is still computing; only
then B's bridging call fails (closed loop). B must go round again and wait for C, not invoke the function itself.
Wraps demos/C01_h_demo.py (written by an independent sub-agent from the property text alone; it holds B by wrapping the
module's `run_coro_ts` alias - if that name is gone the demo reports SKIP, not a verdict).
"""
import os
import sys

sys.path.insert(0, os.path.dirname(os.path.abspath(__file__)))
from _run_demo import run  # noqa: E402

if __name__ == '__main__':
    rc = run('C01_h_demo.py', """C01: two invocations for the same key are never in progress at once on running loops""")
    sys.stdout.flush()
    os._exit(rc)
