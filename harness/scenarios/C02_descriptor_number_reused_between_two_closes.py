"""
C02: at most one holder inside. Three FileLock objects on one path: B fails a non-blocking attempt while A holds the lock; between the
descriptor clean-up steps of B's failed attempt C opens the lock file (the kernel hands out the lowest free descriptor
number again), gets the lock after A's release and enters; A then tries again while C is inside and must be refused.
Wraps demos/C02_h_demo.py (written by an independent sub-agent from the property text alone; public API only after
the removal of one private attribute read; it pauses B right after the first os.close it performs).
"""
import os
import sys

sys.path.insert(0, os.path.dirname(os.path.abspath(__file__)))
from _run_demo import run  # noqa: E402

if __name__ == '__main__':
    rc = run('C02_h_demo.py', """C02: a contender whose acquire reports success is the holder until it releases; nobody else gets in meanwhile""")
    sys.stdout.flush()
    os._exit(rc)
