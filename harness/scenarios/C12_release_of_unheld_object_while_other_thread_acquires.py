"""
C12: releasing an unheld lock is a no-op; a non-reentrant lock refuses a second acquire while it is held.

Use: two FileLock objects on one path, two threads.  L1 holds the file lock.  Thread B calls
L2.acquire(timeout=...) and is polling for the OS lock (it owns L2's in-process lock meanwhile, L2 is not locked).
The main thread calls L2.release() - L2 is held by nobody, so nothing may happen.  Then L1 is released, B's acquire
succeeds, and while B holds L2 a non-blocking acquire of L2 from the main thread must be refused and L2 must still
hold the file lock (a fresh object cannot get it); after B's release the lock is free again.

Public API only (aiuti.filelock.FileLock); the only timing assumption is that 0.5 s are enough for thread B to reach
its polling loop (checked: it must still be acquiring, else the scenario is skipped).
"""
import os
import sys
import tempfile
import threading
import time

from aiuti.filelock import FileLock


def main():
    path = os.path.join(tempfile.mkdtemp(), 'c12g.lock')
    l1, l2 = FileLock(path), FileLock(path)
    assert l1.acquire(timeout=5)
    state = {}
    go_on = threading.Event()
    done = threading.Event()

    def b():
        state['got'] = l2.acquire(timeout=20, poll_interval=0.05)
        state['acquired_at'] = time.monotonic()
        done.set()
        go_on.wait(30)
        if state['got']:
            l2.release()

    tb = threading.Thread(target=b, daemon=True)
    tb.start()
    time.sleep(0.5)
    if done.is_set() or l2.is_locked:
        print('SKIPPED: thread B was not polling for the OS lock when expected')
        go_on.set()
        return 2
    problems = []
    try:
        l2.release()            # L2 is held by nobody: a no-op
    except BaseException as e:  # noqa
        problems.append('release() of the unheld object raised %r' % (e,))
    if l2.is_locked:
        problems.append('is_locked became true')
    l1.release()
    if not done.wait(15) or not state.get('got'):
        problems.append('thread B\'s pending acquire did not succeed after the holder released (got=%r)' % state.get('got'))
        go_on.set()
    else:
        if not l2.is_locked:
            problems.append('B\'s acquire reported success but the object says it is not locked')
        second = l2.acquire(blocking=False)
        if second:
            problems.append('a second, non-blocking acquire of the non-reentrant object succeeded while thread B holds it')
            l2.release()
        fresh = FileLock(path)
        if fresh.acquire(blocking=False):
            problems.append('a fresh object got the file lock while thread B holds it')
            fresh.release()
        go_on.set()
        tb.join(10)
        if l2.is_locked:
            problems.append('after B released, the object still says it is locked')
        fresh = FileLock(path)
        if not fresh.acquire(timeout=3):
            problems.append('after B released, the file lock cannot be acquired any more (never given back)')
        else:
            fresh.release()
    if problems:
        print('VIOLATION: C12 promises that releasing an unheld lock is a no-op and that a held non-reentrant lock '
              'refuses a second acquire; L2.release() was called by the main thread while L2 was held by nobody '
              '(another thread\'s timed acquire of L2 was still polling for the OS lock): ' + '; '.join(problems))
        return 1
    print('OK')
    return 0


if __name__ == '__main__':
    rc = main()
    sys.stdout.flush()
    os._exit(rc)
