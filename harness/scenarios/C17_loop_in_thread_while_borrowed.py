"""
C17: `loop_in_thread` returns although the thread it started is NOT running
the loop yet (the loop is only *borrowed* by a concurrent `ensure_aw` call on
the then idle loop, so `loop.is_running()` is true).  A stop request issued
in that state is swallowed by the `running` guard of `_stop` (the F34 repair),
so the stop function never returns and the loop is never stopped.

  thread A (own loop):  await ensure_aw(gate(), T)      # T idle -> borrowed
  thread B (own loop):  stop = loop_in_thread(T)        # returns at once
                        await ensure_aw(short(), T)     # proxied, fine
                        stop()                          # hangs forever
"""
import asyncio
import os
import sys
import threading

from aiuti.asyncio import ensure_aw, loop_in_thread

T = asyncio.new_event_loop()          # the idle target loop

a_started = threading.Event()         # A's awaitable is being evaluated on T
b_about_to_stop = threading.Event()   # B is done with its call, calls stop()
info = {}


async def gate():
    """A's awaitable: runs on T until it is released from outside."""
    info['a_thread'] = threading.get_ident()
    info['gate'] = asyncio.get_running_loop().create_future()
    a_started.set()
    await info['gate']
    return 'A-result'


async def short():
    assert asyncio.get_running_loop() is T
    return threading.get_ident()


def thread_a():
    info['a_result'] = asyncio.run(ensure_aw(gate(), T))


def thread_b():
    async def main():
        stop = loop_in_thread(T)
        info['b_returned_while_a_pending'] = 'a_result' not in info
        info['b_thread_running_T'] = await ensure_aw(short(), T)
        b_about_to_stop.set()
        stop()
        info['b_stop_returned'] = True
        info['running_after_stop'] = T.is_running()
    asyncio.run(main())


ta = threading.Thread(target=thread_a, daemon=True)
ta.start()
if not a_started.wait(30):
    print("VIOLATION: ensure_aw on the idle loop never started its awaitable")
    os._exit(1)

tb = threading.Thread(target=thread_b, daemon=True)
tb.start()

# With the defect B gets here while A still borrows T.  (A repaired library
# makes loop_in_thread wait for the borrower: then we time out here, release
# A, and everything completes.)
early = b_about_to_stop.wait(5)
if early:
    # Let the (swallowed) stop request be processed on T: generous margin,
    # then one round trip through T's queue which is FIFO behind it.
    threading.Event().wait(1.0)
    rt = threading.Event()
    T.call_soon_threadsafe(rt.set)
    rt.wait(10)

# Release A's awaitable: its ensure_aw call completes, the borrow ends.
T.call_soon_threadsafe(info['gate'].set_result, None)

ta.join(30)
tb.join(15)

problems = []
if ta.is_alive() or info.get('a_result') != 'A-result':
    problems.append("caller A did not get its result")
if tb.is_alive():
    problems.append(
        "the stop function of loop_in_thread never returned (15 s after the "
        "only other user of the loop had finished) and the loop is "
        f"{'still running' if T.is_running() else 'not running'}: "
        "loop_in_thread had returned while the loop was merely borrowed by a "
        "concurrent ensure_aw call"
        + (" (B's awaitable ran on A's borrower thread)"
           if info.get('b_thread_running_T') == info.get('a_thread') else "")
        + ", i.e. NOT once its own thread was running the loop; the stop "
        "request issued then was dropped by the `running` guard, so stop() "
        "waits forever for a loop thread that runs forever"
    )
elif info.get('running_after_stop'):
    problems.append("stop function returned while the loop was still running")

if problems:
    print("VIOLATION: " + "; ".join(problems))
    sys.stdout.flush()
    os._exit(1)

print("OK")
sys.stdout.flush()
os._exit(0)
