"""
C20 demo: gather_excs / raise_first_exc report an exception that was never
raised - an awaitable that merely RETURNS an exception instance as its
(ordinary) result is indistinguishable from one that failed.
"""
import asyncio as aio
import sys

from aiuti.asyncio import gather_excs, raise_first_exc


class Base(Exception):
    pass


class Sub(Base):
    pass


RAISED = []  # ground truth: exceptions that were actually raised


async def returns(value, delay):
    await aio.sleep(delay)
    return value  # completes NORMALLY; nothing is raised


async def raises(exc, delay):
    await aio.sleep(delay)
    RAISED.append(exc)
    raise exc


async def main():
    problems = []

    # --- gather_excs -----------------------------------------------------
    returned = Sub("I am a return value, nobody raised me")
    failure = Base("really raised")
    aws = [
        returns(1, 0.03),
        returns(returned, 0.01),   # returns an exception object
        raises(failure, 0.02),     # the only real failure
    ]
    got = [e async for e in gather_excs(aws, only=Base)]
    if got != RAISED:
        problems.append(
            f"gather_excs(only=Base) yielded {got!r} but the exceptions "
            f"actually raised were {RAISED!r}"
        )

    # --- raise_first_exc ---------------------------------------------------
    RAISED.clear()
    try:
        res = await raise_first_exc([returns(1, 0.01),
                                     returns(Sub("only returned"), 0.0)])
    except BaseException as e:  # noqa
        problems.append(
            f"raise_first_exc raised {e!r} although no awaitable raised "
            f"anything (raised={RAISED!r}); it must return None"
        )
    else:
        if res is not None:
            problems.append(f"raise_first_exc returned {res!r}")

    return problems


problems = aio.run(main())
if problems:
    print("VIOLATION: " + " | ".join(problems)
          + " -- the property promises 'exactly the exceptions raised' and "
            "'returns None when there is none'.")
    sys.exit(1)
print("OK: property respected")
sys.exit(0)
