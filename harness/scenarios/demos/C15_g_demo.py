"""
C15 demo (round 7): a call to a batcher-decorated function which is MADE
while one event loop is running (loop A, in a coroutine of A) but is handed
to ANOTHER running loop to be awaited there (loop B, via
asyncio.run_coroutine_threadsafe) must be batched by the loop which runs
it: "each loop getting its own independent batching".

Original code: the loop is looked up when the call is awaited -> the work
is batched on loop B, A's own calls on loop A.  PASS.
Changed code: the loop is looked up when the function is called -> the
call handed to B is tied to A's batcher and its future.  FAIL.
"""
import sys
import threading
import asyncio as aio

from aiuti.asyncio import async_background_batcher

ran = []  # (name of the loop the batch function ran on, keys of the batch)
names = {}


@async_background_batcher(max_batch_size=2, batch_timeout=0.05)
async def add_1(batch):
    ran.append((names.get(aio.get_running_loop(), '?'),
                sorted(k for k, _ in batch)))
    for key, value in batch:
        yield key, value + 1


def short(e):
    text = str(e)
    if 'attached to a different loop' in text:
        text = '... got Future attached to a different loop'
    return f'{type(e).__name__}: {text[:80]}'


def start_loop_b():
    loop_b = aio.new_event_loop()
    started = threading.Event()

    def run():
        aio.set_event_loop(loop_b)
        loop_b.call_soon(started.set)
        loop_b.run_forever()

    thread = threading.Thread(target=run, daemon=True)
    thread.start()
    assert started.wait(10)
    return loop_b, thread


async def main(loop_b):
    names[aio.get_running_loop()] = 'A'
    names[loop_b] = 'B'
    problems = []

    # 1. the call is made here (loop A is running), awaited on loop B
    handed = [aio.run_coroutine_threadsafe(add_1(x), loop_b)
              for x in (10, 20)]
    # 2. ordinary calls of loop A itself, at the same time
    own = [aio.ensure_future(add_1(x)) for x in (1, 2)]

    try:
        got_own = await aio.wait_for(aio.gather(*own), 10)
    except BaseException as e:  # noqa
        got_own = repr(e)
    got_handed = []
    for cf in handed:
        try:
            got_handed.append(
                await aio.wait_for(aio.wrap_future(cf), 10))
        except BaseException as e:  # noqa
            got_handed.append(short(e))

    if got_own != [2, 3]:
        problems.append(f"calls of loop A itself gave {got_own!r}, "
                        f"expected [2, 3]")
    if got_handed != [11, 21]:
        problems.append(f"calls handed to loop B gave {got_handed!r}, "
                        f"expected [11, 21]")
    batches = sorted(ran)
    expected = [('A', ['1', '2']), ('B', ['10', '20'])]
    if batches != expected:
        problems.append(f"batches (loop, keys) were {batches!r}, "
                        f"expected {expected!r}")
    return problems


if __name__ == '__main__':
    loop_b, thread = start_loop_b()
    try:
        problems = aio.run(main(loop_b))
    finally:
        loop_b.call_soon_threadsafe(loop_b.stop)
        thread.join(10)
    if problems:
        print("FAIL: a call made under loop A but awaited on loop B was "
              "not batched by loop B:")
        for p in problems:
            print("  -", p)
        sys.exit(1)
    print("PASS")
    sys.exit(0)
