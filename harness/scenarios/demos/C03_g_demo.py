"""
C03 demonstration: a submission which lands in the few event-loop
iterations in which wait() gives up the timed read of an open round.

A round is open (argument 'A' is loaded, the wrapper is waiting - with
its timeout - for the next producer).  One task calls wait(); a second
task of the same loop submits 'X' exactly k loop iterations later, for
k = 0..7 (every interleaving is forced by counting ``sleep(0)`` steps,
nothing depends on wall-clock time).  Whatever k is, both 'A' and 'X'
must eventually be passed to the wrapped function in a call which
completes without error.
"""
import asyncio as aio
import logging
import sys

from aiuti.asyncio import buffer_until_timeout

logging.disable(logging.CRITICAL)

TIMEOUT = 0.3


async def scenario(k: int):
    calls = []

    async def func(args):
        calls.append(set(args))

    buf = buffer_until_timeout(func, timeout=TIMEOUT)

    buf('A')
    await aio.sleep(0.05)  # The round is open now: timed read pending

    async def submitter():
        for _ in range(k):
            await aio.sleep(0)
        buf('X')

    sub = aio.ensure_future(submitter())
    await buf.wait()
    await sub
    # Leave (much) more than enough time for anything still pending
    # (a plain sleep: a lost argument also leaves later wait() calls stuck)
    await aio.sleep(4 * TIMEOUT)
    return calls


async def main():
    bad = []
    for k in range(8):
        calls = await aio.wait_for(scenario(k), 30)
        delivered = set().union(*calls) if calls else set()
        print(f"k={k}: calls={calls}")
        if delivered != {'A', 'X'}:
            bad.append((k, calls))
    return bad


bad = aio.run(main())
if bad:
    for k, calls in bad:
        print(f"FAIL: 'X' submitted {k} loop iteration(s) after wait() was "
              f"called was never passed to the function (calls: {calls})")
    sys.exit(1)
print("PASS")
