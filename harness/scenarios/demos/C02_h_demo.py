"""
Demo for C02 (FileLock mutual exclusion).

Three FileLock objects on one path, three threads:

  A (main, L1) holds the lock.
  B (L2) tries acquire(blocking=False); it fails, as it must.  B is paused
    right after the first os.close() it performs (forced interleaving).
  C (L3) starts a blocking acquire: it opens the lock file (the descriptor
    number B has just closed is handed out again) and waits in flock.
  A releases; C gets the lock and enters its critical section.
  B is resumed and finishes its failed acquire.
  A tries acquire(blocking=False) while C is still inside its section.

Correct behaviour: A's attempt returns False (C is the holder).
"""
import os
import sys
import tempfile
import threading
import time

from aiuti.filelock import FileLock

WAIT = 20


def main() -> int:
    tmpdir = tempfile.mkdtemp(prefix='demo_C02_')
    path = os.path.join(tmpdir, 'demo.lock')

    l1, l2, l3 = FileLock(path), FileLock(path), FileLock(path)

    b_first_close_done = threading.Event()
    b_resume = threading.Event()
    b_done = threading.Event()
    c_inside = threading.Event()
    c_leave = threading.Event()
    c_done = threading.Event()
    results = {}
    b_closed = []

    real_close = os.close
    thread_b = None

    def patched_close(fd):
        real_close(fd)
        if threading.current_thread() is thread_b:
            b_closed.append(fd)
            if len(b_closed) == 1:
                # Pause B right after its first close
                b_first_close_done.set()
                b_resume.wait(WAIT)

    def run_b():
        results['b'] = l2.acquire(blocking=False)
        b_done.set()

    def run_c():
        results['c'] = l3.acquire()
        c_inside.set()
        c_leave.wait(WAIT)
        l3.release()
        c_done.set()

    os.close = patched_close
    try:
        assert l1.acquire()  # A inside

        thread_b = threading.Thread(target=run_b, daemon=True)
        thread_b.start()
        if not b_first_close_done.wait(WAIT):
            print('ERROR: B never closed its descriptor')
            return 2

        thread_c = threading.Thread(target=run_c, daemon=True)
        thread_c.start()
        # Wait until C has opened the lock file and is waiting for flock
        # (public API only: give C the time to get there)
        time.sleep(0.7)
        c_fd = 'n/a'
        if c_inside.is_set():
            print('ERROR: C got in while A holds the lock')
            return 2

        l1.release()  # A leaves
        if not c_inside.wait(WAIT):
            print('ERROR: C never acquired the lock')
            return 2

        # B finishes its failed non-blocking attempt
        b_resume.set()
        if not b_done.wait(WAIT):
            print('ERROR: B did not finish')
            return 2

        # C is inside its critical section; A must not get in
        a_again = l1.acquire(blocking=False)
        overlap = a_again and c_inside.is_set() and not c_done.is_set()
        if a_again:
            l1.release()
        c_leave.set()
        c_done.wait(WAIT)
    finally:
        os.close = real_close
        b_resume.set()
        c_leave.set()

    if results.get('b') is not False:
        print('FAIL: B acquire(blocking=False) returned', results.get('b'),
              'while A was holding the lock')
        return 1
    if overlap:
        print('FAIL: A acquired the lock (acquire(blocking=False) -> True) '
              'while C was inside its critical section; C waited on '
              'descriptor %r, descriptors closed by B: %r (B closed a '
              'descriptor number twice and took away C\'s locked file)'
              % (c_fd, b_closed))
        return 1
    print('PASS: A was refused while C was inside (descriptors closed by '
          'B: %r, C used %r)' % (b_closed, c_fd))
    return 0


if __name__ == '__main__':
    sys.exit(main())
