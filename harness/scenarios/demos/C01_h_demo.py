"""
Demo for C01 (single-flight): a waiter whose bridging call to the computing
loop fails because that loop was closed in the meantime must not disturb the
in-flight marker of whoever has taken the key over since.

Schedule forced here:
  1. loop A starts computing key 1 (never finishes).
  2. a caller on loop B sees A's live marker under the lock, decides to wait
     cross-loop, and is held just before run_coroutine_threadsafe(..., A).
  3. loop A is stopped and closed (its computation is abandoned).
  4. a caller on loop C takes the key over and is computing.
  5. B is released: its bridging call raises RuntimeError (A is closed).
Expected: B loops around, finds C's marker and waits for C's result.
"""
import asyncio as aio
import sys
import threading
import warnings

import aiuti.asyncio as mod

warnings.simplefilter('ignore')

main_thread_guard = threading.Lock()
in_progress = []          # (loop, thread name) of invocations in progress
overlaps = []             # descriptions of violations
calls = []                # every invocation (thread name)

a_entered = threading.Event()
c_entered = threading.Event()
b_at_bridge = threading.Event()
b_go = threading.Event()
b_decided = threading.Event()   # B entered func, or B bridged a second time
release = threading.Event()
b_bridge_calls = []


@mod.threadsafe_async_cache
async def compute(x):
    loop = aio.get_running_loop()
    name = threading.current_thread().name
    with main_thread_guard:
        live = [n for (lp, n) in in_progress
                if lp.is_running() and not lp.is_closed()]
        if live:
            overlaps.append(f'{name} entered while {live} still computing')
        me = (loop, name)
        in_progress.append(me)
        calls.append(name)
    try:
        if name == 'A':
            a_entered.set()
            await aio.Event().wait()          # never finishes
        if name == 'C':
            c_entered.set()
        if name == 'B':
            b_decided.set()
        while not release.is_set():
            await aio.sleep(0.005)
        return f'{x} computed on {name}'
    finally:
        with main_thread_guard:
            in_progress.remove(me)


real_run_coro_ts = getattr(mod, 'run_coro_ts', None)
if real_run_coro_ts is None:
    print('SKIP: the module has no run_coro_ts alias to hold B at')
    sys.exit(2)


def held_run_coro_ts(coro, loop):
    if threading.current_thread().name == 'B':
        b_bridge_calls.append(loop)
        if len(b_bridge_calls) == 1:
            b_at_bridge.set()
            b_go.wait(30)
        else:
            b_decided.set()
    return real_run_coro_ts(coro, loop)


mod.run_coro_ts = held_run_coro_ts


def start_loop(name):
    loop = aio.new_event_loop()

    def run():
        aio.set_event_loop(loop)
        loop.run_forever()

    thread = threading.Thread(target=run, name=name, daemon=True)
    thread.start()
    return loop, thread


def stop_loop(loop, thread):
    loop.call_soon_threadsafe(loop.stop)
    thread.join(10)


def need(event, what):
    if not event.wait(20):
        print('SKIP: demo could not force the schedule:', what)
        sys.exit(2)


loop_a, thread_a = start_loop('A')
loop_b, thread_b = start_loop('B')
loop_c, thread_c = start_loop('C')

# 1. A computes
fut_a = real_run_coro_ts(compute(1), loop_a)
need(a_entered, 'A never started computing')

# 2. B decides to wait for A and is held before bridging
fut_b = real_run_coro_ts(compute(1), loop_b)
need(b_at_bridge, 'B never reached the bridging call')

# 3. A stops and is closed, abandoning its computation
stop_loop(loop_a, thread_a)
loop_a.close()

# 4. C takes over and is computing
fut_c = real_run_coro_ts(compute(1), loop_c)
need(c_entered, 'C never took the key over')

# 5. B's bridging call now fails
b_go.set()
need(b_decided, 'B neither computed nor waited again')

release.set()
res_c = fut_c.result(20)
res_b = fut_b.result(20)

stop_loop(loop_b, thread_b)
stop_loop(loop_c, thread_c)

problems = list(overlaps)
live_calls = [n for n in calls if n != 'A']
if len(live_calls) != 1:
    problems.append(f'invocations on running loops: {live_calls}')
if res_b != res_c:
    problems.append(f'B got {res_b!r} but C got {res_c!r}')

if problems:
    print('FAIL: single-flight broken after a failed bridge to a closed '
          'loop:', '; '.join(problems))
    sys.exit(1)
print('PASS: B waited for C; results', res_b, '/', res_c)
sys.exit(0)
