"""
C14 demo: two calls with equal arguments must share one cache entry (the
wrapped function runs once for the key), also when the second call arrives
from another thread at the very moment the first one is storing its result
in the caller-supplied mapping.

The interleaving is forced with a caller-supplied MutableMapping whose first
``__setitem__`` pauses: thread B makes its (equal) call exactly then.
"""
import asyncio as aio
import sys
import threading
from collections.abc import MutableMapping

from aiuti.asyncio import threadsafe_async_cache


class GateMap(MutableMapping):
    """A dict whose first store pauses until released (or 2 s pass)."""

    def __init__(self):
        self.data = {}
        self.storing = threading.Event()   # first store has begun
        self.release = threading.Event()   # first store may go on
        self._first = True
        self._guard = threading.Lock()

    def __getitem__(self, key):
        return self.data[key]

    def __setitem__(self, key, value):
        with self._guard:
            first, self._first = self._first, False
        if first:
            self.storing.set()
            self.release.wait(2)
        self.data[key] = value

    def __delitem__(self, key):
        del self.data[key]

    def __iter__(self):
        return iter(list(self.data))

    def __len__(self):
        return len(self.data)


cache = GateMap()
calls = []            # one entry per run of the wrapped function
calls_lock = threading.Lock()


@threadsafe_async_cache(cache=cache)
async def tagged(x, *, k):
    with calls_lock:
        calls.append((x, k))
        n = len(calls)
    await aio.sleep(0.01)
    return ('result-for', x, k, 'computation', n)


results = {}
b_done = threading.Event()


def thread_a():
    async def main():
        results['A'] = await tagged(7, k='v')
        # keep this loop alive while B may be waiting on it
        while not b_done.is_set():
            await aio.sleep(0.01)
    aio.run(main())


def thread_b():
    async def main():
        results['B'] = await tagged(7, k='v')
    try:
        aio.run(main())
    finally:
        b_done.set()


ta = threading.Thread(target=thread_a, daemon=True)
ta.start()
if not cache.storing.wait(10):
    print('FAIL: the first call never stored its result')
    sys.exit(1)

# A has computed the value and is in the middle of storing it: B calls now
tb = threading.Thread(target=thread_b, daemon=True)
tb.start()
b_done.wait(1)         # B either finishes at once or has to wait for A
cache.release.set()
tb.join(20)
ta.join(20)
if tb.is_alive() or ta.is_alive():
    print('FAIL: a call did not return')
    sys.exit(1)

problems = []
if len(calls) != 1:
    problems.append('the function ran %d times for the single key (7, k=v): %r'
                    % (len(calls), calls))
if results.get('A') != results.get('B'):
    problems.append('equal calls got different values: A=%r B=%r'
                    % (results.get('A'), results.get('B')))
if len(cache) != 1:
    problems.append('the mapping holds %d entries' % len(cache))

if problems:
    print('FAIL: a call made from another thread while the first result was '
          'being stored did not share it')
    for p in problems:
        print('  -', p)
    sys.exit(1)
print('PASS: one computation, both calls got', results['A'])
