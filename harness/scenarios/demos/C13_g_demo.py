"""
C13 demo: a crashed holder must never leave the FileLock stuck.

History needed:
  * H (this process) holds the lock.
  * P asks for the lock with a *timeout* (so it polls), and has polled at
    least once without success.
  * While P's acquiring thread sleeps between two polls, another thread of
    P forks a long-lived worker C (which never touches the lock).
  * H releases; P's next poll gets the lock.
  * P is SIGKILLed while holding.
  * A fresh process F must now get the lock promptly.
"""
import os
import signal
import subprocess
import sys
import tempfile
import time

from aiuti.filelock import FileLock

P_CODE = r'''
import logging, os, sys, threading, time
from aiuti.filelock import FileLock

path = sys.argv[1]
lock = FileLock(path)

polled = threading.Event()     # set right before the sleep between polls


class Seen(logging.Handler):
    def emit(self, record):
        if 'not acquired' in record.getMessage():
            polled.set()


log = logging.getLogger('aiuti.filelock')
log.setLevel(logging.DEBUG)
log.propagate = False
log.addHandler(Seen())


def say(*words):
    print(*words, flush=True)


def taker():
    ok = lock.acquire(timeout=60, poll_interval=2.0)
    say('acquired', ok)
    time.sleep(1000)           # holds the lock until killed


threading.Thread(target=taker, daemon=True).start()
assert polled.wait(30)
# The taker thread is now inside time.sleep(2.0) between two polls
pid = os.fork()
if pid == 0:
    # long-lived worker which has nothing to do with the lock
    try:
        time.sleep(1000)
    finally:
        os._exit(0)
say('forked', pid)
time.sleep(1000)
'''

F_CODE = r'''
import sys, time
from aiuti.filelock import FileLock
lock = FileLock(sys.argv[1])
t0 = time.time()
ok = lock.acquire(timeout=3)
print('fresh', ok, round(time.time() - t0, 2), flush=True)
sys.exit(0 if ok else 3)
'''


def main() -> int:
    tmp = tempfile.mkdtemp(prefix='c13-')
    path = os.path.join(tmp, 'the.lock')
    worker = None
    p = None
    try:
        holder = FileLock(path)
        assert holder.acquire(timeout=5)

        p = subprocess.Popen([sys.executable, '-c', P_CODE, path],
                             stdout=subprocess.PIPE, text=True)
        line = p.stdout.readline().split()
        assert line[:1] == ['forked'], line
        worker = int(line[1])

        holder.release()       # now P's next poll succeeds
        line = p.stdout.readline().split()
        assert line == ['acquired', 'True'], line

        # sanity: P really holds the lock
        probe = FileLock(path)
        assert not probe.acquire(blocking=False), 'P does not exclude others'

        os.kill(p.pid, signal.SIGKILL)
        p.wait()
        p = None
        killed_at = time.time()

        f = subprocess.run([sys.executable, '-c', F_CODE, path],
                           stdout=subprocess.PIPE, text=True, timeout=60)
        print(f.stdout.strip())
        if f.returncode == 0:
            print('PASS: a fresh process got the lock %.2fs after the '
                  'holder was killed' % (time.time() - killed_at))
            return 0
        print('FAIL: the holder was SIGKILLed, yet a fresh process could '
              'not get the lock within 3s: the worker (pid %d) forked '
              'while the holder was still polling for the lock kept the '
              'polled descriptor open, and with it the kernel lock the '
              'holder later obtained through it' % worker)
        return 1
    finally:
        for pid in (worker, p.pid if p else None):
            if pid:
                try:
                    os.kill(pid, signal.SIGKILL)
                except OSError:
                    pass


if __name__ == '__main__':
    sys.exit(main())
