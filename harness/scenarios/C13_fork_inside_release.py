"""
C13: a holder killed while *releasing* leaves the FileLock stuck, if another
of its threads forked after release() had taken the descriptor off the lock
object (BaseFileLock._release: `fd, self._lock_file_fd = self._lock_file_fd,
None`) and before the OS lock was dropped.  The at-fork hook knows only
`_lock_file_fd` and `_pending_fd`; at that moment the descriptor lives in a
local variable only, so the forked child keeps the (still locked) open file.

holder process:   main thread: acquire(); release()  -- paused (by a trace
                  function, to force the interleaving) at the first line
                  event inside _release() after the descriptor has been taken
                  off the object
                  thread B   : os.fork()  [child just lives on], then SIGKILL
                  to the holder itself -> the holder dies inside release()
tester (fresh)  : must be able to acquire promptly once the holder is dead.

A control run forks while the lock is simply held (before release() starts):
there the hook closes the inherited descriptor and all is well.
"""
import os
import signal
import subprocess
import sys
import tempfile
import threading
import time

from aiuti.filelock import FileLock


def holder(d: str, mode: str) -> None:
    path = os.path.join(d, 'the.lock')
    lock = FileLock(path)
    assert lock.acquire(timeout=5)

    reached = threading.Event()
    forked = threading.Event()

    def forker() -> None:
        reached.wait(20)
        pid = os.fork()
        if pid == 0:  # the forked child: a survivor, does nothing wrong
            try:
                with open(os.path.join(d, 'child.pid.tmp'), 'w') as f:
                    f.write(str(os.getpid()))
                os.rename(os.path.join(d, 'child.pid.tmp'),
                          os.path.join(d, 'child.pid'))
                time.sleep(60)
            finally:
                os._exit(0)
        forked.set()
        # wait until the child is up, then the whole holder process dies
        t0 = time.time()
        while (not os.path.exists(os.path.join(d, 'child.pid'))
               and time.time() - t0 < 10):
            time.sleep(0.01)
        with open(os.path.join(d, 'where'), 'w') as f:
            f.write(where[0])
        os.kill(os.getpid(), signal.SIGKILL)

    where = ['not inside release()']

    def local(frame, event, arg):  # type: ignore
        if (event == 'line' and frame.f_code.co_name == '_release'
                and not reached.is_set()
                and isinstance(frame.f_locals.get('fd'), int)
                and lock._lock_file_fd is None):
            # descriptor taken off the object, OS lock not yet dropped
            where[0] = 'filelock.py:%d (%s)' % (frame.f_lineno,
                                                  frame.f_code.co_name)
            reached.set()
            forked.wait(10)
            time.sleep(30)  # killed here (after a repair: never gets here,
            #                 or the fork had to wait and we are killed later)
        return local

    def tracer(frame, event, arg):  # type: ignore
        if frame.f_code.co_filename.endswith('filelock.py'):
            return local
        return None

    b = threading.Thread(target=forker, daemon=True)
    b.start()
    if mode == 'control':
        # fork while the lock is simply held; die while holding
        where[0] = 'holding (before release())'
        reached.set()
        time.sleep(60)
    else:
        sys.settrace(tracer)
        lock.release()
        sys.settrace(None)
        # only after a repair which never exposes the window:
        where[0] = 'after release() returned'
        reached.set()
        time.sleep(60)


def run(mode: str) -> str:
    with tempfile.TemporaryDirectory() as d:
        path = os.path.join(d, 'the.lock')
        child_pid = None
        try:
            p = subprocess.Popen([sys.executable, os.path.abspath(__file__),
                                  'holder', d, mode])
            rc = p.wait(timeout=60)
            if rc != -signal.SIGKILL:
                return 'SETUP: holder ended with %r' % rc
            with open(os.path.join(d, 'child.pid')) as f:
                child_pid = int(f.read())
            with open(os.path.join(d, 'where')) as f:
                where = f.read()
            os.kill(child_pid, 0)  # the forked child is alive
            fresh = FileLock(path)
            t0 = time.time()
            got = fresh.acquire(timeout=5)
            dt = time.time() - t0
            if got:
                fresh.release()
                return 'fine: holder killed at %s, acquired in %.2fs' % (
                    where, dt)
            return ('STUCK: holder (pid %d) was killed with SIGKILL at %s '
                    'and is dead, yet a fresh process could not acquire the '
                    'lock in %.1fs: its forked child (pid %d, forked by '
                    'another thread at that moment) still has the locked '
                    'lock file open' % (p.pid, where, dt, child_pid))
        finally:
            if child_pid is not None:
                try:
                    os.kill(child_pid, signal.SIGKILL)
                except OSError:
                    pass


def main() -> int:
    control = run('control')
    print('control (fork while holding):', control)
    if not control.startswith('fine'):
        print('OK (control inconclusive, nothing shown)')
        return 0
    res = run('release')
    print('fork inside release():', res)
    if res.startswith('STUCK'):
        print('VIOLATION: C13 "the lock is not left behind / another process '
              'can acquire promptly afterwards": ' + res)
        return 1
    if res.startswith('SETUP'):
        print('OK (setup problem, nothing shown)')
        return 0
    print('OK')
    return 0


if __name__ == '__main__':
    if len(sys.argv) > 1 and sys.argv[1] == 'holder':
        holder(sys.argv[2], sys.argv[3])
    else:
        sys.exit(main())
