"""
C04: "the yielded value is returned" - broken for a batch function which
returns an async iterable whose iterator object only implements __anext__.

PEP 492 ("Asynchronous Iterators and 'async for'") requires of the object
returned by __aiter__ only that it implements __anext__; `async for` accepts
it (first checked below), collections.abc.AsyncIterable accepts the iterable,
and the library as originally written (`async for ... in self.func(args)`)
accepted it too.  Since the repair which closes "the iterator which is really
being iterated", _process_batch calls results.__aiter__() itself and then runs
`async for` over the *iterator*, which calls __aiter__ a second time - on an
object that doesn't need to have it.
"""
import asyncio as aio
import sys
from collections.abc import AsyncIterable

from aiuti.asyncio import AsyncBackgroundBatcher, async_background_batcher


class _Rows:
    """The iterator: what PEP 492 asks for, an __anext__ method."""

    def __init__(self, batch):
        self._todo = list(batch)

    async def __anext__(self):
        if not self._todo:
            raise StopAsyncIteration
        key, value = self._todo.pop(0)
        await aio.sleep(0)
        return key, value + 1


class Lookup:
    """The batch function's return value: an async iterable."""

    def __init__(self, batch):
        self._batch = batch

    def __aiter__(self):
        return _Rows(self._batch)


def add_1(batch):
    return Lookup(batch)


async def outcome(aw):
    try:
        return 'value', await aio.wait_for(aw, 10)
    except aio.TimeoutError:
        return 'hang', None
    except BaseException as e:  # noqa
        return 'error', e


async def main():
    # The language (and the ABC) are happy with it
    assert isinstance(add_1([]), AsyncIterable)
    plain = [kv async for kv in add_1([('1', 1), ('2', 2), ('3', 3)])]
    assert plain == [('1', 2), ('2', 3), ('3', 4)], plain

    problems = []

    batched = AsyncBackgroundBatcher(add_1, max_batch_size=3,
                                     batch_timeout=0.05)
    got = await aio.gather(*(outcome(batched(i)) for i in (1, 2, 3)))
    for i, (kind, what) in zip((1, 2, 3), got):
        if (kind, what) != ('value', i + 1):
            problems.append(f"AsyncBackgroundBatcher call {i}: {kind} {what!r}")

    deco = async_background_batcher(add_1, max_batch_size=2,
                                    batch_timeout=0.05)
    got = await aio.gather(*(outcome(deco(i)) for i in (1, 2)))
    for i, (kind, what) in zip((1, 2), got):
        if (kind, what) != ('value', i + 1):
            problems.append(f"async_background_batcher call {i}: {kind} {what!r}")

    return problems


problems = aio.run(main())
if problems:
    print("VIOLATION: 'the yielded value is returned' - the batch function "
          "yields (key, arg + 1) for every key through an async iterable "
          "that plain `async for` iterates fine, but the callers got: "
          + "; ".join(problems))
    sys.exit(1)
print("OK")
