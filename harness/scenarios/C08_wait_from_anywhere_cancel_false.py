"""
C08: for immediately available arguments and no forced flush, the function is
not called while submissions keep arriving less than `timeout` apart, and the
whole burst is delivered together in a single call.

Use: the buffer lives in a loop that runs in a background thread
(loop_in_thread); submissions and the waiter come from another event loop -
the reason ``wait_from_anywhere`` exists.  The only waiter passes
``cancel=False``, documented to "force the full timeout to be met before the
function is called": nobody asks for a flush.  Two submissions less than
`timeout` apart must arrive in one call.

Judged by the argument sets of the calls, not by wall-clock instants; if this
machine was too slow to place the second submission inside the quiet period
the scenario is skipped (exit 2).

Public API only: aiuti.asyncio.buffer_until_timeout / loop_in_thread.
"""
import asyncio as aio
import os
import sys
import time

from aiuti.asyncio import buffer_until_timeout, loop_in_thread

TIMEOUT = 1.5


def run(cancel_kw):
    """Returns (argument sets of the calls, gap between the two submissions, calls seen at the second submission)."""
    calls = []
    buf_loop = aio.new_event_loop()
    aio.set_event_loop(buf_loop)

    @buffer_until_timeout(timeout=TIMEOUT)
    async def buffer(args):
        calls.append(set(args))

    stop = loop_in_thread(buf_loop)
    info = {}
    try:
        async def scenario():
            t1 = time.monotonic()
            buffer(1)
            waiter = aio.ensure_future(buffer.wait_from_anywhere(**cancel_kw))
            await aio.sleep(0.4)
            info['early'] = list(calls)
            buffer(2)
            info['gap'] = time.monotonic() - t1
            await aio.wait_for(waiter, 30)
            await aio.sleep(0.3)

        main_loop = aio.new_event_loop()
        try:
            main_loop.run_until_complete(aio.wait_for(scenario(), 60))
        finally:
            main_loop.close()
    finally:
        stop()
        aio.set_event_loop(None)
    return calls, info.get('gap'), info.get('early')


def main():
    calls, gap, early = run({'cancel': False})
    if gap is None or gap >= TIMEOUT * 0.8:
        print('SKIPPED: the second submission came %r s after the first (quiet period %.1f s)' % (gap, TIMEOUT))
        return 2
    if calls == [{1, 2}] and not early:
        print('OK')
        return 0
    print("VIOLATION: C08 promises that with no forced flush the function is not called while submissions keep "
          "arriving less than `timeout` apart and that the burst is delivered together in a single call; here the "
          "buffer's loop runs in a thread, 1 and 2 were submitted %.2f s apart (timeout %.1f s) from another loop and "
          "the only waiter was wait_from_anywhere(cancel=False) - documented not to flush - yet the function was "
          "called with %r (calls already made when 2 was submitted: %r), expected one call with {1, 2}"
          % (gap, TIMEOUT, calls, early))
    return 1


if __name__ == '__main__':
    rc = main()
    sys.stdout.flush()
    os._exit(rc)
