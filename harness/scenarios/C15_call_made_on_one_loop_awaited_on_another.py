"""
C15: the decorated batch function can be used from any number of loops, each loop getting its own batching. The call is made (the coroutine created) while loop A runs, and handed to loop B to be awaited (run_coroutine_threadsafe / ensure_aw).
Wraps demos/C15_g_demo.py (written by an independent sub-agent from the property text alone; public API only).
"""
import os
import sys

sys.path.insert(0, os.path.dirname(os.path.abspath(__file__)))
from _run_demo import run  # noqa: E402

if __name__ == '__main__':
    rc = run('C15_g_demo.py', """C15: each loop gets its own independent batching - the loop a call belongs to is the one that runs it""")
    sys.stdout.flush()
    os._exit(rc)
