"""
C02: at most one holder per lock file across processes; a contender whose
acquire reports success is that holder until it releases.

Use: the common "module-level lock, then fork workers" pattern.  A FileLock
object is used once (acquire / release), then a worker process is forked while
the lock is NOT held; parent and worker both go on using the object they have
(the worker its inherited copy).  While the parent is inside its section the
worker's non-blocking acquire must fail, and so must that of an unrelated
process with a fresh object - also after the worker has released whatever it
believed to hold.

Plain and reentrant locks, fork via os.fork().  All ordering is forced with
pipes.  Public API only: aiuti.filelock.FileLock.
"""
import os
import subprocess
import sys
import tempfile

from aiuti.filelock import FileLock

FRESH = ("import sys; from aiuti.filelock import FileLock; l = FileLock(sys.argv[1]); "
         "got = l.acquire(blocking=False); print(int(bool(got)), flush=True); "
         "l.release() if got else None")


def fresh_process_gets_it(path):
    out = subprocess.run([sys.executable, '-c', FRESH, path], capture_output=True, text=True, timeout=60,
                         env=dict(os.environ))
    return out.stdout.strip() == '1'


def run(reentrant, rounds):
    path = os.path.join(tempfile.mkdtemp(), 'c02b.lock')
    lock = FileLock(path, reentrant=reentrant)
    for _ in range(rounds):                 # the object's history before the fork
        assert lock.acquire(timeout=5)
        lock.release()
    p2c_r, p2c_w = os.pipe()
    c2p_r, c2p_w = os.pipe()
    pid = os.fork()
    if pid == 0:
        # ---- worker: uses the lock object it inherited
        try:
            os.close(p2c_w)
            os.close(c2p_r)
            os.read(p2c_r, 1)               # parent is inside its section now
            got = lock.acquire(blocking=False)
            os.write(c2p_w, b'1' if got else b'0')
            os.read(p2c_r, 1)
            if got:
                lock.release()
            os.write(c2p_w, b'r')
            os.read(p2c_r, 1)               # parent has released
            got2 = lock.acquire(timeout=5)
            os.write(c2p_w, b'1' if got2 else b'0')
            if got2:
                lock.release()
        finally:
            os._exit(0)
    os.close(p2c_r)
    os.close(c2p_w)
    problems = []
    assert lock.acquire(timeout=5)          # parent is the holder
    try:
        os.write(p2c_w, b'x')
        worker_got = os.read(c2p_r, 1) == b'1'
        if worker_got:
            problems.append('the worker\'s acquire(blocking=False) on its inherited object returned True while the '
                            'parent was inside its section')
        os.write(p2c_w, b'x')
        os.read(c2p_r, 1)                   # the worker has released again (if it held anything)
        if fresh_process_gets_it(path):
            problems.append('an unrelated process with a fresh FileLock got the lock while the parent was still inside '
                            'its section' + (' (after the worker released)' if worker_got else ''))
    finally:
        lock.release()
    os.write(p2c_w, b'x')
    if os.read(c2p_r, 1) != b'1':
        problems.append('after the parent released, the worker could not acquire within 5 s')
    os.waitpid(pid, 0)
    return problems


def main():
    bad = []
    for reentrant in (False, True):
        for rounds in (1, 2):
            for p in run(reentrant, rounds):
                bad.append('[reentrant=%s, %d use(s) before the fork] %s' % (reentrant, rounds, p))
    if bad:
        print('VIOLATION: C02 promises at most one holder per lock file across processes and that a contender whose '
              'acquire reports success is that holder; a FileLock object was used, then a worker was forked while the '
              'lock was not held, and both went on using the object: ' + '; '.join(bad))
        return 1
    print('OK')
    return 0


if __name__ == '__main__':
    rc = main()
    sys.stdout.flush()
    os._exit(rc)
