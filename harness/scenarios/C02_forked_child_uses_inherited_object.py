"""
C02 demo: a reentrant FileLock that is held while a child process is forked
(multiprocessing 'fork' start method, the Linux default on Python 3.12)
reports a successful acquire in the child although the parent still holds
the lock; later, children forked that way enter the section together.
"""
import multiprocessing as mp
import os
import sys
import tempfile

from aiuti.filelock import FileLock

ctx = mp.get_context('fork')
path = os.path.join(tempfile.mkdtemp(), 'c02.lock')
lock = FileLock(path, reentrant=True)


def child_try(conn):
    # An honest contender: timed acquire, so a correct lock just reports False
    got = lock.acquire(timeout=1.0)
    conn.send(got)
    if got:
        lock.release()
    conn.close()


def child_section(barrier, conn):
    # Two of these run after the parent has released.  Both rendezvous INSIDE
    # the protected section: only possible if the sections overlap.
    with lock:
        try:
            barrier.wait(timeout=3.0)
            overlapped = True
        except Exception:
            overlapped = False
    conn.send(overlapped)
    conn.close()


def main():
    problems = []

    # ---- phase 1: child succeeds while the parent is the holder ----------
    barrier = ctx.Barrier(2)
    with lock:                                  # parent is the holder
        r1, w1 = ctx.Pipe(False)
        p1 = ctx.Process(target=child_try, args=(w1,))
        p1.start()
        # children for phase 2 are also created while the lock is held
        pipes, procs = [], []
        for _ in range(2):
            r, w = ctx.Pipe(False)
            p = ctx.Process(target=child_section, args=(barrier, w))
            pipes.append(r)
            procs.append(p)
        child_got = r1.recv()
        p1.join()
        # the parent really holds the OS lock: an independent object fails
        other = FileLock(path)
        parent_holds = lock.is_locked and not other.acquire(blocking=False)
        if child_got and parent_holds:
            problems.append(
                'child process acquire(timeout=1.0) returned True while the '
                'parent process was still inside its with-block on the same '
                'lock file (independent FileLock object confirms the parent '
                'holds the OS lock)')
        for p in procs:
            p.start()                           # forked while lock is held
        # (children copy the "held" state at this point)
    # parent has released now

    # ---- phase 2: the two children are inside together -------------------
    res = [r.recv() if r.poll(10) else None for r in pipes]
    for p in procs:
        p.join(5)
        if p.is_alive():
            p.terminate()
    if res == [True, True]:
        problems.append(
            'two child processes met at a barrier placed INSIDE their '
            '`with lock:` sections, i.e. both were holders at the same time')

    if problems:
        print('VIOLATION: ' + '; ALSO '.join(problems) +
              '. C02 promises at most one holder per lock file across '
              'processes, and that a successful acquire makes the caller '
              'the holder.')
        return 1
    print('no violation observed (child_got=%r, phase2=%r)' % (child_got, res))
    return 0


if __name__ == '__main__':
    sys.exit(main())
