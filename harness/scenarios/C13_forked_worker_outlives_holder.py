"""
C13 demo: a SIGKILLed FileLock holder leaves the lock stuck when it had
started a (fork-based) multiprocessing worker while holding the lock.

The worker never touches the lock or the lock file.  It merely inherited
the holder's lock descriptor over fork(), and flock() locks belong to the
open file description, so the kernel does NOT release the lock when the
holder dies.
"""
import os
import signal
import subprocess
import sys
import tempfile
import time

from aiuti.filelock import FileLock

HOLDER = r"""
import sys, time, multiprocessing
from aiuti.filelock import FileLock

path, with_worker = sys.argv[1], sys.argv[2] == '1'
lock = FileLock(path)
assert lock.acquire()                 # holder now owns the file lock
pid = 0
if with_worker:
    # ordinary use: do some work in a helper process while holding the lock
    w = multiprocessing.Process(target=time.sleep, args=(60,))
    w.start()
    pid = w.pid
print(multiprocessing.get_start_method(), pid, flush=True)
time.sleep(60)                        # "holding" - gets SIGKILLed here
"""


def run(path: str, with_worker: bool):
    """Start a holder, SIGKILL it while it holds the lock, then contend."""
    h = subprocess.Popen(
        [sys.executable, '-c', HOLDER, path, '1' if with_worker else '0'],
        stdout=subprocess.PIPE, text=True, env=dict(os.environ),
    )
    method, wpid = h.stdout.readline().split()
    wpid = int(wpid)

    contender = FileLock(path)
    # sanity: while the holder lives the lock must be busy
    assert contender.acquire(timeout=0.2) is False

    os.kill(h.pid, signal.SIGKILL)
    h.wait()                          # holder is dead and reaped
    h.stdout.close()

    t0 = time.time()
    got = contender.acquire(timeout=3)
    waited = time.time() - t0
    if got:
        contender.release()
    return method, wpid, got, waited


def main() -> int:
    d = tempfile.mkdtemp(prefix='c13-')

    # control: plain holder killed while holding -> lock is free at once
    _, _, got, waited = run(os.path.join(d, 'ctl.lock'), with_worker=False)
    print(f'control (no worker): acquired={got} after {waited:.2f}s')
    assert got

    path = os.path.join(d, 'x.lock')
    method, wpid, got, waited = run(path, with_worker=True)
    print(f'holder with worker (start method {method!r}): '
          f'acquired={got} after {waited:.2f}s')

    # show who keeps it: once the innocent worker is gone the lock is free
    os.kill(wpid, signal.SIGKILL)
    time.sleep(0.3)
    c = FileLock(path)
    after = c.acquire(timeout=3)
    if after:
        c.release()
    print(f'after also killing the worker pid {wpid}: acquired={after}')

    if not got:
        print('VIOLATION: the holder process was SIGKILLed while holding the '
              'FileLock, yet another process could not acquire the same lock '
              f'file for {waited:.1f}s afterwards (it only became free once '
              'an unrelated worker the holder had forked was killed too); '
              'C13 promises the lock is not left behind and can be acquired '
              'promptly without any clean-up.')
        return 1
    print('no violation observed')
    return 0


if __name__ == '__main__':
    sys.exit(main())
