"""
C07 - buffer_until_timeout(...).wait() is not a barrier on a loop that uses
asyncio.eager_task_factory (a documented, supported Python 3.12 loop setting).

Scenario (all on the loop's own thread, never-failing function):

    t=0.00  buffer('A')
    t=0.05  quiet timeout -> func({'A'}) starts, takes 0.3 s
    t=0.15  buffer('B')            # submitted BEFORE wait() is called
    t=0.15  await buffer.wait()    # called while the function is running
    t=0.35  func({'A'}) finishes   -> wait() returns, 'B' never given to func

The same program on a default loop (no eager factory) is run as a control.
"""
import asyncio as aio
import logging
import sys

from aiuti.asyncio import buffer_until_timeout

logging.disable(logging.CRITICAL)


async def scenario(eager: bool):
    loop = aio.get_running_loop()
    if eager:
        loop.set_task_factory(aio.eager_task_factory)

    successful = []  # argument sets of calls of func that completed

    async def func(args):
        snapshot = set(args)
        await aio.sleep(0.3)
        successful.append(snapshot)

    buf = buffer_until_timeout(func, timeout=0.05)

    buf('A')
    await aio.sleep(0.15)          # func({'A'}) is running now
    buf('B')                       # submitted before wait() is called
    await aio.wait_for(buf.wait(), 10)
    at_return = [set(s) for s in successful]

    # let the buffer drain so that the loop is left with an idle buffer
    await aio.sleep(0.6)
    loop.set_task_factory(None)
    return at_return, [set(s) for s in successful]


def run(eager: bool):
    loop = aio.new_event_loop()
    aio.set_event_loop(loop)
    try:
        return loop.run_until_complete(scenario(eager))
    finally:
        aio.set_event_loop(None)
        loop.close()


def main() -> int:
    ctl_at_return, _ = run(eager=False)
    ctl_ok = any('B' in s for s in ctl_at_return)
    print(f"control (default task factory): successful calls when wait() "
          f"returned = {ctl_at_return} -> barrier "
          f"{'held' if ctl_ok else 'BROKEN'}")

    at_return, later = run(eager=True)
    ok = any('B' in s for s in at_return)
    print(f"eager_task_factory: successful calls when wait() returned = "
          f"{at_return}; 0.6 s later = {later}")
    if not ok:
        print("VIOLATION: wait() returned although 'B', submitted on the "
              "loop's thread before wait() was called, had not been passed "
              f"to any completed call of the wrapped function (completed "
              f"calls at return: {at_return}; 'B' was only processed later: "
              f"{later}). C07 promises that when wait() returns every "
              "argument submitted before that wait() has been passed to a "
              "call that completed successfully.")
        return 1
    print("no violation observed")
    return 0


if __name__ == '__main__':
    sys.exit(main())
