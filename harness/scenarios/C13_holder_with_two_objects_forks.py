"""
C02 / C13: a holder that forks a child keeps the lock.

  1. process P acquires a FileLock (one of TWO objects it has for the path: an idle one created first, and the one it
     acquires - a process may well have several objects for one lock file);
  2. P forks a child that never touches the lock and exits at once (os.fork + waitpid), and a second child that
     stays alive for a while;
  3. P is still inside its section: a second FileLock object in P and a fresh process must both be refused
     (a forked child shares the open file description of the lock file: whatever it does to "its" copy - unlock
     it, close it - must not take the lock away from P);
  4. P is then killed: the lock must be free at once although the long-lived child is still alive (it must not
     have kept the locked description open, whichever of P's objects held it).

Only public API; real processes; no timing assumptions beyond generous time-outs.
"""
import os
import signal
import subprocess
import sys
import tempfile
import time

from aiuti.filelock import FileLock

PROBE = ("import sys; from aiuti.filelock import FileLock; l = FileLock(sys.argv[1]); "
         "ok = l.acquire(timeout=float(sys.argv[2])); print('GOT' if ok else 'REFUSED'); "
         "l.release() if ok else None")

HOLDER = r'''
import os, sys, time
from aiuti.filelock import FileLock
path = sys.argv[1]
idle = FileLock(path)                  # never acquired
lock = FileLock(path)
assert lock.acquire()
pid = os.fork()
if pid == 0:
    os._exit(0)                        # a child that does nothing with the lock
os.waitpid(pid, 0)
pid2 = os.fork()
if pid2 == 0:
    time.sleep(60)                     # a long-lived worker
    os._exit(0)
second = FileLock(path)
inside = second.acquire(blocking=False)
print('HOLDING', pid2, 'SECOND-OBJECT-GOT' if inside else 'SECOND-OBJECT-REFUSED', flush=True)
time.sleep(60)
'''


def probe(path, timeout):
    p = subprocess.run([sys.executable, '-c', PROBE, path, str(timeout)], stdout=subprocess.PIPE, text=True,
                       env=dict(os.environ), timeout=60)
    return p.stdout.strip()


def main():
    d = tempfile.mkdtemp()
    path = os.path.join(d, 'x.lock')
    h = subprocess.Popen([sys.executable, '-c', HOLDER, path], stdout=subprocess.PIPE, text=True, env=dict(os.environ))
    worker = None
    try:
        line = h.stdout.readline().split()
        if len(line) != 3 or line[0] != 'HOLDING':
            print('scenario did not run as intended:', line)
            return 2
        worker = int(line[1])
        problems = []
        if line[2] != 'SECOND-OBJECT-REFUSED':
            problems.append('after the holder forked a child, a second FileLock object in the holder process acquired '
                            'the lock while the holder was still inside its section')
        if probe(path, 0.3) != 'REFUSED':
            problems.append('after the holder forked a child, another process acquired the lock while the holder was '
                            'still inside its section (the child released the shared OS lock)')
        h.send_signal(signal.SIGKILL)
        h.wait()
        t0 = time.time()
        got = probe(path, 5.0)
        waited = time.time() - t0
        if got != 'GOT':
            problems.append(f'the holder (which has two FileLock objects for the path and held the second one) was '
                            f'killed, yet a fresh process could not acquire the lock within 5 s ({waited:.1f} s): the '
                            f'worker it had forked keeps the locked descriptor open')
        if problems:
            print('VIOLATION: ' + ' | '.join(problems))
            return 1
        print('OK: the holder kept the lock across its forks, and its death freed it')
        return 0
    finally:
        if h.poll() is None:
            h.kill()
            h.wait()
        if worker:
            try:
                os.kill(worker, signal.SIGKILL)
            except ProcessLookupError:
                pass


if __name__ == '__main__':
    sys.exit(main())
