"""
C13: a SIGKILLed holder does not leave the lock behind. The holder got the lock through a timed acquire that had to poll; another of its threads forked a long-lived child between two polls.
Wraps demos/C13_g_demo.py (written by an independent sub-agent from the property text alone; public API only).
"""
import os
import sys

sys.path.insert(0, os.path.dirname(os.path.abspath(__file__)))
from _run_demo import run  # noqa: E402

if __name__ == '__main__':
    rc = run('C13_g_demo.py', """C13: after the holder is killed another process can acquire the lock promptly""")
    sys.stdout.flush()
    os._exit(rc)
