"""
C03: every submitted argument reaches the function. A second task of the loop submits an argument k loop iterations (k = 0..7) after another task called wait(): whichever iteration it lands in, it is delivered.
Wraps demos/C03_g_demo.py (written by an independent sub-agent from the property text alone; public API only).
"""
import os
import sys

sys.path.insert(0, os.path.dirname(os.path.abspath(__file__)))
from _run_demo import run  # noqa: E402

if __name__ == '__main__':
    rc = run('C03_g_demo.py', """C03: every argument handed to the buffer is eventually passed to the wrapped function""")
    sys.stdout.flush()
    os._exit(rc)
