"""
C15: @async_background_batcher(retention_timeout=x) must take effect with
the value given: a result is kept (served again without a new computation)
for x seconds after its batch completed, and not (arbitrarily) longer.

Scenario (public API only, one event loop used twice in succession with
run_until_complete, synchronous work in between):

  run 1  "startup": a batched request f(1) is started in the background.
         The batch function waits for a `ready` event (think: connection is
         up) and then answers without awaiting anything else.  The last
         thing startup() does is ready.set(); then it returns.
         => the batch completes in the very last iteration of run 1.
  pause  2.0 s of synchronous work (loop not running).  retention_timeout
         is 0.5 s, so the result is 4x too old afterwards.
  run 2  await f(1) again.  Promised: retention (0.5 s) is long over, the
         batch function is called again.  (This is exactly what happens in
         the control run, where startup() lives one loop iteration longer.)

What happens instead: the done-callback AsyncBackgroundBatcher._forget, which
stamps `_retention_expiry[key] = loop.time() + retention_timeout`, was only
*scheduled* (call_soon) when the result was set and the loop stopped before
running it.  It runs first thing in run 2 and stamps the expiry relative to
*that* moment, so the 2 s old result is served as if it were fresh.
"""
import asyncio as aio
import sys
import time

from aiuti.asyncio import async_background_batcher

RETENTION = 0.5
PAUSE = 2.0


def scenario(form: str, extra_iterations: int):
    loop = aio.new_event_loop()
    calls = []        # loop.time() of every invocation of the batch function
    finished = []     # loop.time() when a batch had yielded all its results
    ready = None

    async def batch_func(batch):
        await ready.wait()
        calls.append(loop.time())
        for key, arg in batch:
            yield key, (arg, len(calls))
        finished.append(loop.time())

    if form == 'options':
        f = async_background_batcher(
            retention_timeout=RETENTION, batch_timeout=0.01)(batch_func)
    else:
        f = async_background_batcher(
            batch_func, retention_timeout=RETENTION, batch_timeout=0.01)

    async def startup():
        nonlocal ready
        ready = aio.Event()
        task = aio.ensure_future(f(1))    # warm-up request in the background
        await aio.sleep(0.1)              # batch formed, waiting for `ready`
        ready.set()                       # last act of startup
        for _ in range(extra_iterations):  # control: live a little longer
            await aio.sleep(0)
        return task

    try:
        task = loop.run_until_complete(startup())
        done_in_run1 = len(finished) == 1    # batch completed during run 1
        t_done = finished[0] if finished else None
        time.sleep(PAUSE)                    # synchronous work, loop idle
        t_call = loop.time()
        result = loop.run_until_complete(f(1))
        first = loop.run_until_complete(task)
    finally:
        loop.close()
    return dict(done_in_run1=done_in_run1, age=t_call - (t_done or t_call),
                result=result, first=first, n_calls=len(calls))


def main() -> int:
    bad = []
    for form in ('options', 'direct'):
        control = scenario(form, extra_iterations=1)
        probe = scenario(form, extra_iterations=0)
        print(form, 'control:', control)
        print(form, 'probe:  ', probe)
        # sanity of the set-up: in both runs the batch was complete before
        # the pause, and the control recomputes as promised
        if not (control['done_in_run1'] and probe['done_in_run1']):
            print('OK (set-up did not complete the batch in run 1)')
            return 0
        if probe['n_calls'] != 2 and probe['age'] > 2 * RETENTION:
            bad.append((form, probe))
    if bad:
        form, probe = bad[0]
        print(
            "VIOLATION: async_background_batcher(retention_timeout=%.1f) "
            "[%s form%s] promises a result is kept %.1f s after its batch "
            "completed; a call made %.2f s after the batch had completed (on "
            "the same loop, second run_until_complete) was still answered "
            "with the old result %r and the batch function was called %d "
            "time(s) instead of 2 - the expiry is stamped by a done-callback "
            "which had not run yet when the loop stopped, so retention was "
            "counted from the second run instead of from completion. The "
            "control (startup lives one loop iteration longer) recomputes."
            % (RETENTION, form, ', also the other form' if len(bad) > 1
               else '', RETENTION, probe['age'], probe['result'],
               probe['n_calls'])
        )
        return 1
    print('OK')
    return 0


if __name__ == '__main__':
    sys.exit(main())
