"""
C07 violation demo: wait() returns although an argument submitted before it
was never passed to a call of the wrapped function that completed
successfully.

Scenario (deterministic, single loop, single waiter):
  * the wrapped function drains the set it is given with the usual worklist
    idiom ``while args: item = args.pop(); await send(item)``;
  * the first ``send`` fails transiently, so the first invocation raises
    after having popped one element;
  * BufferAsyncCalls retries with *the very same set object* it handed to
    the failed invocation (aiuti/asyncio.py: ``inputs`` in _process_queue is
    passed by reference to ``self.func`` in _run_func), so the popped
    element is gone; the retry succeeds, the completion flag is set and
    wait() returns.
"""
import asyncio as aio
import logging
import sys

from aiuti.asyncio import buffer_until_timeout

logging.disable(logging.CRITICAL)  # hide the library's "retrying" traceback

SUBMITTED = [10, 20, 30]

calls = []          # [(args as received on entry, succeeded?)]
sent = []           # items actually processed
state = {'fail_next_send': True}


async def send(item: int) -> None:
    await aio.sleep(0)
    if state['fail_next_send']:
        state['fail_next_send'] = False
        raise ConnectionError(f"transient failure while sending {item}")
    sent.append(item)


async def main() -> int:
    @buffer_until_timeout(timeout=0.05)
    async def flush(args):
        record = [set(args), False]
        calls.append(record)
        while args:                 # plain worklist idiom on the given set
            item = args.pop()
            await send(item)
        record[1] = True

    for x in SUBMITTED:
        flush(x)
    await aio.wait_for(flush.wait(), 30)   # the barrier under test

    passed_to_successful_call = set()
    for received, succeeded in calls:
        if succeeded:
            passed_to_successful_call |= received
    missing = [x for x in SUBMITTED if x not in passed_to_successful_call]

    print("invocations (args on entry, succeeded):", calls)
    print("items processed:", sorted(sent))
    if missing:
        print(
            "VIOLATION: wait() returned, but argument(s) %r submitted before "
            "wait() were only ever passed to an invocation that FAILED; the "
            "retry that completed successfully received %r. The property "
            "promises every argument submitted before wait() has been passed "
            "to a call of the wrapped function that completed successfully "
            "(and _run_func's docstring promises buffered inputs are not "
            "lost when the function raises)."
            % (missing, sorted(passed_to_successful_call))
        )
        return 1
    print("OK: every submitted argument reached a successful invocation")
    return 0


if __name__ == '__main__':
    loop = aio.new_event_loop()
    aio.set_event_loop(loop)
    sys.exit(loop.run_until_complete(main()))
