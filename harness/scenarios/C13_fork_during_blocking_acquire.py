"""
C13 demo: a SIGKILLed holder leaves the FileLock stuck when the holder
fork()ed a (long-lived, lock-agnostic) worker WHILE one of its threads was
blocked inside FileLock.acquire().

The at-fork hook only looks at lock._lock_file_fd, but during a blocking
acquire the descriptor lives in a local variable of _acquire() (it is stored
into _lock_file_fd only after flock() returned).  The child therefore keeps a
copy of that descriptor, i.e. of the very open file description on which the
parent later obtains the flock.  When the parent is killed the kernel does not
drop the lock, because the description is still open in the child.
"""
import os
import signal
import subprocess
import sys
import tempfile
import time

from aiuti.filelock import FileLock

HOLDER = r'''
import os, sys, threading, time
from aiuti.filelock import FileLock

path, do_fork = sys.argv[1], sys.argv[2] == "fork"
lock = FileLock(path)                      # plain blocking lock

def waiter():
    lock.acquire()                         # blocks: the orchestrator holds it
    print("ACQUIRED", flush=True)
    time.sleep(600)                        # "holding" until we get SIGKILLed

threading.Thread(target=waiter, daemon=True).start()

# wait until the waiter thread has the lock file open (it is then inside, or
# about to enter, the blocking flock call)
real = os.path.realpath(path)
while True:
    fds = []
    for n in os.listdir("/proc/self/fd"):
        try:
            if os.path.realpath(os.readlink("/proc/self/fd/" + n)) == real:
                fds.append(n)
        except OSError:
            pass
    if fds:
        break
    time.sleep(0.01)
time.sleep(0.3)
assert not lock.is_locked

if do_fork:
    pid = os.fork()                        # e.g. what multiprocessing does
    if pid == 0:
        # a worker that never touches the lock
        time.sleep(600)
        os._exit(0)
    print("WORKER", pid, flush=True)
else:
    print("WORKER", 0, flush=True)
time.sleep(600)
'''


def scenario(do_fork: bool) -> bool:
    """Return True if the lock could be taken within 3s of the holder's death."""
    d = tempfile.mkdtemp()
    path = os.path.join(d, 'x.lock')
    mine = FileLock(path)
    assert mine.acquire(timeout=1)

    p = subprocess.Popen(
        [sys.executable, '-c', HOLDER, path, 'fork' if do_fork else 'nofork'],
        stdout=subprocess.PIPE, text=True,
    )
    worker = 0
    try:
        line = p.stdout.readline().split()
        assert line[0] == 'WORKER', line
        worker = int(line[1])

        mine.release()                     # now the holder's thread gets it
        line = p.stdout.readline().split()
        assert line == ['ACQUIRED'], line
        assert not mine.acquire(blocking=False), "holder should hold the lock"

        p.send_signal(signal.SIGKILL)      # the holder dies while holding
        p.wait()

        t0 = time.time()
        ok = mine.acquire(timeout=3)
        print('  fork=%-5s holder killed; survivor acquire(timeout=3) -> %s '
              'after %.2fs' % (do_fork, ok, time.time() - t0))
        if ok:
            mine.release()
        elif worker:
            os.kill(worker, signal.SIGKILL)
            worker = 0
            time.sleep(0.3)
            ok2 = mine.acquire(timeout=3)
            print('  ... after also killing the lock-agnostic worker: '
                  'acquire -> %s' % ok2)
            if ok2:
                mine.release()
        return ok
    finally:
        if p.poll() is None:
            p.kill()
        if worker:
            try:
                os.kill(worker, signal.SIGKILL)
            except OSError:
                pass


def main() -> int:
    print('control (no fork):')
    control = scenario(False)
    print('fork while a thread is blocked in acquire():')
    forked = scenario(True)
    if control and not forked:
        print('VIOLATION: the holder process was SIGKILLed while holding the '
              'FileLock, yet another process could not acquire the same lock '
              'file within 3s (C13 promises it is never left stuck); the lock '
              'stayed held through a descriptor leaked into a worker forked '
              'while a thread was blocked in acquire(), which the at-fork '
              'hook does not see because it is not yet in _lock_file_fd.')
        return 1
    print('no violation observed (control=%s, forked=%s)' % (control, forked))
    return 0


if __name__ == '__main__':
    sys.exit(main())
