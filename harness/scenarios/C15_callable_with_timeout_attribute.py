"""
C15: "every documented option takes effect with the value given".

buffer_until_timeout(timeout=0.5) wrapping a callable object which happens to
have an attribute of its own called ``timeout`` (here: the HTTP timeout of a
sender object) does not buffer for 0.5 s: the object's attribute silently
replaces the option, in the decorator-with-options form and in the direct form
alike.  Observed in virtual time (a selector loop whose clock jumps instead of
sleeping), so the run is deterministic and instantaneous.
"""
import asyncio as aio
import logging
import sys

from aiuti.asyncio import buffer_until_timeout

logging.disable(logging.CRITICAL)

GIVEN_TIMEOUT = 0.5


class VLoop(aio.SelectorEventLoop):
    """Event loop running in virtual time."""

    def __init__(self):
        super().__init__()
        self._vt = 0.0
        real_select = self._selector.select

        def select(timeout=None):
            if timeout is None:
                raise RuntimeError("deadlock at virtual time %r" % self._vt)
            if timeout > 0:
                self._vt += timeout
            return real_select(0)

        self._selector.select = select

    def time(self):
        return self._vt


class Sender:
    """Async callable taking the buffered set, as buffer_until_timeout wants.
    ``timeout`` is the sender's own setting (e.g. for its HTTP requests)."""

    def __init__(self, trace, loop, timeout=None):
        self.trace = trace
        self._loop = loop
        if timeout is not None:
            self.timeout = timeout

    async def __call__(self, args):
        self.trace.append((round(self._loop.time(), 4), sorted(args)))


def run(form, own_timeout):
    loop = VLoop()
    aio.set_event_loop(loop)
    trace = []
    sender = Sender(trace, loop, timeout=own_timeout)
    if form == 'decorator-with-options':
        buffered = buffer_until_timeout(timeout=GIVEN_TIMEOUT)(sender)
    else:
        buffered = buffer_until_timeout(sender, timeout=GIVEN_TIMEOUT)

    async def main():
        buffered(1)
        buffered(2)            # last call at t=0 -> function due at t=0.5
        await aio.sleep(5)     # plenty of (virtual) time
        n_after_5s = len(trace)
        await buffered.wait(cancel=False)   # let the full timeout elapse
        return n_after_5s

    try:
        n_after_5s = loop.run_until_complete(main())
    finally:
        for t in aio.all_tasks(loop):
            t.cancel()
        loop.run_until_complete(aio.sleep(0))
        loop.close()
    return buffered.timeout, n_after_5s, trace


def main():
    bad = []
    for form in ('decorator-with-options', 'direct'):
        # control: same object without an attribute named 'timeout'
        eff, n5, trace = run(form, own_timeout=None)
        print(f"{form:24s} plain callable object      : effective timeout "
              f"{eff!r}, calls {trace}")
        assert eff == GIVEN_TIMEOUT and trace == [(GIVEN_TIMEOUT, [1, 2])], \
            "control run is expected to respect the option"
        eff, n5, trace = run(form, own_timeout=30)
        print(f"{form:24s} object with .timeout = 30  : effective timeout "
              f"{eff!r}, calls within 5 s: {n5}, calls {trace}")
        if eff != GIVEN_TIMEOUT or trace != [(GIVEN_TIMEOUT, [1, 2])]:
            bad.append((form, eff, n5, trace))
    if bad:
        form, eff, n5, trace = bad[0]
        print(f"VIOLATION: buffer_until_timeout(timeout={GIVEN_TIMEOUT}) "
              f"[{', '.join(b[0] for b in bad)} form(s)] around a callable "
              f"object that has its own attribute timeout=30: the property "
              f"promises the function runs {GIVEN_TIMEOUT} s after the last "
              f"call (t={GIVEN_TIMEOUT}), but the buffer's timeout is {eff!r},"
              f" nothing ran within 5 s ({n5} calls) and the function was "
              f"only invoked at t={trace[0][0] if trace else 'never'}: the "
              f"option given did not take effect.")
        return 1
    print("OK: the timeout option took effect in both forms")
    return 0


if __name__ == '__main__':
    sys.exit(main())
