"""
C14: calls with equal arguments share one entry. A caller-supplied mapping whose first __setitem__ takes a while; an equal call arrives from another thread's loop at that moment.
Wraps demos/C14_g_demo.py (written by an independent sub-agent from the property text alone; public API only).
"""
import os
import sys

sys.path.insert(0, os.path.dirname(os.path.abspath(__file__)))
from _run_demo import run  # noqa: E402

if __name__ == '__main__':
    rc = run('C14_g_demo.py', """C14: two calls with equal arguments share an entry and return the value computed once for that key""")
    sys.stdout.flush()
    os._exit(rc)
