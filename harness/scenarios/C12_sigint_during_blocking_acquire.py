"""
C12 violation demo: a blocking FileLock.acquire() that fails because the
wait is interrupted by a non-OSError error (Ctrl-C / KeyboardInterrupt
delivered while the thread sits in the OS-lock stage) leaks the file
descriptor it opened for the attempt.

Property clause: "failed attempts (including OS errors while opening or
locking) leak no file descriptor and keep no internal lock".
"""
import os
import signal
import sys
import tempfile
import threading
import time

from aiuti.filelock import FileLock

ROUNDS = 3


def open_fds():
    return set(os.listdir('/proc/self/fd'))


def fds_on(path):
    """Descriptors of this process that refer to *path*."""
    out = []
    for name in os.listdir('/proc/self/fd'):
        try:
            if os.readlink('/proc/self/fd/' + name) == path:
                out.append(int(name))
        except OSError:
            pass  # the descriptor used by listdir itself
    return sorted(out)


def main():
    path = os.path.realpath(
        os.path.join(tempfile.mkdtemp(prefix='c12-'), 'x.lock'))

    holder = FileLock(path)           # object 1 holds the lock throughout
    assert holder.acquire() is True
    if len(fds_on(path)) != 1:
        print('scenario did not run as intended (holder descriptors: %r)' % fds_on(path))
        return 2

    waiter = FileLock(path)           # object 2: its blocking acquire fails
    main_ident = threading.main_thread().ident

    baseline = len(fds_on(path))      # == 1 (the holder's descriptor)
    interrupted = 0

    for _ in range(ROUNDS):
        def ctrl_c():
            time.sleep(0.5)           # main is by now blocked in flock()
            signal.pthread_kill(main_ident, signal.SIGINT)

        t = threading.Thread(target=ctrl_c)
        t.start()
        try:
            got = waiter.acquire()    # blocking, timeout -1
        except KeyboardInterrupt:
            interrupted += 1
            got = None
        t.join()
        if got:
            print('unexpected: waiter acquired a lock that is held')
            return 2

    if interrupted != ROUNDS:
        print('scenario did not run as intended (interrupted=%d)'
              % interrupted)
        return 2

    # The attempt failed: the waiter must be exactly as before.
    leaked = len(fds_on(path)) - baseline

    print('waiter.is_locked           =', waiter.is_locked)
    print('descriptors on lock file   =', fds_on(path), '(the holder owns one)')

    holder.release()

    if leaked > 0:
        print('VIOLATION: %d failed blocking acquire() attempts (each '
              'interrupted by KeyboardInterrupt while waiting for the OS '
              'lock) left %d open file descriptors on the lock file; the '
              'property promises that failed attempts leak no file '
              'descriptor (observed is_locked=%s, so nothing will ever '
              'close them).' % (ROUNDS, leaked, waiter.is_locked))
        return 1

    print('OK: no descriptor leaked')
    return 0


if __name__ == '__main__':
    sys.exit(main())
