"""Helper for scenarios that wrap a stand-alone demonstration program (written by a sub-agent that only knew the
property text): the demo prints PASS / exits 0 when the property holds on its history and prints FAIL ... / exits 1
when it does not.  Translated here into the scenario protocol: `VIOLATION: ...` + exit 1, `OK` + exit 0, anything else
is passed through as a failure to run (a broken tie, not a verdict)."""
import os
import subprocess
import sys


def run(demo, claim):
    path = os.path.join(os.path.dirname(os.path.abspath(__file__)), 'demos', demo)
    try:
        p = subprocess.run([sys.executable, path], stdin=subprocess.DEVNULL, stdout=subprocess.PIPE,
                           stderr=subprocess.PIPE, text=True, timeout=240, cwd=os.environ.get('TMPDIR') or '/tmp')
    except subprocess.TimeoutExpired:
        print('VIOLATION: %s - the history did not finish within 240 s (a call or a process is stuck)' % claim)
        return 1
    out = p.stdout.strip()
    if p.returncode == 0:
        print('OK')
        return 0
    if p.returncode == 2 and 'SKIP' in out:          # the demo could not set its history up (its hook no longer bites)
        print(out[-300:])
        return 2
    fails = [l for l in out.splitlines() if 'FAIL' in l]
    if p.returncode == 1 and fails:
        rest = ' | '.join(l.strip() for l in out.splitlines() if l.strip() and 'FAIL' not in l)[:500]
        print('VIOLATION: %s - %s %s' % (claim, fails[0].strip()[:500], rest))
        return 1
    sys.stderr.write((p.stderr or out)[-1500:])
    return p.returncode if p.returncode not in (0, 1, 2) else 3
