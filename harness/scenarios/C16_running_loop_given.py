"""
C16: to_sync_iter(source, loop=L) where L is a loop that is already running
in a background thread (started with the library's own loop_in_thread, the
situation ensure_aw explicitly supports) yields nothing and never stops: the
consumer is blocked forever instead of receiving the elements (or an error).
"""
import os
import sys
import threading
import asyncio as aio

from aiuti.asyncio import to_sync_iter, loop_in_thread

WAIT = 5.0  # The source needs no time at all: 5s means "forever"


async def source():
    for i in range(3):
        yield i


def consume(loop, out):
    try:
        for x in to_sync_iter(source(), loop=loop):
            out.append(('item', x))
        out.append(('stop', None))
    except BaseException as e:  # noqa
        out.append(('error', repr(e)))


def run(loop):
    out = []
    t = threading.Thread(target=consume, args=(loop, out), daemon=True)
    t.start()
    t.join(WAIT)
    return out, t.is_alive()


def main():
    # Control 1: no loop given
    out, hung = run(None)
    print("loop=None                 ->", out, "hung" if hung else "finished")
    assert not hung and out == [('item', 0), ('item', 1), ('item', 2),
                                ('stop', None)]

    # Control 2: caller-supplied loop which is not running
    idle = aio.new_event_loop()
    out, hung = run(idle)
    print("loop=<idle loop>          ->", out, "hung" if hung else "finished")
    assert not hung and out[-1] == ('stop', None) and len(out) == 4

    # Scenario: caller-supplied loop which is running in another thread
    loop = aio.new_event_loop()
    stop = loop_in_thread(loop)
    assert loop.is_running()
    out, hung = run(loop)
    print("loop=<loop_in_thread loop>->", out, "hung" if hung else "finished")

    expected = [('item', 0), ('item', 1), ('item', 2), ('stop', None)]
    if hung or out != expected:
        print(
            "VIOLATION: to_sync_iter(source(), loop=<loop running in a "
            "loop_in_thread thread>) delivered %r and %s after %.0fs; the "
            "property promises exactly the elements [0, 1, 2] in order and "
            "then stop (or the error). The helper thread died with "
            "RuntimeError('This event loop is already running') before the "
            "producer coroutine started, so the _DONE sentinel is never "
            "queued and the consumer blocks in q.get() forever."
            % (out, "was still blocked" if hung else "ended", WAIT)
        )
        sys.stdout.flush()
        os._exit(1)  # The blocked consumer would also block interpreter exit

    stop()
    print("OK")


if __name__ == '__main__':
    main()
