"""
C16 - the bridges must hand the consumer the elements produced before a
failure and then *that same exception* the source raised.

The exception of the source travels from the producer to the consumer
through a future which is chained between concurrent.futures and asyncio
(loop.run_in_executor in to_async_iter, run_coroutine_threadsafe in
to_sync_iter(loop=<running loop>)).  asyncio's chaining replaces an exception
whose exact class is TimeoutError, concurrent.futures.CancelledError or
concurrent.futures.InvalidStateError by a NEW exception built from .args only:
another object (traceback, __cause__, attributes gone) and for two of the
three even another class (asyncio.CancelledError is not an Exception at all).

Public API only: to_async_iter, to_sync_iter, loop_in_thread.
"""
import sys
import asyncio as aio
import traceback
import concurrent.futures as cf

from aiuti.asyncio import to_async_iter, to_sync_iter, loop_in_thread

problems = []


def describe(exc):
    return f"{type(exc).__module__}.{type(exc).__qualname__}({exc})"


def judge(label, raised, got, expected_elems, received):
    """Compare what the consumer received with what the source raised."""
    if got != expected_elems:
        problems.append(f"{label}: elements {got!r} != {expected_elems!r}")
    if received is raised:
        return
    frames = [f.name for f in traceback.extract_tb(received.__traceback__)] \
        if received is not None else []
    problems.append(
        f"{label}: source raised {describe(raised)} [id {id(raised):#x}, "
        f"__cause__={raised.__cause__!r}] after {len(expected_elems)} "
        f"elements, consumer received "
        f"{describe(received) if received is not None else 'no error'} "
        f"[id {id(received):#x}, __cause__="
        f"{getattr(received, '__cause__', None)!r}, is Exception: "
        f"{isinstance(received, Exception)}, source frame in traceback: "
        f"{'failing_source' in frames or 'async_failing_source' in frames}]"
    )


# ---------------------------------------------------------------- sync -> async

RAISED = {}


def failing_source(name, make_exc):
    """Two elements (a falsy one and None), then the failure."""
    yield 0
    yield None
    exc = make_exc()
    RAISED[name] = exc
    raise exc


def timeout_exc():
    # What a blocking socket read does when its time-out expires:
    # socket.timeout is the builtin TimeoutError. It carries a cause here.
    try:
        raise OSError("low level read failed")
    except OSError as low:
        exc = TimeoutError("timed out reading the next record")
        exc.__cause__ = low
        return exc


def cancelled_exc():
    # What `yield fut.result()` raises in a source which loops over
    # concurrent futures one of which has been cancelled
    fut = cf.Future()
    fut.cancel()
    try:
        fut.result()
    except cf.CancelledError as exc:
        return exc
    raise AssertionError("unreachable")


def invalid_state_exc():
    fut = cf.Future()
    fut.set_result(1)
    try:
        fut.set_result(2)
    except cf.InvalidStateError as exc:
        return exc
    raise AssertionError("unreachable")


class Abort(BaseException):
    """A library's own 'give up' signal: deliberately not an Exception (like KeyboardInterrupt, GeneratorExit)."""


async def consume_async(name, make_exc):
    got = []
    received = None

    async def body():
        async for x in to_async_iter(failing_source(name, make_exc)):
            got.append(x)

    task = aio.ensure_future(body())
    done, _ = await aio.wait([task], timeout=10)
    if not done:
        problems.append(f"to_async_iter / {name}: the consumer is still waiting 10 s after the source failed "
                        f"(elements so far {got!r}): the end of the sequence never reached it")
        task.cancel()
        try:
            await task
        except BaseException as e:
            received = e
        return got, received
    try:
        task.result()
    except BaseException as e:  # asyncio.CancelledError is a BaseException
        received = e
    return got, received


async def main_async():
    out = {}
    for name, make_exc in [
        ('control ValueError', lambda: ValueError("boom")),
        ('TimeoutError', timeout_exc),
        ('concurrent.futures.CancelledError', cancelled_exc),
        ('concurrent.futures.InvalidStateError', invalid_state_exc),
        ('failure that is not an Exception (BaseException subclass)', lambda: Abort("giving up")),
    ]:
        out[name] = await consume_async(name, make_exc)
    return out


for name, (got, received) in aio.run(main_async()).items():
    judge(f"to_async_iter / {name}", RAISED[name], got, [0, None], received)


# ---------------------------------------------------------------- async -> sync

async def async_failing_source(name):
    yield 0
    yield None
    try:
        # an async source whose next read times out (exactly TimeoutError)
        await aio.wait_for(aio.sleep(30), 0.05)
    except TimeoutError as exc:
        RAISED[name] = exc
        raise


def consume_sync(name, **kwargs):
    got = []
    received = None
    try:
        for x in to_sync_iter(async_failing_source(name), **kwargs):
            got.append(x)
    except BaseException as e:
        received = e
    return got, received


# control: private loop of to_sync_iter -> the same exception arrives
got, received = consume_sync('to_sync_iter default loop')
judge("to_sync_iter / default loop / TimeoutError",
      RAISED['to_sync_iter default loop'], got, [0, None], received)

# documented option: a specific loop, here one running in another thread
loop = aio.new_event_loop()
stop = loop_in_thread(loop)
try:
    got, received = consume_sync('to_sync_iter running loop', loop=loop)
finally:
    stop()
    loop.close()
judge("to_sync_iter / loop running in another thread / TimeoutError",
      RAISED['to_sync_iter running loop'], got, [0, None], received)


if problems:
    print(
        "VIOLATION: C16 promises that when the source raises after n "
        "elements the consumer receives those n elements and then that "
        "same exception; instead the consumer received a different "
        "exception object (built from .args only: traceback, __cause__ "
        "lost) and partly a different class "
        "(concurrent.futures.CancelledError -> asyncio.CancelledError, "
        "which is not even an Exception):"
    )
    for p in problems:
        print("  -", p)
    sys.exit(1)

print("OK")
sys.exit(0)
