"""
C16 violation demo: to_async_iter blocks the event loop while the synchronous
source iterator is blocked, as soon as the consumer's pending read is ended by
an error (here: an ordinary `asyncio.wait_for` timeout on the next element).

Run:
  PYTHONPATH=/repo timeout 120 /venv/bin/python /repo/violation_C16.py
"""
import asyncio as aio
import sys
import time

from aiuti.asyncio import to_async_iter

STEP = 0.3        # the synchronous source blocks this long before each element
N = 6             # number of elements of the source
HEART = 0.01      # an unrelated task wants to run every 10 ms
LIMIT = 0.5       # a gap above this means the event loop was frozen


def slow_source():
    """A plain blocking generator (stands for a synchronous network client)."""
    for i in range(N):
        time.sleep(STEP)
        yield i


async def heartbeat(gaps):
    last = time.monotonic()
    while True:
        await aio.sleep(HEART)
        now = time.monotonic()
        gaps.append(now - last)
        last = now


async def control():
    """Normal full iteration: the loop stays responsive (measurement sanity)."""
    gaps = []
    hb = aio.ensure_future(heartbeat(gaps))
    got = [x async for x in to_async_iter(slow_source())]
    hb.cancel()
    return got, max(gaps)


async def scenario():
    gaps = []
    hb = aio.ensure_future(heartbeat(gaps))
    it = to_async_iter(slow_source())
    first = await it.__anext__()            # element 0 arrives normally
    timed_out = False
    try:
        # The consumer guards the next read with a timeout that is shorter
        # than one producer step: perfectly ordinary asyncio usage.
        await aio.wait_for(it.__anext__(), 0.05)
    except aio.TimeoutError:
        timed_out = True
    t_after = time.monotonic()
    await aio.sleep(0.05)
    hb.cancel()
    return first, timed_out, max(gaps)


def main():
    got, ctl_gap = aio.run(control())
    print(f"control : full iteration gave {got}, "
          f"longest heartbeat gap {ctl_gap:.3f}s (loop responsive)")
    if got != list(range(N)) or ctl_gap > LIMIT:
        print("control phase unexpectedly failed; measurement unreliable")
        return 2

    first, timed_out, gap = aio.run(scenario())
    print(f"scenario: first={first}, wait_for timed out={timed_out}, "
          f"longest heartbeat gap {gap:.3f}s")
    if timed_out and gap > LIMIT:
        print(
            "VIOLATION: to_async_iter froze the event loop for "
            f"{gap:.2f}s (heartbeat task due every {HEART}s could not run) "
            "while the synchronous source iterator was blocked in its "
            f"remaining {N - 1} steps of {STEP}s each, after the consumer's "
            "read ended with a wait_for timeout; the property promises that "
            "to_async_iter does not block the event loop while a synchronous "
            "iterator is blocked. (With an unbounded source the loop never "
            "comes back.)")
        return 1
    print("no violation observed")
    return 0


if __name__ == '__main__':
    sys.exit(main())
