"""
C08 violation demo: the debounce period given to buffer_until_timeout(...,
timeout=...) is silently replaced when the wrapped callable happens to carry an
attribute called ``timeout`` (functools.wraps copies func.__dict__ over the
freshly initialised BufferAsyncCalls instance).

Submissions arrive 0.2 s apart, the buffer is created with timeout=1.0, so the
property promises ONE call holding all five arguments, starting 1.0 s after the
last submission, and NO call while the burst is still going on.
"""
import asyncio as aio
import sys
import time

from aiuti.asyncio import buffer_until_timeout

DEBOUNCE = 1.0      # what the user asks the buffer for
GAP = 0.2           # distance between submissions (< DEBOUNCE)
N = 5


class Sink:
    """Async callable that ships a set of keys somewhere.

    ``timeout`` is the sink's own I/O timeout - it has nothing to do with the
    debouncing of the buffer."""

    def __init__(self, timeout=None):
        if timeout is not None:
            self.timeout = timeout          # e.g. network timeout in seconds
        self.calls = []                     # (start time, frozenset(args))

    async def __call__(self, keys):
        self.calls.append((time.monotonic(), frozenset(keys)))
        await aio.sleep(0)


async def scenario(sink):
    buf = buffer_until_timeout(sink, timeout=DEBOUNCE)
    t0 = time.monotonic()
    submitted = []
    for i in range(N):
        buf(i)
        submitted.append(time.monotonic() - t0)
        if i < N - 1:
            await aio.sleep(GAP)
    last = submitted[-1]
    await aio.sleep(DEBOUNCE + 1.0)         # well past last + DEBOUNCE
    calls = [(round(t - t0, 3), sorted(s)) for t, s in sink.calls]
    return buf, submitted, last, calls


def main():
    # control: same callable class without the attribute -> behaves as promised
    _, _, last, calls = aio.run(scenario(Sink()))
    print("control (no .timeout attribute): calls =", calls)
    ok_control = (len(calls) == 1 and calls[0][1] == list(range(N))
                  and calls[0][0] >= last + DEBOUNCE - 0.05)

    buf, submitted, last, calls = aio.run(scenario(Sink(timeout=0.05)))
    print("submission times:", [round(s, 3) for s in submitted])
    print("with .timeout=0.05 on the callable: calls =", calls)
    print("buffer.timeout is now", buf.timeout, "(asked for", DEBOUNCE, ")")

    early = [c for c in calls if c[0] < last + DEBOUNCE - 0.05]
    if ok_control and (len(calls) != 1 or early):
        print("VIOLATION: buffer_until_timeout(sink, timeout=%.1f) received %d "
              "plain calls %.1f s apart while the function was idle; the "
              "property promises no call during the burst and a single call "
              "with all %d arguments %.1f s after the last one (t>=%.2f), but "
              "the function was called %d times, %d of them during the burst: "
              "%r" % (DEBOUNCE, N, GAP, N, DEBOUNCE, last + DEBOUNCE,
                      len(calls), len(early), calls))
        sys.exit(1)
    print("no violation observed")
    sys.exit(0)


if __name__ == "__main__":
    main()
