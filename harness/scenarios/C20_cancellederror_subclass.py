"""C20: gather_excs loses an exception raised by an awaitable when it is a
subclass of asyncio.CancelledError (a BaseException-only error).

Deterministic: no races, the finishing order is fixed by the delays.
"""
import sys
import asyncio as aio

from aiuti.asyncio import gather_excs, raise_first_exc


class Shutdown(aio.CancelledError):
    """Application-specific BaseException-only error."""


class Base(Exception):
    pass


async def ok(delay):
    await aio.sleep(delay)
    return 'fine'


async def bad(delay, exc):
    await aio.sleep(delay)
    raise exc


async def main():
    problems = []

    # 1. filter on the class which was raised: must yield it
    e1 = Shutdown('stop')
    got = [x async for x in gather_excs(
        [ok(0.03), bad(0.02, e1), bad(0.01, Base('b'))], only=Shutdown)]
    if got != [e1]:
        problems.append(
            f"gather_excs(only=Shutdown) yielded {got!r} although the second "
            f"awaitable raised {e1!r}, an instance of `only`")

    # 2. raise_first_exc must raise it, not return None
    e2 = Shutdown('stop')
    try:
        res = await raise_first_exc([ok(0.02), bad(0.01, e2)], only=Shutdown)
    except Shutdown as exc:
        if exc is not e2:
            problems.append(f"raise_first_exc raised another object {exc!r}")
    else:
        problems.append(
            f"raise_first_exc(only=Shutdown) returned {res!r} although an "
            f"awaitable raised {e2!r}")

    # 3. without filter: the exception yielded must be the one raised
    e3 = Shutdown('stop')
    got = [x async for x in gather_excs([bad(0.01, e3), ok(0.02)])]
    if not (len(got) == 1 and got[0] is e3):
        problems.append(
            f"gather_excs() yielded {[(type(x).__name__, x.args) for x in got]}"
            f" instead of the raised {e3!r}: class and arguments are lost")

    return problems


problems = aio.run(main())
if problems:
    print("VIOLATION: property promises 'yields exactly the exceptions raised "
          "that are instances of `only` (subclasses included)' and "
          "'raise_first_exc raises the first of these'; observed:")
    for p in problems:
        print("  -", p)
    sys.exit(1)
print("OK: property respected")
