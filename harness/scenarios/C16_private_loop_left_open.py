"""
C16, clause "when iteration has finished (normally or by error) no helper
thread is left running" - to_sync_iter(source) with its own event loop.

to_sync_iter() without ``loop=`` creates a private event loop, runs it in its
helper thread until the source is exhausted, and then just drops it: the loop
is never closed and its default executor is never shut down. Any source which
uses the loop's default executor - ``asyncio.to_thread``,
``loop.run_in_executor(None, ...)``, ``loop.getaddrinfo`` (i.e. every
networking source, like the HTTPX example of the docstring) - therefore leaves
the worker thread(s) of that private loop running after the iteration has
finished, normally or by error, one more per call (plus the loop's selector
and self-pipe descriptors). They only go away if and when the cyclic garbage
collector happens to find the abandoned loop.

Deterministic: the automatic collector is switched off while we look, so the
result does not depend on when a collection happens to be triggered.
"""
import asyncio
import gc
import sys
import threading

from aiuti.asyncio import to_sync_iter

workers = []          # threads in which the blocking steps of the source ran
private_loops = []    # (repr, is_closed getter) - no strong reference kept


def blocking_step(i):
    workers.append(threading.current_thread())
    return i * 2


class Boom(Exception):
    pass


def make_source(n, fail_at=None):
    async def source():
        import weakref
        private_loops.append(weakref.ref(asyncio.get_running_loop()))
        for i in range(n):
            if i == fail_at:
                raise Boom(i)
            # The way an async library runs something blocking (DNS, files)
            yield await asyncio.to_thread(blocking_step, i)
        if fail_at == n:
            raise Boom(n)
    return source()


def run_case(n, fail_at):
    del workers[:], private_loops[:]
    before = set(threading.enumerate())
    got, err = [], None
    try:
        for x in to_sync_iter(make_source(n, fail_at)):
            got.append(x)
    except Boom as e:
        err = e
    want = [i * 2 for i in range(n if fail_at is None else fail_at)]
    problems = []
    if got != want:
        problems.append(f"sequence {got} != {want}")
    if (fail_at is None) != (err is None):
        problems.append(f"terminal exception {err!r}")
    # The iteration has finished. Give anything on its way out a generous
    # second, then look at what is still alive.
    for t in set(workers):
        t.join(1.0)
    left = [t for t in threading.enumerate()
            if t not in before and t.is_alive()]
    if left:
        loop = private_loops[0]() if private_loops else None
        state = ("collected" if loop is None else
                 f"closed={loop.is_closed()}")
        problems.append(
            f"threads left running after the end: "
            f"{[t.name for t in left]} (private loop of to_sync_iter: "
            f"{state})")
        del loop
    return problems


def main():
    gc.collect()
    gc.disable()
    bad = []
    try:
        for n, fail_at in [(3, None), (0, None), (3, 1), (2, 2)]:
            for p in run_case(n, fail_at):
                bad.append(f"[len={n} fail_at={fail_at}] {p}")
    finally:
        gc.enable()
    if bad:
        print("VIOLATION: 'when iteration has finished (normally or by "
              "error) no helper thread is left running' - to_sync_iter "
              "never closes the event loop it created, so the worker "
              "threads of that loop's default executor stay alive: "
              + "; ".join(bad))
        return 1
    print("OK")
    return 0


if __name__ == '__main__':
    sys.exit(main())
