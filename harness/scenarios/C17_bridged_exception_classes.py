"""
C17: ensure_aw / run_aw_threadsafe promise the caller EXACTLY the exception of
the awaitable, whichever state the target loop is in.

The awaitable below fails with concurrent.futures.CancelledError (an ordinary
``Exception`` subclass: it asked a cancelled thread-pool job for its result).

 * target == caller's own loop     -> caller gets that very exception (reference)
 * target idle                     -> caller gets asyncio.CancelledError instead
 * target running (loop_in_thread) -> caller gets asyncio.CancelledError instead

asyncio.CancelledError is a BaseException: ``except Exception`` in the caller no
longer sees the failure and the caller's own task ends up *cancelled* although
nobody cancelled anything.  The same bridge also replaces a TimeoutError raised
by the awaitable (asyncio.wait_for) by a fresh copy without cause / traceback.
"""
import asyncio as aio
import concurrent.futures as cf
import sys

from aiuti.asyncio import ensure_aw, run_aw_threadsafe, loop_in_thread

RAISED = []


async def job_result():
    job = cf.Future()          # e.g. a job handed to some worker pool ...
    job.cancel()               # ... which was cancelled before it started
    try:
        return job.result()    # raises concurrent.futures.CancelledError
    except BaseException as e:
        RAISED.append(e)
        raise


async def timing_out():
    try:
        await aio.wait_for(aio.sleep(10), 0.01)   # raises TimeoutError from CancelledError
    except BaseException as e:
        RAISED.append(e)
        raise


async def observe(make_aw, helper, target):
    """What does a caller of helper(aw, target) get?"""
    RAISED.clear()
    try:
        await helper(make_aw(), target)
    except BaseException as e:  # noqa
        return RAISED[0], e
    return RAISED[0], None


def describe(e):
    return f"{type(e).__module__}.{type(e).__qualname__}"


def main():
    problems = []

    def check(label, raised, got):
        same_type = type(got) is type(raised)
        same_obj = got is raised
        print(f"  {label:38s} awaitable raised {describe(raised)} (id {id(raised):#x}, "
              f"cause {raised.__cause__!r}); caller got {describe(got)} "
              f"(id {id(got):#x}, cause {getattr(got, '__cause__', None)!r})")
        if not same_type:
            problems.append(f"{label}: awaitable raised {describe(raised)} but the caller "
                            f"received {describe(got)}")
        elif not same_obj:
            problems.append(f"{label}: caller received a different {describe(got)} object "
                            f"(cause {got.__cause__!r} instead of {raised.__cause__!r})")

    for name, make_aw in (("cancelled job", job_result), ("wait_for timeout", timing_out)):
        print(name)
        caller = aio.new_event_loop()

        # reference: the target is the caller's own loop
        raised, got = caller.run_until_complete(observe(make_aw, ensure_aw, caller))
        check("ensure_aw, own loop", raised, got)

        # idle target
        idle = aio.new_event_loop()
        raised, got = caller.run_until_complete(observe(make_aw, ensure_aw, idle))
        check("ensure_aw, idle target", raised, got)
        idle.close()

        # target running in another thread
        running = aio.new_event_loop()
        stop = loop_in_thread(running)
        try:
            raised, got = caller.run_until_complete(observe(make_aw, ensure_aw, running))
            check("ensure_aw, loop_in_thread target", raised, got)
            raised, got = caller.run_until_complete(
                observe(make_aw, run_aw_threadsafe, running))
            check("run_aw_threadsafe, loop_in_thread target", raised, got)
        finally:
            stop()
        running.close()
        caller.close()

    # Consequence for an ordinary caller: its own task is reported as cancelled
    async def ordinary_caller(target):
        try:
            return await ensure_aw(job_result(), target)
        except Exception as e:      # handles the failures of the awaitable
            return f"handled {describe(e)}"

    caller = aio.new_event_loop()
    print("ordinary caller, own loop  :",
          caller.run_until_complete(ordinary_caller(caller)))
    idle = aio.new_event_loop()
    task = caller.create_task(ordinary_caller(idle))
    try:
        print("ordinary caller, idle loop :", caller.run_until_complete(task))
    except aio.CancelledError:
        print("ordinary caller, idle loop : caller task cancelled() =", task.cancelled(),
              "- although nothing was ever cancelled on either loop")
        problems.append("caller task ended up cancelled: the awaitable's "
                        "concurrent.futures.CancelledError (an Exception) escaped "
                        "'except Exception' as asyncio.CancelledError (a BaseException)")
    idle.close()
    caller.close()

    if problems:
        print("VIOLATION: ensure_aw/run_aw_threadsafe must give the caller exactly the "
              "exception of the awaitable whether the target loop is the caller's own, "
              "running in another thread or idle; observed: " + " | ".join(problems))
        return 1
    print("OK: exceptions are passed through unchanged")
    return 0


if __name__ == '__main__':
    sys.exit(main())
