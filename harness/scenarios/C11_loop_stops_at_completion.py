"""
C11: a retained result must only be served for retention_timeout seconds
after the request COMPLETED; a call arriving later must trigger a new
computation and never get the old result.

Use: one loop driven by successive run_until_complete calls (a synchronous
facade, the same style of use as in the earlier finding F28).  The first run
asks for key 'A' and, in the background, prefetches key 'B'; both travel in
one batch, the batch function yields A's result, awaits a few times and yields
B's result.  run_until_complete returns as soon as A's caller is answered.
When B's result happens to be set in the very last iteration the loop makes
before it stops, the done-callback AsyncBackgroundBatcher._forget - which is
what stamps the start of the retention window - stays queued in the stopped
loop.  It only runs when the loop is next started, GAP seconds later, and
stamps "now + retention_timeout": the window is measured from the moment the
callback ran instead of from the completion, so the old result is served long
after retention_timeout has passed.

The number of loop iterations between the two yields is scanned (0..7) so the
script doesn't depend on asyncio's exact scheduling; every trial uses a fresh
loop and batcher.
"""
import sys
import time
import asyncio as aio

from aiuti.asyncio import AsyncBackgroundBatcher  # noqa: E402

R = 0.3     # retention_timeout
GAP = 1.5   # pause (loop not running) between the two runs: 5 x R


def trial(n_awaits):
    loop = aio.new_event_loop()
    try:
        computations = []   # keys in the order they were computed
        done_at = {}        # key -> loop time its (latest) result was yielded

        async def func(batch):
            for i, (key, arg) in enumerate(batch):
                if i:
                    for _ in range(n_awaits):
                        await aio.sleep(0)
                computations.append(key)
                done_at[key] = loop.time()
                yield key, (arg, len(computations))

        async def first_run():
            batcher = AsyncBackgroundBatcher(
                func, batch_timeout=0.01, retention_timeout=R,
            )
            prefetch = loop.create_task(batcher('B'))  # never cancelled
            res_a = await batcher('A')
            return batcher, prefetch, res_a

        batcher, prefetch, res_a = loop.run_until_complete(first_run())
        assert res_a == ('A', 1), res_a
        if 'B' not in done_at:
            # B wasn't computed during the first run: no test
            loop.run_until_complete(prefetch)
            return None

        time.sleep(GAP)  # nothing runs: the loop is stopped

        t_call = loop.time()
        res_b = loop.run_until_complete(batcher('B'))
        age = t_call - done_at['B'] if computations.count('B') == 1 \
            else None
        orig = loop.run_until_complete(prefetch)
        assert orig == ('B', 2), orig
        return res_b, computations, age
    finally:
        loop.close()


def main():
    for n in range(8):
        out = trial(n)
        if out is None:
            continue
        res_b, computations, age = out
        if computations.count('B') == 1 and res_b == ('B', 2) \
                and age is not None and age > 2 * R:
            print(
                "VIOLATION: C11 promises that a call arriving more than "
                "retention_timeout after the request for its key completed "
                "triggers a new computation and never receives the old "
                f"result; with retention_timeout={R} a call for key 'B' "
                f"arriving {age:.2f} s after B's result had been set got the "
                f"old result {res_b!r} and no new computation was started "
                f"(computations: {computations}; {n} awaits between the two "
                "yields of the batch function).  The retention window is "
                "stamped by the done-callback _forget, which was still "
                "queued when run_until_complete stopped the loop and only "
                "ran - and started the window - when the loop ran again."
            )
            return 1
    print("OK")
    return 0


if __name__ == '__main__':
    sys.exit(main())
