"""
C06 - a call to a threadsafe_async_cache function always ends (value, own
exception of the wrapped function, or own cancellation).

A process forks (os.fork from one thread) while another thread is inside the
short critical section of the cache (``with event_making_lock:`` in
aiuti/asyncio.py).  The child inherits the RLock in its *held* state, owned by
a thread which does not exist in the child: every call of the cached function
in the child - for any key, also one nobody ever computed - blocks for ever on
``with event_making_lock:`` (it cannot even be cancelled or timed out: the
thread is blocked, not the task).

The interleaving is pinned with a dict subclass given as ``cache=``: its
lookup is an ordinary dict lookup, it only tells the main thread when the
calling thread is at the second lookup (the one under the lock) and waits a
bounded time there.  With a plain dict the same happens whenever the forking
thread preempts the other thread inside the critical section.

Phase 1 (control): fork while the other thread is inside the wrapped function
(in-flight marker present, lock free): the child's call returns promptly.
Phase 2: fork while the other thread is inside the critical section.
"""
import asyncio as aio
import os
import select
import signal
import sys
import threading
import warnings

from aiuti.asyncio import threadsafe_async_cache

warnings.simplefilter('ignore', DeprecationWarning)  # fork with threads

CHILD_DEADLINE = 15.0   # seconds the child gets for one trivial call
HOLD = 5.0              # bound on how long the pinned thread stays put

tls = threading.local()
at_locked_lookup = threading.Event()
fork_done = threading.Event()


class Cache(dict):
    """A plain dict; the lookup only pins the interleaving (see above)."""

    def __getitem__(self, key):
        if getattr(tls, 'pin', False):
            tls.lookups += 1
            if tls.lookups == 2:        # 1st: lock-free check, 2nd: locked
                at_locked_lookup.set()
                fork_done.wait(HOLD)    # bounded: a repaired library which
                #                         makes fork() wait for the lock
                #                         must not deadlock this program
        return super().__getitem__(key)


in_func = threading.Event()
release_func = threading.Event()


@threadsafe_async_cache(cache=Cache())
async def work(x):
    if x == 'slow':
        in_func.set()
        while not release_func.is_set():
            await aio.sleep(0.01)
    return 'value-of-%s' % (x,)


def fork_and_call(key):
    """Fork; the child calls work(key) once.  Returns what the child said,
    or None if it said nothing within CHILD_DEADLINE."""
    r, w = os.pipe()
    pid = os.fork()
    if pid == 0:  # child: only this thread exists here
        try:
            os.close(r)
            try:
                out = 'returned %r' % (aio.run(work(key)),)
            except BaseException as e:  # noqa
                out = 'raised %r' % (e,)
            os.write(w, out.encode())
        finally:
            os._exit(0)
    os.close(w)
    ready, _, _ = select.select([r], [], [], CHILD_DEADLINE)
    said = os.read(r, 4096).decode() if ready else None
    os.close(r)
    if said is None:
        os.kill(pid, signal.SIGKILL)
    os.waitpid(pid, 0)
    return said


def main():
    # ---- phase 1: control, fork while another thread computes ----------
    out1 = {}
    t1 = threading.Thread(
        target=lambda: out1.setdefault('r', aio.run(work('slow'))))
    t1.start()
    assert in_func.wait(30)
    said = fork_and_call('child-key-1')
    release_func.set()
    t1.join(30)
    if said != "returned 'value-of-child-key-1'":
        print('VIOLATION: (control) the call in a child forked while the '
              'parent computes another key ended with: %r' % (said,))
        return 1
    assert out1.get('r') == 'value-of-slow', out1

    # ---- phase 2: fork while another thread is in the critical section -
    out2 = {}

    def caller():
        tls.pin = True
        tls.lookups = 0
        out2['r'] = aio.run(work('k2'))

    t2 = threading.Thread(target=caller)
    t2.start()
    assert at_locked_lookup.wait(30)
    said = fork_and_call('child-key-2')   # a key nobody else ever uses
    fork_done.set()
    t2.join(30)
    assert out2.get('r') == 'value-of-k2', out2   # the parent is fine

    if said is None:
        print('VIOLATION: a call work(\'child-key-2\') in a child process '
              'forked while another thread of the parent was inside the '
              'cache\'s critical section never ended (no value, no '
              'exception, no cancellation within %.0f s; the control fork '
              'in phase 1 answered at once): the child inherited '
              'event_making_lock held by a thread that does not exist there'
              % CHILD_DEADLINE)
        return 1
    if said != "returned 'value-of-child-key-2'":
        print('VIOLATION: the call in the child ended with: %r' % (said,))
        return 1
    print('OK')
    return 0


if __name__ == '__main__':
    sys.exit(main())
