"""
C10 violation demo: more than max_concurrent_batches executions of the batch
function are in progress at once.

Scenario (public API only, max_concurrent_batches=1, max_batch_size=2):
  * four calls arrive together -> batch 1 = [bad, b], batch 2 = [c, d];
    batch 2 waits for the single concurrency slot
  * the batch function reports the error of item "bad" the documented way, by
    yielding an Exception object for its key; the object is a StopIteration
    (a case _process_batch explicitly anticipates, see its comment)
  * fut.set_exception() refuses it -> the ``async for`` body raises, the
    ``async with self._semaphore`` block is left, the slot is released ...
  * ... but the async generator of execution 1 has never been closed: it is
    still suspended at its ``yield`` inside its try/finally (holding whatever
    it holds, e.g. a DB connection) and its clean-up runs only later, from the
    event loop's async-generator finalizer, OUTSIDE the semaphore
  * meanwhile batch 2 was given the slot and its execution has started.
"""
import asyncio as aio
import sys

from aiuti.asyncio import AsyncBackgroundBatcher

MAX_CONCURRENT = 1

active = 0          # executions entered and not yet exited
peak = 0
log = []            # (loop time, text)
t0 = 0.0


def note(text):
    log.append((aio.get_running_loop().time() - t0, text))


async def batch_func(batch):
    global active, peak
    batch = list(batch)
    active += 1
    peak = max(peak, active)
    note(f"ENTER {batch}  (in progress: {active})")
    try:  # think: ``async with pool.acquire() as conn:``
        for key, arg in batch:
            await aio.sleep(0.01)
            if arg == 'bad':
                yield key, StopIteration('no such row')  # error for this key
            else:
                yield key, arg.upper()
    finally:
        await aio.sleep(0.03)  # think: giving the connection back
        active -= 1
        note(f"EXIT  {batch}  (in progress: {active})")


async def main():
    global t0
    t0 = aio.get_running_loop().time()
    batched = AsyncBackgroundBatcher(
        batch_func,
        max_batch_size=2,
        max_concurrent_batches=MAX_CONCURRENT,
        batch_timeout=0.05,
    )
    results = await aio.gather(
        batched('bad'), batched('b'), batched('c'), batched('d'),
        return_exceptions=True,
    )
    await aio.sleep(0.2)  # let every clean-up finish
    return results


results = aio.run(main())
for t, text in log:
    print(f"  t={t:6.3f}  {text}")
print("  results:", results)

if peak > MAX_CONCURRENT:
    print(f"VIOLATION: max_concurrent_batches={MAX_CONCURRENT} but {peak} "
          f"executions of the batch function were in progress at once: the "
          f"execution for batch [bad, b] was still open (suspended at its "
          f"yield, clean-up not yet run) when the execution for batch [c, d] "
          f"was started; C10 promises never more than max_concurrent_batches "
          f"executions in progress at once.")
    sys.exit(1)
print("OK: never more than", MAX_CONCURRENT, "execution(s) in progress")
sys.exit(0)
