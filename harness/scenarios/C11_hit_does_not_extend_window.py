"""
C11: the retention window is counted from the completion of the computation, not from the last call which was served
from it.  A synchronous application keeps one event loop and calls the batcher with ``loop.run_until_complete``; the
loop does not run in between, so the eviction timer cannot fire and only the age check of the lookup itself decides.

  t = 0          call 1 -> computation #1 completes
  t = 0.6 W      call 2 (inside the window) -> must be served from computation #1
  t = 1.5 W      call 3 (after the window of #1, but within W of call 2) -> must be a new computation

Judged from the measured times, so a slow machine can only make the scenario skip its verdict, never fail it.
"""
import asyncio as aio
import sys
import time

from aiuti.asyncio import async_background_batcher

W = 0.5

computations = []


@async_background_batcher(batch_timeout=0.01, retention_timeout=W)
async def lookup(batch):
    for key, arg in batch:
        computations.append(key)
        yield key, f"value#{len(computations)}"


def main() -> int:
    loop = aio.new_event_loop()
    try:
        first = loop.run_until_complete(lookup(1))
        t_done = time.monotonic()
        time.sleep(0.6 * W)
        t_hit = time.monotonic()
        second = loop.run_until_complete(lookup(1))
        n_after_hit = len(computations)
        time.sleep(max(0.0, t_done + 1.5 * W - time.monotonic()))
        t_late = time.monotonic()
        third = loop.run_until_complete(lookup(1))
    finally:
        loop.close()
    print(f"W={W}: done at 0, call 2 at {t_hit - t_done:.3f} -> {second!r}, call 3 at {t_late - t_done:.3f} -> {third!r}; "
          f"computations: {len(computations)}")
    if n_after_hit != 1:
        # call 2 did not land inside the window (slow machine) or was recomputed: nothing to judge here
        print("SKIPPED: call 2 was not served from the first computation")
        return 0
    if t_late - t_done > W and third == first:
        print(f"VIOLATION: C11: call 3 arrived {t_late - t_done:.3f}s after the only computation completed, beyond "
              f"retention_timeout={W}s, yet it received the old result {third!r} and no new computation ran "
              f"(computations: {len(computations)}); the call at {t_hit - t_done:.3f}s, served from the cache, must not "
              f"restart the window")
        return 1
    print("OK")
    return 0


if __name__ == '__main__':
    sys.exit(main())
