"""
C05 violation: a caller which recovers from a computing loop that was closed
mid-computation can dead-lock forever on the cache's own threading.Lock.

Scenario (one thread is enough, two loops used one after the other):
  1. loop A starts computing f(3) and is closed while f(3) is still awaiting
     (the property explicitly covers "the computing loop is ... closed
     mid-computation").  The abandoned task is now cyclic garbage.
  2. a caller on loop B calls f(3).  It finds the marker of the dead loop and
     takes over - all of that inside `with event_making_lock:`.
  3. CPython's cyclic garbage collector runs while B is inside that block
     (it may start at any allocation: the KeyError of the re-check, the tuple,
     `aio.Event()` ...).  It finalizes the abandoned coroutine of step 1, whose
     `finally:` block does `with event_making_lock:` - a non-reentrant Lock
     which this very thread already holds.  The thread blocks forever: no
     60 s safety net applies, and every other thread calling f() piles up
     behind the lock as well.

Default mode: deterministic. The collector pass is placed exactly in the
locked re-check by a user supplied cache mapping (the documented `cache=`
parameter) whose lookup calls gc.collect() - standing in for the automatic
pass.  `--auto` mode: plain default dict cache, automatic GC only, scenario
repeated with a bit of allocation noise until the same dead-lock shows up by
itself (about 400 rounds here).
"""
import asyncio
import gc
import logging
import os
import sys
import threading
import traceback
import warnings

from aiuti.asyncio import threadsafe_async_cache

warnings.simplefilter("ignore")
logging.getLogger("asyncio").setLevel(logging.CRITICAL)

AUTO = "--auto" in sys.argv
progress = [0]
finished = []


class GcAtLookup(dict):
    """A user cache; lookup number `fire_at` coincides with a GC pass."""
    lookups = 0
    fire_at = -1

    def __getitem__(self, key):
        self.lookups += 1
        if self.lookups == self.fire_at:
            gc.collect()  # stands in for an automatic collection
        return dict.__getitem__(self, key)


def one_round(cache):
    @threadsafe_async_cache(cache=cache)
    async def f(x):
        await asyncio.sleep(0.001)
        return x * x

    # 1. loop A starts the computation and is closed mid-computation
    a = asyncio.new_event_loop()
    task = a.create_task(f(3))
    a.run_until_complete(asyncio.sleep(0))  # f(3) is now awaiting its sleep
    a.close()
    del task, a  # the abandoned computation is garbage now

    # 2. a caller on another loop has to recover by recomputing
    if isinstance(cache, GcAtLookup):
        cache.lookups = 0
        cache.fire_at = 2  # 1st lookup: lock-free check, 2nd: locked re-check
    b = asyncio.new_event_loop()
    assert b.run_until_complete(f(3)) == 9
    b.close()


def scenario():
    if AUTO:
        i = 0
        while True:
            i += 1
            progress[0] = i
            junk = [[] for _ in range(i % 101)]  # allocation noise
            one_round(None)
            del junk
    else:
        gc.disable()  # only so that no automatic pass runs *earlier*
        one_round(GcAtLookup())
        finished.append(True)


th = threading.Thread(target=scenario, daemon=True)
th.start()
if AUTO:
    import time
    last, t0 = -1, time.time()
    while time.time() - t0 < 100:
        time.sleep(3)
        if progress[0] == last:
            break
        last = progress[0]
    else:
        print("no hang in", last, "rounds")
        sys.exit(0)
else:
    th.join(10)  # virtual cost of the scenario is 1 ms
    if finished:
        print("OK: the caller on loop B recovered by recomputing")
        sys.exit(0)

stack = "".join(traceback.format_stack(sys._current_frames()[th.ident]))
print(stack)
where = ("round %d" % progress[0]) if AUTO else "the only round"
print("VIOLATION: caller on loop B never finishes (%s): computing loop A was "
      "closed mid-computation, B took over inside `with event_making_lock`, "
      "a GC pass there finalized A's abandoned coroutine whose finally-block "
      "re-acquires the same non-reentrant Lock in the same thread -> "
      "dead-lock forever (no value, no exception, no 60 s recovery); the "
      "property promises that callers on other loops recover by recomputing "
      "instead of waiting forever." % where)
os._exit(1)
