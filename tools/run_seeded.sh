#!/bin/sh
# usage: run_seeded.sh <patch> <check> [<check> ...] : apply the patch to /repo, run the quick checks, undo
PATCH=$1; shift
cd /verif
git -C /repo apply "$PATCH" || exit 2
for c in "$@"; do
  timeout 1200 bin/check $c quick 2>/dev/null | grep -E "VIOLATION|KNOWN|quick:" | cut -c1-260
done
git -C /repo checkout -- .
git -C /repo status --short
