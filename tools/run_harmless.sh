#!/bin/sh
# usage: run_harmless.sh <ABS patch> [checks...] : apply a (supposedly behaviour-preserving) change to /repo, run the quick
# checks that look at the touched files (or the ones given), undo it, and print every VIOLATION / non-zero exit.
# Nothing else may use /repo meanwhile.
P="$1"; shift
cd /verif
CHECKS="$@"
if [ -z "$CHECKS" ]; then
  CHECKS=""
  grep -q '^+++ b/aiuti/filelock.py' "$P" && CHECKS="$CHECKS C02 C12 C13"
  grep -q '^+++ b/aiuti/itertools.py' "$P" && CHECKS="$CHECKS C18"
  grep -q '^+++ b/aiuti/parsing.py' "$P" && CHECKS="$CHECKS C19"
  grep -q '^+++ b/aiuti/asyncio.py' "$P" && CHECKS="$CHECKS C01 C03 C04 C05 C06 C07 C08 C09 C10 C11 C14 C15 C16 C17 C20"
  [ -z "$CHECKS" ] && CHECKS="C01 C02 C03 C04 C05 C06 C07 C08 C09 C10 C11 C12 C13 C14 C15 C16 C17 C18 C19 C20"
fi
git -C /repo apply "$P" || { echo "$(basename $P): patch does not apply"; exit 0; }
bad=""
for c in $CHECKS; do
  out=$(timeout 1500 bin/check $c quick 2>&1); rc=$?
  v=$(echo "$out" | grep -E "^VIOLATION|INTERNAL-ERROR" | head -3)
  if [ $rc -ne 0 ] || [ -n "$v" ]; then bad="$bad\n  $c exit $rc: $v"; fi
done
git -C /repo checkout -- .
if [ -n "$bad" ]; then printf "$(basename $P): ALARM$bad\n"; else echo "$(basename $P): quiet ($CHECKS)"; fi
