#!/usr/bin/env python3
"""Regenerates MANIFEST.json from the table below (keeps it valid while checks are added)."""
import json, os
HERE = os.path.dirname(os.path.dirname(os.path.abspath(__file__)))

NOTE_COMMON = ("Trusted: Lean 4.33 kernel + propext/Classical.choice/Quot.sound (audited per theorem on every "
               "run; no sorry/axiom/native_decide); the hand-written Lean model, tied to /repo by the "
               "correspondence run of the same check; the Python harness. ")

CHECKS = {
 "C18": dict(
  text="Lean theorems (C18_side_prefix, C18_side_complete, C18_partition, C18_pred_once, C18_source_once, "
       "C18_next_total, C18_exhaust) about an operational model of split (source, condition, one map of (element, "
       "decision) pairs, one tee buffer with two cursors, two result iterators that stay finished) for every source, every condition and every sequence of next() calls; tied to "
       "aiuti.itertools.split by a bounded-exhaustive differential run that also compares pull and predicate logs",
  note=NOTE_COMMON + "Modelled, not verified: CPython tee/map pull order and the iterator protocol of the two result objects (validated by comparing "
       "pull and predicate logs on every case); exhaust() is modelled as a fold.",
  tech="Lean 4 proof (canonical form of the operational model, induction over next() "
       "sequences) + model/implementation differential", ref="§5 C18"),
 "C19": dict(
  text="Lean theorems (C19_spec, C19_split_first(_sound), C19_split_none, C19_shapes_agree, C19_no_sep_is_error, "
       "C19_malformed_never_dict, C19_nonstrings_untouched, C19_unparsable_retained, "
       "C19_keys_untouched_when_disabled) about an operational model of parse_to_dict for every item list, "
       "separator, parse_keys value and every parser (including raising ones); tied to aiuti.parsing by a "
       "differential run over a fragment grammar that compares results, error kinds and the parser call log. "
       "Partial: 'the default parser never evaluates code' is a property of ast.literal_eval and is assumed; the "
       "check asserts the default parser is ast.literal_eval and runs tripwire strings",
  note=NOTE_COMMON + "Assumed: ast.literal_eval only constructs literals; Python dict insertion semantics; the "
       "parser oracle given to the model is computed by calling the parser outside parse_to_dict.",
  tech="Lean 4 proof (run = spec by induction over items; first-occurrence characterisation of the split) + "
       "model/implementation differential with tripwire", ref="§5 C19"),
 "C20": dict(
  text="Lean theorems (C20_all_slots_filled, C20_runs_all, C20_exact_in_input_order, C20_independent_of_timing, "
       "C20_raise_first) about a discrete-event model of gather(return_exceptions=True) + the only-filter: the "
       "yielded list equals the input-order filter for EVERY finishing permutation; tied to aiuti.asyncio by a "
       "virtual-time differential over all outcome lists x all finishing permutations (bounded) that also compares "
       "the completion log and checks that nothing is yielded before all awaitables finished",
  note=NOTE_COMMON + "Assumed (validated by the completion log): asyncio.gather(return_exceptions=True) runs all "
       "children, cancels none, slots results by input index; isinstance = the issubclass table of the six classes.",
  tech="Lean 4 proof (slot-array invariant over any completion permutation) + virtual-time differential", ref="§5 C20"),
 "C04": dict(
  text="Lean theorems about the batcher machine (Batcher/Model.lean). Per batch: C04_outcome (for every batch dict, "
       "script and result order the key's future is resolved exactly once, with the independently written "
       "specOutcome), C04_no_cross_key, C04_always_answers (+ behaviourGo_ends), and C04_pump_is_runScript (the timed "
       "machine's pump performs exactly runScript's resolutions). Run level, for every program of calls / "
       "cancellations / max_batch_size mutations from a fresh batcher (Batcher/Answer.lean, invariant W on top of "
       "the C11 invariant R): C04_waiters_are_in_flight(_prefix) - a caller is suspended only on an unresolved "
       "future whose item is queued / being assembled / waiting for a slot or whose key is still unanswered in a "
       "running batch whose script ends with fin or raise; C04_every_call_is_served - whoever called is suspended "
       "or has a done event; C04_all_answered_at_rest - when nothing is in flight nobody is pending and every call "
       "has its done event; C04_answer_is_final (Batcher/Stable.lean) - a future that has an answer keeps exactly that "
       "answer after every longer prefix and after the drain (resolve is only ever applied to unanswered futures). "
       "The machine is tied to AsyncBackgroundBatcher by a virtual-time differential on random "
       "timed programs; an independent monitor judges every real execution (outcome = first-yield reading, nobody "
       "pending for ever)",
  note=NOTE_COMMON + "Partial: that the outcome recorded for a caller's future is specOutcome of the very batch that "
       "carried its key is proved per batch and tied to the run by pump_is_runScript, but not stated as one run-level "
       "theorem (it would need a ghost log of scripts); that the pipeline drains (timers, fuel) is the liveness half, "
       "validated by the correspondence run and the monitor. asyncio Queue/Semaphore/Future/shield semantics assumed.",
  tech="Lean 4 proof (induction over the batch script against an independent spec; inductive invariant over all "
       "input programs for 'nobody waits for nothing') + virtual-time model/implementation differential + outcome "
       "monitor", ref="§5 Batcher"),
 "C09": dict(
  text="Lean theorem C09_cancellations_invisible (Batcher/Cancel.lean + Props.lean): for every set X of callers, every "
       "starting state and any two programs of timed inputs that differ only in which callers of X are cancelled at "
       "the cancellation positions (a never-calling id makes the cancel a no-op, so 'cancelled then' vs 'never "
       "cancelled'), the whole run and the final drain invoke the batch function with the same batches at the same "
       "instants and answer every caller outside X at the same instants with the same outcomes; queue, batches, "
       "futures, retention, timers are identical (every machine function commutes with forgetting X: strip_*). "
       "C09_cancel_touches_only_the_caller is the one-step frame version, C04_outcome says what each batch gives. "
       "The machine is tied to the real code by a virtual-time differential over programs that cancel any subset "
       "of callers while queued / running / after the result (same-instant bursts, cancels k loop iterations "
       "after the call), with shared keys and fresh calls afterwards; monitor: every non-cancelled caller gets "
       "the batch function's outcome for its key and nobody stays pending",
  note=NOTE_COMMON + "The run-level theorem compares runs with the same time discretisation (a cancel input also "
       "lets time advance to its instant; the comparison program keeps a no-op cancel there). That the outcome "
       "equals the batch function's result for the key is C04_outcome per batch plus the differential. "
       "Holds only after fix 72f5b5b (F6).",
  tech="Lean 4 proof (frame theorem for the cancel step) + virtual-time differential with cancellation grid",
  ref="§5 Batcher"),
 "C10": dict(
  text="Lean theorems about the whole batcher machine (Batcher/Model.lean), for EVERY fresh configuration, every batch "
       "function plan and every list of timed inputs (calls with any keys, cancellations, max_batch_size mutations), "
       "after every prefix of the inputs and after draining: C10_batch_sizes(_out/_prefix/_fixed) (every batch "
       "announced to the batch function has 1 <= size <= the largest max_batch_size in force while it was assembled), "
       "C10_concurrency (running batches <= max_concurrent_batches at every instant; nothing changes the limit), "
       "C10_fifo(_final) (handed-over ++ waiting-for-a-slot ++ being-assembled ++ queued = arrival order, so the "
       "hand-over order is a prefix of the arrival order), from the machine invariant J (Batcher/Invariant.lean: "
       "preserved by pump, startBatch, releaseSlots, dispatch, assemble, fire, advance, arrive, applyIn); C10_on_time "
       "(Batcher/OnTime.lean: at every input instant at which the machine did not run out of fuel no queued call is "
       "left over, no open assembly is past its deadline, no running batch behind its script, no timer overdue). Tied to "
       "AsyncBackgroundBatcher by a virtual-time differential that compares every batch's start time, identity and "
       "contents, including max_batch_size mutated while running; monitor: 1 <= size <= limit in force, running <= "
       "max_concurrent_batches, FIFO, not early / not late, sharing; inputs that coincide with an internal event are not "
       "compared with the machine but judged by the order-free monitors, and a 'race' family aims at such instants",
  note=NOTE_COMMON + "Partial: the timing clauses (calls < batch_timeout apart share a batch until it is full; "
       "hand-over no later than batch_timeout after the last arrival) are decided by the differential on batch start "
       "times and the monitor, not by a theorem. asyncio.Semaphore FIFO fairness assumed (3.12).",
  tech="Lean 4 proof (inductive invariant of the timed batcher machine over all input programs) + virtual-time "
       "model/implementation differential on batch events + limit/FIFO/deadline monitor",
  ref="§5 Batcher"),
 "C11": dict(
  text="Lean theorems about the whole batcher machine, for EVERY fresh batcher (any configuration, retention timeout, "
       "plan of the batch function) and every list of timed inputs (calls with shared / repeated / re-requested keys, "
       "cancellations of any caller at any instant, max_batch_size mutations), after every prefix and after draining: "
       "C11_no_duplicate_key(_prefix) (every batch announced to the batch function carries pairwise distinct keys), "
       "C11_pending_work_distinct (work not yet handed over has pairwise distinct keys, each remembered with its own "
       "pending future), from the 14-clause machine invariant R (Batcher/NoDup.lean: a key is put to work only while "
       "it is not remembered; it stays remembered, mapped to the very future that stands for that work, until the "
       "future is resolved; eviction timers only concern keys whose remembered future is resolved); "
       "C11_sharer_adds_no_work (run level: inserting anywhere in any program a call whose key is in the retention "
       "table at that moment changes no batch and no other caller's answer); plus the step "
       "theorems C11_shared_adds_no_work (a call whose key is remembered queues nothing, creates no future and gets "
       "that future's outcome) and C11_fresh_adds_work. WHEN a key is remembered (Batcher/Window.lean, invariant T over a "
       "ghost record of the instant every future was answered, preserved unconditionally by every machine function): "
       "C11_retention_zero_forgets (retention_timeout = 0: whatever is remembered is still pending, at every instant of "
       "every run), C11_old_result_only_within_window (at an input instant t at which every timer due before t has fired, "
       "a remembered answered future was answered at some c with t <= c + retention_timeout: no call after the window "
       "gets the old result), C11_remembered_throughout_window (a remembered answered future, answered at c, is still "
       "remembered at every input instant t <= c + retention_timeout whatever else happened in between), advance_quiet "
       "(advance leaves nothing due unless its fuel ran out; the driver reports programDone and the harness treats a "
       "false as a broken tie); C04_answer_is_final (Batcher/Stable.lean: resolve is only ever applied to unanswered "
       "futures, so an answered future keeps its answer along every machine function) and "
       "C11_sharer_receives_the_original_outcome (a call for a remembered answered key at any t <= c + "
       "retention_timeout is answered at once with exactly that answer and adds no work). The retention machine is tied to the real code by a "
       "virtual-time differential over 1..3 keys with gaps around retention_timeout and completion times, and by "
       "chained re-requests issued in the very step of the answer; monitor: no batch carries a key twice, sharers get "
       "the original's outcome, a call after the window is computed afresh, nothing is remembered with retention 0",
  note=NOTE_COMMON + "Partial: re-requests in the step of the answer and calls at exactly completion + retention_timeout are ties for "
       "the timed model and are judged by the monitor only (the implementation decides the latter with >=: new work). "
       "A loop that is not running while the clock advances (F28) is outside the machine: scripted scenarios. "
       "call_later exactness assumed.",
  tech="Lean 4 proof (inductive invariant of the retention / pipeline / timer bookkeeping over all input programs + "
       "step theorems) + virtual-time differential + sharing monitor",
  ref="§7 Batcher"),
 "C15": dict(
  text="Tie B: lean/AiutiVerif/Generated/Decorators.lean is regenerated from /repo/aiuti/asyncio.py (ast translator) "
       "on every run and C15_options_forwarded / C15_documented_options are `decide`d over it, so an option dropped "
       "from the partial() of the options form, bound to another name or not passed to the constructor breaks the "
       "build at that theorem; C15_per_loop_independent proves that a registry of per-loop batcher machines, under "
       "any interleaving of inputs from any number of loops, gives each loop exactly a stand-alone batcher fed its "
       "own inputs. Behavioural tie: class / direct / @deco(opts) forms on the same random programs under a virtual "
       "clock must agree with each other and with the Lean machine instantiated with those values (every option "
       "alone and jointly), buffer and cache forms likewise, 1..3 loops successively and 2..3 concurrently",
  note=NOTE_COMMON + "Trusted additionally: the ast translator (refuses source it does not understand -> reported "
       "as a broken tie). The default batch_timeout 0.05 s is not on the tick grid: defaults are compared "
       "form-against-form, not against the model. Holds only after fix 3779468 (F1).",
  tech="Lean 4 `decide` over model data regenerated from the source (translator) + Lean proof of registry "
       "independence + direct-vs-decorated differential in virtual time", ref="§5 C15"),
 "C03": dict(
  text="Lean theorems about the whole buffer machine (Buffer/Model.lean: daemon program counter, timed queue read as "
       "its own state machine, join/flag waiters), for EVERY fresh buffer, every outcome script of the wrapped "
       "function and every list of timed inputs without a shutdown (producers of every kind, failing at any "
       "position, slow; wait(cancel=...)), after every prefix and after draining: C03_conservation(_final) (every "
       "submitted element is queued | among the next loaders | captured by the timed read | being loaded | in the "
       "round's input set | delivered by a successful call, and nothing else is ever there), C03_only_submitted and "
       "C03_exactly_once (pairwise distinct arguments are never passed to two successful calls; both stated on the "
       "output stream the differential compares), C03_all_delivered_at_rest, C03_all_delivered_when_nothing_can_move "
       "(AtRest - no zero-time step enabled, no timed event pending - implies everything submitted was delivered: the "
       "machine never stops short; the driver reports rest= for every program) and C07_C03_left_alone_everything_completes "
       "(it always does come to rest: lexicographic termination measure, Buffer/Terminates.lean), from the 21-clause "
       "machine invariant K (Buffer/Invariant.lean, InvStep.lean: preserved by every zero-time step, timed event "
       "and input); plus the step theorems C03_kept_on_failure, C03_delivered_on_success, addInputs_superset and their run-level "
       "form C03_failed_call_is_offered_again (Buffer/Retry.lean: on the output stream, a call that follows a failed call "
       "carries all of the failed call's arguments, for every program without shutdown). Tied "
       "to BufferAsyncCalls by a virtual-time differential over random timed programs; monitor: every submitted "
       "element reaches exactly one successful call, nothing unsubmitted is delivered, the call after a failed one "
       "is a superset",
  note=NOTE_COMMON + "'Eventually' is a theorem of the model for finite outcome scripts and finite producers "
       "(ticks_reach_rest); that the real loop makes the same moves is the differential. Foreign submitting threads: "
       "the machine takes their two halves as inputs (fclear / fput) and the theorems cover programs containing them; on "
       "the real code 1..2 foreign threads are explored under the baton scheduler (schedule point at every access to "
       "the shared flag) and judged by the monitor only. Holds only after fix 30ffe8c (F10).",
  tech="Lean 4 proof (inductive invariant of the timed buffer machine over all input programs) + virtual-time "
       "model/implementation differential + conservation monitor", ref="§7 Buffer"),
 "C07": dict(
  text="Lean theorems about the same machine and invariant: C07_barrier(_prefix) (every wait() that returned - each "
       "waitRet record of the output stream has its entry, in order - returned only after everything submitted "
       "before it was called had been an argument of a successful call), C07_blocked_waiter_covered, "
       "C07_unfinished_exact (q's unfinished count = queued + captured-and-not-yet-loaded), for every program without "
       "shutdown, any number of concurrent waiters, cancel or not; C07_wait_always_returns(_prefix) (Buffer/Rest.lean + "
       "Waits.lean, invariant L on top of K and the accounting preorder Sub: if the machine is at rest after a program "
       "whose foreign clears are closed, EVERY wait() the program issued has its waitRet in the output stream, nobody is "
       "blocked in q.join() or on the flag, the flag is set and the daemon is idle with an empty queue - a wait() can "
       "only fail to return if the machine runs for ever, never because it stopped with a waiter left behind; "
       "C07_open_foreign_clear_blocks shows the hypothesis on foreign clears is needed; atRest_iff ties the driver's "
       "rest= flag to the hypothesis); C07_C03_left_alone_everything_completes (Buffer/Terminates.lean: every move of the machine "
       "left alone - a zero-time step of the daemon, else the earliest timed event; runProgram's drain iterates exactly "
       "these, C07_runProgram_is_ticks - strictly decreases a lexicographic measure (failures still in the outcome "
       "script, producers queued or captured, position in the attempt), so from every reachable state finitely many "
       "moves lead to rest, where everything submitted has been delivered and every wait() issued has returned: the "
       "'always returns once the function can succeed' clause as a theorem, for finite outcome scripts and finite "
       "producers); C07_shutdown_partial (cancelling the daemon "
       "terminates it in the idle and loading phases) and C07_counterexample_shutdown_{timer_armed,function_running,"
       "loading_captured} (`decide`d model runs in which the cancellation is swallowed and the daemon lives on: the "
       "full shutdown clause is false of the code, finding F5). Tie: virtual-time differential (wait(cancel=True/"
       "False) at grid instants, same-instant submit+wait from one task, concurrent waiters, empty/failing/slow "
       "producers, failing calls) with a barrier monitor; shutdown is exercised asyncio.run-style at instants spread "
       "over each program: the model's verdict (terminates / hangs, phase) must equal the real loop's",
  note=NOTE_COMMON + "Known findings (known_findings.json): shutdown hangs in phases timer-armed, function-running, "
       "loading-captured. That the machine comes to rest is ticks_reach_rest (a theorem about the model); that the real loop makes the same moves is the differential + hang detector + the driver's rest= flag. "
       "Foreign-thread submit-then-wait_from_anywhere interleavings are explored on the real code under the baton "
       "scheduler and judged by the barrier monitor (not compared with the model line by line).",
  tech="Lean 4 proof (inductive invariant: barrier; phase theorem + decide counter-examples for shutdown) + "
       "virtual-time differential + barrier monitor + shutdown hang detector", ref="§7 Buffer"),
 "C08": dict(
  text="Lean theorems about the same machine: C08_quiet_period(_prefix) (for immediately available arguments, no forced "
       "flush and timeout T > 0: whenever the wrapped function is called, at instant t, no submission lies strictly "
       "inside (t - T, t) - any function durations, failing calls and retries - from the invariant Q of Buffer/Quiet.lean, "
       "which uses that inputs only arrive when the daemon is at rest: settle reaches a fixpoint within 5 zero-time "
       "steps), C08_serial_nonempty(_prefix) (over the whole output "
       "stream of every program without shutdown the start/fin records of the wrapped function strictly alternate, "
       "a call is in flight exactly when the daemon is inside it, and no call ever received an empty set) and the "
       "step theorem C08_never_empty; C08_burst_delivered_together (Buffer/Burst.lean, invariant B: for immediately available "
       "arguments and no forced flush, after every prefix of the inputs and every number of moves after it, whenever the "
       "daemon is about to call the function nothing is left in the queue, every element submitted so far is in the "
       "round's input set or already delivered, the latest submission is at least timeout old and the next move is the "
       "call with exactly that set - a burst cannot be split over several calls); debounce timing (no call while arrivals are < timeout apart, one call at last "
       "arrival + timeout containing the burst) is tied to the code by the virtual-time differential comparing "
       "every call's instant and contents over arrival grids straddling the timeout, with a quiet-period / burst "
       "monitor (no call inside a quiet period, call at last arrival + timeout, burst not split, burst not offered "
       "again after its call succeeded; ties excluded)",
  note=NOTE_COMMON + "Partial: 'the call starts exactly timeout after the last arrival of the burst' and 'the burst is "
       "delivered together' are decided by the differential + monitor, not yet by theorems.",
  tech="Lean 4 proof (timed inductive invariants: quiet period, serial, non-empty calls) + virtual-time differential "
       "on call instants + burst monitor", ref="§7 Buffer"),
 "C12": dict(
  text="Lean refinement proof: the sequential FileLock model (in-process Lock/RLock, nesting counter, one open file "
       "description per acquisition, polling loop in virtual time, clean-up paths; after fixes F3/F9) refines the "
       "Lock/RLock contract for EVERY contract-respecting operation sequence over any number of objects and threads "
       "(C12_refines_contract), with corollaries C12_acquire_true_iff_held, C12_false_leaves_state, "
       "C12_is_locked_iff, C12_reacquirable, C12_forced_release_frees, C12_unheld_release_noop, C12_no_fd_leak and "
       "C12_time_bounds (non-blocking: 0; timed: timeout + one poll interval, any state, with faults); about the "
       "small-step model of C02 (every interleaving of threads / objects / processes, with crashes): "
       "C12_inside_is_locked, C12_thread_lock_not_left_behind, C12_unowned_is_pristine, "
       "C12_reacquirable_under_contention, C12_nobody_enters_during_a_call, C12_calls_never_stuck. Tied to "
       "aiuti.filelock by a bounded-exhaustive sequential differential on a real lock file (all sequences to length "
       "3/4 over 24 operations x 3 reentrancy configs, each with a full release and re-acquire probes by everybody; "
       "whole with-blocks - acquire_ctx non-blocking / timed / blocking and the with-statement - as extra operations, "
       "expanded to the acquire and, only if the block was entered, a release; random to length 12) and every single "
       "/ double OSError injection into open/lock/unlock/close; plus random multi-thread scenarios on the real code "
       "under the baton scheduler (2-4 threads, every access to the thread lock / descriptor / flock a scheduling "
       "point) judged by a contract monitor (is_locked while inside, re-acquirable after the releases, no residue)",
  note=NOTE_COMMON + "The refinement theorem is for fault-free histories; behaviour under injected OSErrors is "
       "covered by the model-vs-code differential plus a no-residue monitor, not by a theorem. threading.Lock/RLock "
       "are re-implemented by the harness for sequential runs; the kernel's flock is the real one.",
  tech="Lean 4 refinement proof (model -> Lock/RLock contract, per-operation simulation) + bounded-exhaustive "
       "differential with fault injection", ref="§5 C12"),
 "C02": dict(
  text="Lean theorem C02_mutex: in the small-step FileLock model (any number of processes, threads and lock objects "
       "on one lock file, reentrant or not; blocking / non-blocking / timed acquire, plain and forced release, "
       "SIGKILL of any process) no two threads are ever inside the critical section, for EVERY label sequence "
       "(= every interleaving at shared-access granularity), proved from a 26-clause inductive invariant "
       "(inv_init, inv_step); C02_success_is_hold: a successful acquirer owns the object's thread lock and its "
       "descriptor is the one holding the OS lock, and nobody else holds. Tie: 2..4 real threads over 1..2 objects "
       "run under a deterministic baton scheduler (schedule point at every thread-lock, open, flock, close, sleep, "
       "critical-section step; acquire / with / acquire_ctx in blocking, non-blocking and timed forms, holders staying "
       "inside for 0..400 virtual ticks so that timeouts expire; random and PCT schedules); each execution's label trace must be accepted by the "
       "model and an occupancy monitor watches the critical section; 4 (quick) / 16 free-running processes with an "
       "O_EXCL marker validate the kernel assumption",
  note=NOTE_COMMON + "Partial across processes: exclusion between processes is the kernel's flock (assumed; "
       "exercised by the multi-process soak). threading.Lock/RLock replaced by a cooperative lock with the same "
       "contract. Clients are well-formed (release only what they hold).",
  tech="Lean 4 proof (inductive invariant over a labelled transition system, all interleavings) + trace "
       "refinement check under a deterministic scheduler + multi-process soak", ref="§5 C02"),
 "C13": dict(
  text="Lean theorems about the same small-step model with the `kill p` label: inv_kill (the invariant, hence "
       "C02_mutex among survivors, is preserved by killing any process at any point), C13_lock_not_left_behind (the "
       "OS lock is never left with the dead process), C13_available_after_kill (once nothing holds the OS lock a "
       "fresh thread/object acquires in three steps; the model has no on-disk ownership state). Tie = crash-point "
       "enumeration on the real code: a child SIGKILLs itself at every line event of aiuti/filelock.py during "
       "blocking / timed / nested-reentrant scripts while logging its shared-access labels; after each kill a fresh "
       "process must acquire promptly and (labels + kill + fresh acquisition) must be accepted by the model; 0..2 "
       "live contenders with an O_EXCL overlap detector",
  note=NOTE_COMMON + "Partial: 'the kernel drops the flock when the process dies' is the assumption encoded by the "
       "kill label, validated on the real kernel by the enumeration, not proved.",
  tech="Lean 4 proof (invariant preserved by kill) + exhaustive crash-point enumeration with model replay",
  ref="§5 C13"),
 "C14": dict(
  text="Lean theorems about the key function and the sequential cache (Cache/Keys.lean): C14_key_iff (keys equal iff "
       "positional lists equal in order and keyword pairs equal as a set), C14_kw_order_irrelevant, "
       "C14_positional_matters, C14_positional_is_not_keyword, C14_hit_no_invocation, C14_miss_one_invocation, "
       "C14_evict_forgets / C14_evict_only_that_key (the supplied mapping is the only store) and C14_no_cross_talk "
       "(for every sequence of calls and evictions, whatever a call returns was computed by an invocation with an "
       "equal key). Tie: all ordered pairs of signatures from a pool with equal-but-distinct representatives and "
       "every keyword insertion order, random call/evict sequences on dict, bounded LRU and default store; evictions "
       "are observed at the mapping; unhashable arguments must raise TypeError before any state change",
  note=NOTE_COMMON + "Sequential use only (concurrency is C01). Python ==/hash classes of the values are computed "
       "by the harness and handed to the model.",
  tech="Lean 4 proof (key equivalence + store invariant by induction over operation sequences) + bounded-exhaustive "
       "signature-pair differential", ref="§5 C14"),
 "C16": dict(
  text="Lean theorems about the bridge protocol as a labelled transition system (producer in a helper thread / loop, "
       "FIFO channel, consumer) for every source, every failure position and EVERY interleaving: C16_sequence "
       "(received = a prefix of the elements before the failure point, in order, each once), C16_complete (at the end "
       "exactly those elements, raising iff the source failed), C16_sentinel_always (the sentinel is sent also on "
       "failure, so the consumer cannot wait for ever), C16_no_thread_left (the consumer finishes only after the "
       "worker exited), C16_never_stuck (some step is always enabled), from an 8-clause invariant (inv_step). A consumer "
       "that gives up early (Bridge/CloseModel.lean + Close.lean: the LTS extended by the stop flag, close, drop and the "
       "one put whose test preceded the close): C16_close_prefix (whatever was received is a prefix of what was owed), "
       "C16_at_most_one_put_after_close, C16_close_never_blocks, C16_helper_never_stuck + C16_helper_progress (the "
       "helper thread always has a step and each decreases a measure: no thread is left behind). Tie: "
       "to_async_iter and to_sync_iter run as real threads under the baton scheduler with a cooperative executor / "
       "queue / future (schedule points at source steps, channel puts, gets, joins); each execution's label trace "
       "must be accepted by the model; monitor: sequence incl. falsy elements and duplicates, identity of the "
       "terminal exception, no helper thread alive, non-iterator fast path, loop responsiveness in virtual time",
  note=NOTE_COMMON + "Partial: 'does not block the event loop' is measured (ticker task), not proved. FIFO order "
       "of call_soon_threadsafe / asyncio.Queue / queue.Queue is assumed (the real objects are used in the runs).",
  tech="Lean 4 proof (inductive invariant over a producer/consumer LTS, all interleavings) + trace refinement "
       "check under a deterministic scheduler", ref="§5 C16"),
 "C17": dict(
  text="Lean theorems about an LTS of ensure_aw / run_aw_threadsafe / loop_in_thread / _get_loop_lock (any number of "
       "callers and helper threads on one target loop; double-checked lock creation, loop lock, three-way dispatch, "
       "awaitables that progress only while some thread runs the target): C17_one_runner (never two threads inside "
       "run_* of the loop, every interleaving), C17_lock_unique, C17_on_target, C17_transparent, C17_closed_raises, "
       "C17_stopped_before_return, C17_completes_partial, C17_helpers_never_stuck (neither the creation lock nor "
       "the loop lock is ever waited for for ever: a helper move is enabled whenever a helper thread is under way, "
       "unless loop_in_thread runs the loop and no stop was requested), C17_helper_moves_forward (at most eight "
       "steps per helper thread, lifted to whole traces by C17_helper_steps_bounded), C17_awaitable_moves_forward, C17_borrow_returns, C17_no_lock_left_behind, and C17_counterexample_borrowed_loop_stops (a `decide`d "
       "model trace in which a second caller proxies onto a borrowed loop that then stops: the full completion "
       "clause is false of the code, finding F7). Tie: 2..3 real caller threads with their own loops + the pool "
       "threads run under the baton scheduler with cooperative pool / locks / lock table / spin; the label trace "
       "must be accepted by the model; monitor: result and exception identity, loop identity inside the awaitable, "
       "runner count, loop_in_thread handshake, hang detector",
  note=NOTE_COMMON + "Known finding F7 (known_findings.json, signature hang / threadsafe-proxy / "
       "borrowed-by-run_until_complete). Partial: completion is proved for a target that keeps running and, up to "
       "scheduler fairness, for the borrowing branch (deadlock freedom + bounded steps); it is false for the proxying branch (F7).",
  tech="Lean 4 proof (inductive invariant over an LTS, all interleavings; decide counter-example) + trace "
       "refinement check under a deterministic scheduler + hang detector", ref="§5 C17"),
 "C01": dict(
  text="Lean theorems about the cache LTS (Cache/Model.lean: any number of callers, keys, loops and threads; every "
       "interleaving at shared-access granularity; loop life-cycle fresh/running/stopped/resumed/shutting/closed with "
       "orphaned invocations, take-over of a dead marker, own-marker-only deletion; evictions; cancellations): "
       "C01_single_flight (no two live invocations per key, EVERY accepted label sequence), C01_one_owner, "
       "C01_takeover_only_from_dead, C01_cached_is_returned, from a 23-clause inductive invariant (inv_init, "
       "inv_step). Tie: 2..4 real loop threads under the baton scheduler with hook-free instrumentation of the cache "
       "mapping, the in-flight table (closure cell), the lock class, loop-state reads and Event.set; the observation "
       "trace of every execution is replayed on the LTS (program counter and observed values must agree); random and "
       "PCT schedules plus a systematic context-bounded exploration (non-preemptive baseline and every single "
       "preemption; pairs within a window in the thorough tier) of small race scenarios; monitor: overlap of live "
       "invocations, recomputation after a retained success (loops are not resumed in this check, as the property "
       "says)",
  note=NOTE_COMMON + "Known finding (known_findings.json, F46): with a lock-protected caller-supplied mapping, an abandoned "
       "computing call finalized by the garbage collector inside the mapping dead-locks the cache against the mapping's own "
       "lock - reproduced by scenario C01_gc_inside_locked_mapping.py on every run and printed as KNOWN-FINDING. "
       "Holds only after fix 90a667a (F2). The clause 'every later caller receives that one result' is "
       "covered by C06_outcome + the monitor; uniqueness of the result under a retaining mapping is not a separate "
       "theorem.",
  tech="Lean 4 proof (inductive invariant over a labelled transition system with loop life-cycle, all "
       "interleavings) + observation-trace refinement under a deterministic scheduler", ref="§5 C01"),
 "C05": dict(
  text="Lean theorems about the same LTS: C05_no_lost_wakeup (a caller waiting on an unset event: the event's "
       "creator is still before its event.set() with that very event), C05_lock_holder_enabled (the lock is never "
       "held across an await: its holder can always step), C05_waiter_wakeable, C05_publisher_enabled, "
       "C05_waits_on_owners_event, C05_never_stuck (in every reachable state every unfinished caller on a running loop "
       "can make progress: own step enabled | the awaited invocation can end | a waiter can be woken | the lock's "
       "holder can step) and C05_moves_make_progress (every step of a caller and the end of its invocation strictly "
       "decrease the distance to `done`; only a wake-up starts the path again: at most 17 moves between two waits). Tie as C01, with loops that are also paused and run again (run_until_complete a "
       "second time; label loopResume) and the scenario families takeover-resume / death-race, plus virtual-time "
       "monitors: every caller finishes (deadlock / step-budget detector), a caller that did not compute is released "
       "no later than the end of the computation it last waited for (not by the 60 s timer) unless the computing "
       "loop stopped in between, in which case the 60 s safety window applies",
  note=NOTE_COMMON + "Partial: deadlock freedom and per-round progress are theorems (C05_never_stuck, C05_moves_make_progress); that the scheduler is fair and how many rounds a waiter goes are not; promptness "
       "and the 60 s recovery bound are measured in virtual time, not proved (the model over-approximates the "
       "waiting path).",
  tech="Lean 4 proof (wake-up and enabledness invariants of the LTS) + virtual-time promptness / hang monitors on "
       "scheduler-controlled executions", ref="§5 C05"),
 "C06": dict(
  text="Lean theorems about the same LTS with outcome provenance ghosts: C06_outcome (a finished call returned a "
       "value produced by a successful invocation for its key, or raised an exception of an invocation it performed "
       "itself, or was cancelled with its own task - nothing else exists), C06_failure_not_cached, "
       "C06_cancel_isolated (cancelling a waiter touches only that caller), C06_marker_removal_never_fails. Tie as "
       "C01 (including the systematic single-preemption exploration of the death-race family: the computing loop "
       "returns, shuts down and closes at the instant another loop's caller checks it), with failing invocations, "
       "client cancellations, paused-and-resumed loops and shutdown of loops hosting computations or proxy "
       "waits; monitor: type and origin of every outcome, no bookkeeping exception, no foreign cancellation",
  note=NOTE_COMMON + "Holds only after fixes 90a667a (F2) and 9d605d2 (F4). The model abstracts the waiting path, so "
       "the foreign-cancellation clause (F4) is guarded by the monitor, not by a theorem.",
  tech="Lean 4 proof (provenance invariant of the LTS) + observation-trace refinement + outcome-origin monitor",
  ref="§5 C06"),
}

def main():
    m = {
     "version": 1,
     "setup_cmd": "cd lean && lake build",
     "hooks": {"guard": "AIUTI_VERIF",
               "enable": "none needed: all instrumentation is attached from the harness (module-global proxies, "
                         "cache= argument, loop subclasses); /repo is imported from its working tree unchanged",
               "baseline_off_cmd": "cd /repo && /venv/bin/python -m pytest -ra -q -p no:cacheprovider "
                                   "--timeout=900 --continue-on-collection-errors",
               "source_commits": [], "add_only": True},
     "engines": [{"name": "lean-proof+correspondence", "path": "harness/check.py",
                  "serves_properties": sorted(CHECKS),
                  "kind_free_text": "Lean 4 theorems about hand-written executable models (lean/AiutiVerif), tied "
                  "to /repo on every run by a differential correspondence check that drives the real code and the "
                  "compiled model driver with the same cases; per-property monitors search for concrete failing inputs"}],
     "checks": [],
     "notes": "See DESIGN.md. Genuine defects repaired in /repo by 'fix:' commits: 3779468 (F1, C15), 90a667a "
              "(F2, C01/C06), ab26aa5 (F3, C12), 9d605d2 (F4, C06), 72f5b5b (F6, C09), 9d9dc18 (F9, C12), 30ffe8c (F10, C03), "
              "b10dabe (F11, C04), a2363a7 (F12, C04), bc7512c (F13, C02/C12), a1c15da (F14, C15/C08), 246fb33 (F15, C20), df35f99 (F16, C12), fbcbea6 (F17, C04), "
              "acc6cdb (F18, C10), 31f6c48 (F19, C07), 0d71334 (F20, C16), dfc1e75 (F21, C02/C13), be153ad (F22, C03/C07), 79af58b (F23, C18), 75f3c61 (F24, C20), d1c8bd9 (F25, C04), 39a39ee (F26, C13), 79a0d7d (F27, C16), 2a5879d (F28, C11/C15), 730e82f (F29, C05/C01), bf6dcaf (F30, C17), 75b611c (F31, C16), 51e1c49 (F32, C16), 4d988e0 (F33, C20), c794291 (F34, C17), 369f390 (F35, C11/C15), f63dd37 (F36, C13), f4eeaeb (F37, C10), c698ebe (F38, C05/C06), 9621836 (F39, C18), b8f6855 (F40, C18), 289dcd4 (F41, C13), 8f4cd84 (F42, C17), fe80106 (F43, C04), a36730e (F44, C05/C06), 3f21fa2 (F45, C16); known, not repaired: F5 (C07 shutdown hang), F7 (C17 borrowed loop), F46 (C01 dead-lock of the cache lock with a lock-protected cache mapping when the garbage collector finalizes an abandoned call inside the mapping); see known_findings.json.",
     "not_applicable": [],
    }
    for pid in sorted(CHECKS):
        c = CHECKS[pid]
        m["checks"].append({
          "property_id": pid, "quick_cmd": f"bin/check {pid} quick", "thorough_cmd": f"bin/check {pid} thorough",
          "evidence_file": f"evidence/{pid}.json", "replay_cmd_template": f"bin/check {pid} --replay {{path}}",
          "engine": "lean-proof+correspondence",
          "level_claimed": {"category": "proof", "text": c["text"], "design_ref": c["ref"]},
          "level_note": c["note"], "technique": c["tech"]})
    for i in range(1, 21):
        pid = f"C{i:02d}"
        if pid not in CHECKS:
            m["not_applicable"].append({"property_id": pid, "reason": "check not built yet in this revision "
              "(model, theorems and correspondence are designed in DESIGN.md §5; the entry moves to `checks` "
              "when they exist)"})
    with open(os.path.join(HERE, 'MANIFEST.json'), 'w') as f:
        json.dump(m, f, indent=1)

if __name__ == '__main__':
    main()
