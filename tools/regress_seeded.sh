#!/bin/sh
# usage: regress_seeded.sh [ids...] : for every stored seeded change (default: all), apply it to /repo, run the quick
# check of its own property, undo it, and report whether a concrete VIOLATION line was printed.
cd /verif
IDS="$@"; [ -z "$IDS" ] && IDS=$(ls seeded)
for id in $IDS; do
  p=$(echo $id | cut -c1-3)
  if grep -q '"obsolete"' seeded/$id/meta.json 2>/dev/null; then echo "$id: obsolete (skipped)"; continue; fi
  git -C /repo apply /verif/seeded/$id/patch.diff || { echo "$id: patch does not apply"; continue; }
  out=$(timeout 1200 bin/check $p quick 2>/dev/null | grep -E "^VIOLATION" | grep -v no-failing-input-found | head -1)
  git -C /repo checkout -- .
  if [ -n "$out" ]; then echo "$id: caught by $p"; else echo "$id: NOT caught by $p"; fi
done
git -C /repo status --short
# the C15 runs regenerate lean/AiutiVerif/Generated/Decorators.lean from the (patched) source: put the tree's own back
(cd /verif && timeout 600 bin/check C15 quick > /dev/null 2>&1; git -C /verif status --short lean/AiutiVerif/Generated)
