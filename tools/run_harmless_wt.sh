#!/bin/sh
# usage: run_harmless_wt.sh <worktree> <ABS patch> : like run_harmless.sh but in a scratch worktree of /repo (AIUTI_REPO),
# so several can run side by side.  Prints one line per patch: quiet / ALARM + the VIOLATION lines.
WT="$1"; P="$2"
cd /verif
CHECKS=""
grep -q '^+++ b/aiuti/filelock.py' "$P" && CHECKS="$CHECKS C02 C12 C13"
grep -q '^+++ b/aiuti/itertools.py' "$P" && CHECKS="$CHECKS C18"
grep -q '^+++ b/aiuti/parsing.py' "$P" && CHECKS="$CHECKS C19"
grep -q '^+++ b/aiuti/asyncio.py' "$P" && CHECKS="$CHECKS C01 C03 C04 C05 C06 C07 C08 C09 C10 C11 C14 C15 C16 C17 C20"
git -C "$WT" checkout -q -- . ; git -C "$WT" apply "$P" || { echo "$(basename $P): patch does not apply"; exit 0; }
bad=""
for c in $CHECKS; do
  out=$(AIUTI_REPO="$WT" timeout 1500 bin/check $c quick 2>&1); rc=$?
  v=$(echo "$out" | grep -E "^VIOLATION|INTERNAL-ERROR" | head -3 | tr '\n' ';')
  if [ $rc -ne 0 ] || [ -n "$v" ]; then bad="$bad | $c exit $rc: $v"; fi
done
git -C "$WT" checkout -q -- .
if [ -n "$bad" ]; then echo "$(basename $P): ALARM$bad"; else echo "$(basename $P): quiet ($CHECKS)"; fi
