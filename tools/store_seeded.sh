#!/bin/sh
# usage: store_seeded.sh <Cxx> <suffix> [prefix] : confirm, copy patch + demo to seeded/<Cxx>-<suffix>/, remove the worktree
P=$1; SUF=$2; PRE=${3:-wt}
cd /verif
sh tools/confirm_seeded.sh $P $PRE 2>&1 | cut -c1-300
mkdir -p seeded/$P-$SUF
cp /tmp/seed-$P.diff seeded/$P-$SUF/patch.diff
cp /tmp/$PRE-$P/demo_$P.py seeded/$P-$SUF/
git -C /repo worktree remove --force /tmp/$PRE-$P
