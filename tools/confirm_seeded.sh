#!/bin/sh
# usage: confirm_seeded.sh <Cxx> [prefix] : in /tmp/<prefix>-<Cxx> (default prefix wt), confirm tests pass with the
# change, demo FAILs with it and PASSes without; leaves the patch in /tmp/seed-<Cxx>.diff
P=$1; PRE=${2:-wt}; W=/tmp/$PRE-$P
cd $W || exit 2
git diff -- aiuti > /tmp/seed-$P.diff
echo "== tests with change"; PYTHONPATH=$W timeout 900 /venv/bin/python -m pytest -q -p no:cacheprovider --timeout=900 tests aiuti/asyncio.py aiuti/itertools.py aiuti/parsing.py 2>&1 | tail -1
echo "== demo with change"; PYTHONPATH=$W timeout 120 /venv/bin/python $W/demo_$P.py 2>&1 | tail -2; echo "exit=$?"
git checkout -q -- aiuti
echo "== demo without change"; PYTHONPATH=$W timeout 120 /venv/bin/python $W/demo_$P.py 2>&1 | tail -1
git apply /tmp/seed-$P.diff
