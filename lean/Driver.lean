import AiutiVerif.Core.Wire
import AiutiVerif.Split.Drive
import AiutiVerif.Parse.Drive
import AiutiVerif.Gather.Drive
import AiutiVerif.Batcher.Drive
import AiutiVerif.Buffer.Drive
import AiutiVerif.FileLock.Drive
import AiutiVerif.FileLock.SmallDrive
import AiutiVerif.Cache.KeysDrive
import AiutiVerif.Bridge.Drive
import AiutiVerif.CrossLoop.Drive
import AiutiVerif.Cache.Drive
/-!
Model driver: reads one case per line on stdin (`<component> key=value …`), prints the
model's answer on one line.  Imports `Model`/`Drive` files only (never a proof file).
-/
open AiutiVerif

def answer (line : String) : String :=
  let line := line.trimAscii.toString
  match line.splitOn " " with
  | comp :: _ =>
    let fs := Wire.fields line
    if comp == "split" then Split.drive fs
    else if comp == "parse" then Parse.drive fs
    else if comp == "gather" then Gather.drive fs
    else if comp == "bat" then Batcher.drive fs
    else if comp == "buf" then Buffer.drive fs
    else if comp == "flock" then FileLock.drive fs
    else if comp == "flocksm" then FileLock.Small.drive fs
    else if comp == "ckey" then Cache.drive fs
    else if comp == "bridge" then Bridge.drive fs
    else if comp == "bridgec" then Bridge.Close.drive fs
    else if comp == "xloop" then CrossLoop.drive fs
    else if comp == "cachelts" then Cache.LTS.drive fs
    else if comp == "ping" then "pong"
    else "bad-component"
  | [] => "bad-component"

partial def loop (h : IO.FS.Stream) (out : IO.FS.Stream) : IO Unit := do
  let line ← h.getLine
  if line.isEmpty then return ()
  out.putStrLn (answer line)
  loop h out

def main : IO Unit := do
  let out ← IO.getStdout
  loop (← IO.getStdin) out
  out.flush
