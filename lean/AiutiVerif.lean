-- Root of the `AiutiVerif` library: every model, lemma and property file.
import AiutiVerif.Core.Wire
import AiutiVerif.Split.Props
import AiutiVerif.Split.Drive
import AiutiVerif.Parse.Props
import AiutiVerif.Parse.Drive
import AiutiVerif.Gather.Props
import AiutiVerif.Gather.Drive
import AiutiVerif.Batcher.Model
import AiutiVerif.Batcher.Drive
import AiutiVerif.Batcher.Props
import AiutiVerif.Decorators.Props
import AiutiVerif.Buffer.Model
import AiutiVerif.Buffer.Drive
import AiutiVerif.Buffer.Props
import AiutiVerif.FileLock.Model
import AiutiVerif.FileLock.Drive
import AiutiVerif.FileLock.Props
