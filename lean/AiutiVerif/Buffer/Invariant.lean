import AiutiVerif.Buffer.Inv0
import AiutiVerif.Buffer.InvJoinA
import AiutiVerif.Buffer.InvJoinB
import AiutiVerif.Buffer.InvJoinT
/-! Preservation of the buffer invariant `K`: `wait()` passing its join, `checkJoin`. -/
namespace AiutiVerif.Buffer

/-! ### `wait()` passing its join -/

set_option maxHeartbeats 4000000 in
theorem cancelGetting_K (s : St) (w : Waiter) (h : K s) : K (cancelGetting s w) := by
  destruct_st s
  obtain ⟨h1, h2, h3, h4, h5, h6, h7, h8, h9, h10, h11, h12, h13, h14, h15, h16, h17, h18, h19, h20, h21⟩ := h
  dsimp only at *
  unfold cancelGetting
  cases getting with
  | none => exact ⟨h1, h2, h3, h4, h5, h6, h7, h8, h9, h10, h11, h12, h13, h14, h15, h16, h17, h18, h19, h20, h21⟩
  | some g =>
    obtain ⟨dl, st, cap⟩ := g
    dsimp only
    split
    · rename_i hc
      obtain ⟨hc1, hc2⟩ := hc
      subst hc2
      cases pc <;> close_k
    · exact ⟨h1, h2, h3, h4, h5, h6, h7, h8, h9, h10, h11, h12, h13, h14, h15, h16, h17, h18, h19, h20, h21⟩

theorem cancelGetting_frame (s : St) (w : Waiter) :
    (cancelGetting s w).unfinished = s.unfinished ∧ (cancelGetting s w).submitted = s.submitted ∧
    (cancelGetting s w).joiners = s.joiners ∧ (cancelGetting s w).event = s.event := by
  unfold cancelGetting
  split
  · split <;> exact ⟨rfl, rfl, rfl, rfl⟩
  · exact ⟨rfl, rfl, rfl, rfl⟩


theorem passJoin_core (s : St) (w : Waiter) (h : K s) (hu : s.unfinished = 0) (hb : w.before ≤ s.submitted.length) :
    K (if s.event then { s with outs := s.outs ++ [Out.waitRet w.id s.now], retLog := s.retLog ++ [(w.id, w.before)] }
       else { s with flaggers := s.flaggers ++ [w] }) := by
  by_cases he : s.event = true
  · rw [if_pos he]; exact passJoin_true s w h hu hb he
  · have he' : s.event = false := by simpa using he
    rw [if_neg he]
    by_cases hg : gstate s = none ∨ gstate s = some GState.pending ∨ gstate s = some GState.got
    · exact passJoin_falseA s w h hu hb he' hg
    · exact passJoin_falseB s w h hu hb he' hg

theorem passJoin_K (s : St) (w : Waiter) (h : K s) (hu : s.unfinished = 0) (hb : w.before ≤ s.submitted.length) :
    K (passJoin s w) := by
  unfold passJoin
  simp only []
  obtain ⟨f1, f2, f3, f4⟩ := cancelGetting_frame s w
  exact passJoin_core _ w (cancelGetting_K s w h) (by rw [f1]; exact hu) (by rw [f2]; exact hb)

theorem passJoin_frame (s : St) (w : Waiter) :
    (passJoin s w).unfinished = s.unfinished ∧ (passJoin s w).submitted = s.submitted ∧
    (passJoin s w).joiners = s.joiners := by
  unfold passJoin
  simp only []
  obtain ⟨f1, f2, f3, f4⟩ := cancelGetting_frame s w
  split <;> exact ⟨f1, f2, f3⟩

theorem foldl_passJoin_K : ∀ (ws : List Waiter) (s : St), K s → s.unfinished = 0 →
    (∀ w ∈ ws, w.before ≤ s.submitted.length) → K (ws.foldl passJoin s) := by
  intro ws
  induction ws with
  | nil => intro s h _ _; exact h
  | cons w r ih =>
    intro s h hu hb
    simp only [List.foldl_cons]
    obtain ⟨f1, f2, f3⟩ := passJoin_frame s w
    refine ih _ (passJoin_K s w h hu (hb w (by simp))) (by rw [f1]; exact hu) ?_
    intro w' hw'
    rw [f2]
    exact hb w' (List.mem_cons_of_mem _ hw')

theorem K_clear_joiners (s : St) (h : K s) : K { s with joiners := [] } :=
  ⟨h.alive, h.conserve, h.only, h.gensIter, h.pendPc, h.capDone, h.capLoad, h.quietPc, h.iterNotPending, h.unfin,
   h.evRound, h.flagEv, h.flagOk, (fun w hw => by cases hw), h.retOk, h.idleInputs, h.outsDeliv, h.outsCur, h.outsWaits, h.serialOk, h.startsOk⟩

theorem checkJoin_K (s : St) (h : K s) : K (checkJoin s) := by
  unfold checkJoin
  split
  · rename_i hu
    exact foldl_passJoin_K s.joiners _ (K_clear_joiners s h) hu (fun w hw => h.joinOk w hw)
  · exact h

end AiutiVerif.Buffer
