import AiutiVerif.Buffer.InvStep
/-!
# Exactly once (C03): no argument is passed to two successful calls

When the submitted arguments are pairwise distinct, the arguments of the successful calls of the wrapped
function — `delivered`, which the invariant `K` proves equal to what the output stream says — never
contain an element twice: the not-yet-delivered places (queue, loaders, captured producer, items being
loaded, the round's input set) never hold an element that has been delivered, and what is queued is
not anywhere further down the pipeline.
-/
namespace AiutiVerif.Buffer

structure X (s : St) : Prop where
  inNodup : s.inputs.Nodup
  delNodup : s.delivered.Nodup
  notYet : ∀ x, (x ∈ flat s.queue ∨ x ∈ flat s.gens ∨ x ∈ capItems s ∨ x ∈ s.pendingItems ∨ x ∈ s.inputs) → x ∉ s.delivered
  qFresh : ∀ x ∈ flat s.queue, x ∉ flat s.gens ∧ x ∉ capItems s ∧ x ∉ s.pendingItems ∧ x ∉ s.inputs
  qNodup : (flat s.queue).Nodup

theorem nodup_addInputs (xs : List Nat) : ∀ (acc : List Nat), acc.Nodup → (addInputs acc xs).Nodup := by
  induction xs with
  | nil => intro acc h; simpa [addInputs] using h
  | cons y r ih =>
    intro acc h
    unfold addInputs
    simp only [List.foldl_cons]
    have := ih (if acc.contains y then acc else acc ++ [y])
    unfold addInputs at this
    apply this
    by_cases hc : acc.contains y = true
    · simp only [hc, if_true]; exact h
    · have hc' : acc.contains y = false := by simpa using hc
      have hy : y ∉ acc := by simpa using hc'
      simp only [hc', Bool.false_eq_true, if_false]
      rw [List.nodup_append]
      refine ⟨h, by simp, ?_⟩
      intro a ha b hb
      simp only [List.mem_singleton] at hb
      subst hb
      intro hab
      subst hab
      exact hy ha

theorem nodup_insertSorted (x : Nat) : ∀ (l : List Nat), l.Nodup → x ∉ l → (insertSorted x l).Nodup := by
  intro l
  induction l with
  | nil => intro _ _; simp [insertSorted]
  | cons y r ih =>
    intro h hx
    unfold insertSorted
    split
    · exact List.nodup_cons.mpr ⟨hx, h⟩
    · have hy := List.nodup_cons.mp h
      have hxr : x ∉ r := fun hh => hx (List.mem_cons_of_mem _ hh)
      refine List.nodup_cons.mpr ⟨?_, ih hy.2 hxr⟩
      intro hm
      rcases (mem_insertSorted y x r).mp hm with h1 | h1
      · exact hx (by rw [h1]; simp)
      · exact hy.1 h1

theorem nodup_sortNat : ∀ (l : List Nat), l.Nodup → (sortNat l).Nodup := by
  intro l
  induction l with
  | nil => intro _; simp [sortNat]
  | cons y r ih =>
    intro h
    have hy := List.nodup_cons.mp h
    have : sortNat (y :: r) = insertSorted y (sortNat r) := rfl
    rw [this]
    exact nodup_insertSorted y _ (ih hy.2) (fun hm => hy.1 ((mem_sortNat y r).mp hm))

macro "unfold_x" : tactic => `(tactic|
  simp only [capItems, gstate, flat_nil, flat_cons, flat_append, List.mem_append, mem_addInputs, mem_sortNat,
    Option.map_some, Option.map_none, List.not_mem_nil, false_or, or_false, List.mem_cons, reduceCtorEq, if_true, if_false,
    ne_eq, not_true_eq_false, not_false_eq_true, Option.some.injEq, false_implies, implies_true, true_implies, and_true,
    true_and, forall_const, List.nodup_nil, List.append_nil, List.nodup_append, not_or, not_false_eq_true,
    Bool.false_eq_true] at *)

macro "close_x" : tactic => `(tactic|
  (constructor <;> (try unfold_x) <;> (try subst_vars) <;> (try unfold_x) <;> intros <;>
   grind [nodup_addInputs, nodup_sortNat]))

set_option hygiene false in
macro "open_kx" : tactic => `(tactic|
  (obtain ⟨k1, k2, k3, k4, k5, k6, k7, k8, k9, k10, k11, k12, k13, k14, k15, k16, k17, k18, k19, k20, k21⟩ := hk
   obtain ⟨x1, x2, x3, x4, x5⟩ := hx
   clear k10 k11 k12 k13 k14 k15 k17 k18 k19 k20 k21 k2
   try simp only [Held, InRound, capOpen, Pc.roundEnd, Pc.isLoading, Pc.isLoadcap, Pc.isRunning] at *
   try dsimp only at *))

set_option maxHeartbeats 16000000 in
theorem X_zstep_idle (s : St) (p : Producer) (rest : List Producer) (hk : K s) (hx : X s) (hpc : s.pc = Pc.idle)
    (hqu : s.queue = p :: rest) :
    X { s with queue := rest, event := false, unfinished := s.unfinished - 1, gens := [p], pc := .iter } := by
  destruct_st s
  open_kx
  subst hpc hqu
  split_getting <;> close_x


set_option maxHeartbeats 16000000 in
theorem X_zstep_iter_core (s : St) (hk : K s) (hx : X s) (hpc : s.pc = Pc.iter) :
    X { s with queue := [], unfinished := s.unfinished - s.queue.length, gens := [],
               getting := some { deadline := s.now + s.T, state := .pending, captured := [] },
               pendingItems := ((s.gens ++ s.queue).map pitems).flatten,
               pc := .loading (maxUntil s.now (s.gens ++ s.queue)) } := by
  have hfl : ((s.gens ++ s.queue).map pitems).flatten = flat s.gens ++ flat s.queue := by simp [flat]
  rw [hfl]
  destruct_st s
  open_kx
  subst hpc
  split_getting <;> close_x

theorem X_frame (s s' : St) (hx : X s) (e1 : s'.inputs = s.inputs) (e2 : s'.delivered = s.delivered)
    (e3 : s'.queue = s.queue) (e4 : s'.gens = s.gens) (e5 : s'.getting = s.getting)
    (e6 : s'.pendingItems = s.pendingItems) : X s' := by
  obtain ⟨x1, x2, x3, x4, x5⟩ := hx
  refine ⟨by rw [e1]; exact x1, by rw [e2]; exact x2, ?_, ?_, by rw [e3]; exact x5⟩
  · intro x h; unfold capItems at *; rw [e1, e2, e3, e4, e5, e6] at *; exact x3 x h
  · intro x h; unfold capItems at *; rw [e1, e3, e4, e5, e6] at *; exact x4 x h

theorem cancelGetting_capItems (s : St) (w : Waiter) : capItems (cancelGetting s w) = capItems s := by
  unfold cancelGetting
  cases hg : s.getting with
  | none => rfl
  | some g =>
    simp only []
    split
    · rename_i hc
      unfold capItems
      simp only [hg]
      have : g.state ≠ GState.got := by rw [hc.2]; simp
      simp [this]
    · rfl

theorem X_cancelGetting (s : St) (w : Waiter) (hx : X s) : X (cancelGetting s w) := by
  obtain ⟨x1, x2, x3, x4, x5⟩ := hx
  have hc := cancelGetting_capItems s w
  have e : (cancelGetting s w).inputs = s.inputs ∧ (cancelGetting s w).delivered = s.delivered ∧
      (cancelGetting s w).queue = s.queue ∧ (cancelGetting s w).gens = s.gens ∧
      (cancelGetting s w).pendingItems = s.pendingItems := by
    unfold cancelGetting
    split
    · split <;> exact ⟨rfl, rfl, rfl, rfl, rfl⟩
    · exact ⟨rfl, rfl, rfl, rfl, rfl⟩
  obtain ⟨e1, e2, e3, e4, e5⟩ := e
  refine ⟨by rw [e1]; exact x1, by rw [e2]; exact x2, ?_, ?_, by rw [e3]; exact x5⟩
  · intro x h; rw [e1, e2, e3, e4, e5, hc] at *; exact x3 x h
  · intro x h; rw [e1, e3, e4, e5, hc] at *; exact x4 x h

theorem X_passJoin (s : St) (w : Waiter) (hx : X s) : X (passJoin s w) := by
  unfold passJoin
  simp only []
  have h1 := X_cancelGetting s w hx
  split
  · exact X_frame _ _ h1 rfl rfl rfl rfl rfl rfl
  · exact X_frame _ _ h1 rfl rfl rfl rfl rfl rfl

theorem X_foldl_passJoin : ∀ (ws : List Waiter) (s : St), X s → X (ws.foldl passJoin s) := by
  intro ws
  induction ws with
  | nil => intro s h; exact h
  | cons w r ih => intro s h; simp only [List.foldl_cons]; exact ih _ (X_passJoin s w h)

theorem X_checkJoin (s : St) (hx : X s) : X (checkJoin s) := by
  unfold checkJoin
  split
  · exact X_foldl_passJoin _ _ (X_frame _ _ hx rfl rfl rfl rfl rfl rfl)
  · exact hx

set_option maxHeartbeats 16000000 in
theorem X_zstep_decide (s : St) (g : Getting) (hk : K s) (hx : X s) (hpc : s.pc = Pc.decide) (hg : s.getting = some g) :
    X (match g.state with
       | .got => { s with pc := .loadcap (s.now + pdur g.captured), pendingItems := pitems g.captured }
       | .timedout => { s with pc := .runfunc }
       | .cancelled => { s with pc := .runfunc }
       | .pending => { s with pc := .awaitget }) := by
  destruct_st s
  open_kx
  subst hpc hg
  obtain ⟨dl, st, cap⟩ := g
  cases st <;> dsimp only <;> close_x

theorem X_zstep (s s' : St) (hk : K s) (hx : X s) (hz : zstep s = some s') : X s' := by
  unfold zstep at hz
  split at hz
  · cases hz
  · cases hpc : s.pc with
    | idle =>
      simp only [hpc] at hz
      cases hqu : s.queue with
      | nil => simp [hqu] at hz
      | cons p rest =>
        simp only [hqu, Option.some.injEq] at hz
        subst hz
        exact X_zstep_idle s p rest hk hx hpc hqu
    | iter =>
      simp only [hpc, Option.some.injEq] at hz
      subst hz
      exact X_checkJoin _ (X_zstep_iter_core s hk hx hpc)
    | decide =>
      simp only [hpc] at hz
      cases hg : s.getting with
      | none => simp [hg] at hz
      | some g =>
        simp only [hg] at hz
        have := X_zstep_decide s g hk hx hpc hg
        cases hst : g.state <;> simp only [hst, Option.some.injEq] at hz this <;> subst hz <;> (rw [hg] at this; exact this)
    | runfunc =>
      simp only [hpc] at hz
      split at hz
      · simp only [Option.some.injEq] at hz
        subst hz
        exact X_frame _ _ hx rfl rfl rfl rfl rfl rfl
      · simp only [Option.some.injEq] at hz
        subst hz
        exact X_frame _ _ hx rfl rfl rfl rfl rfl rfl
    | endround =>
      simp only [hpc, Option.some.injEq] at hz
      subst hz
      exact X_frame _ _ hx rfl rfl rfl rfl rfl rfl
    | loading u => simp [hpc] at hz
    | awaitget => simp [hpc] at hz
    | loadcap u => simp [hpc] at hz
    | running u ok => simp [hpc] at hz

theorem KX_settle : ∀ (fuel : Nat) (s : St), K s → X s → K (settle fuel s) ∧ X (settle fuel s) := by
  intro fuel
  induction fuel with
  | zero => intro s hk hx; exact ⟨hk, hx⟩
  | succ n ih =>
    intro s hk hx
    unfold settle
    cases hz : zstep s with
    | none => exact ⟨hk, hx⟩
    | some s' => exact ih s' (zstep_K s s' hk hz) (X_zstep s s' hk hx hz)

set_option maxHeartbeats 16000000 in
theorem X_fireTimed0 (s : St) (when : Nat) (g : Getting) (hk : K s) (hx : X s) (hg : s.getting = some g)
    (hs : g.state = GState.pending) : X (fireTimed s when 0) := by
  unfold fireTimed
  destruct_st s
  open_kx
  subst hg
  obtain ⟨dl, st, cap⟩ := g
  dsimp only at hs
  subst hs
  simp only [↓reduceIte]
  cases pc <;> simp only [reduceCtorEq, ↓reduceIte] <;> close_x

set_option maxHeartbeats 16000000 in
theorem X_fireTimed1_loading (s : St) (when u : Nat) (hk : K s) (hx : X s) (hpc : s.pc = Pc.loading u) :
    X (fireTimed s when 1) := by
  unfold fireTimed
  destruct_st s
  open_kx
  subst hpc
  simp only [Nat.one_ne_zero, ↓reduceIte]
  split_getting <;> close_x

set_option maxHeartbeats 16000000 in
theorem X_fireTimed1_loadcap (s : St) (when u : Nat) (hk : K s) (hx : X s) (hpc : s.pc = Pc.loadcap u) :
    X (fireTimed s when 1) := by
  unfold fireTimed
  destruct_st s
  open_kx
  subst hpc
  simp only [Nat.one_ne_zero, ↓reduceIte]
  split_getting <;> close_x

set_option maxHeartbeats 16000000 in
theorem X_fireTimed1_running (s : St) (when u : Nat) (ok : Bool) (hk : K s) (hx : X s) (hpc : s.pc = Pc.running u ok) :
    X (fireTimed s when 1) := by
  unfold fireTimed setEvent
  destruct_st s
  open_kx
  subst hpc
  simp only [Nat.one_ne_zero, ↓reduceIte]
  cases ok <;> simp only [Bool.false_eq_true, ↓reduceIte] <;> split_getting <;> close_x

theorem X_fireTimed (s : St) (when kind : Nat) (hk : K s) (hx : X s) (hn : nextTimed s = some (when, kind)) :
    X (fireTimed s when kind) := by
  rcases nextTimed_spec s when kind hn with ⟨rfl, g, hg, hs, _⟩ | ⟨rfl, ⟨u, hpc⟩ | ⟨u, hpc⟩ | ⟨u, ok, hpc⟩⟩
  · exact X_fireTimed0 s when g hk hx hg hs
  · exact X_fireTimed1_loading s when u hk hx hpc
  · exact X_fireTimed1_loadcap s when u hk hx hpc
  · exact X_fireTimed1_running s when u ok hk hx hpc

theorem KX_advance : ∀ (fuel t : Nat) (strict : Bool) (s : St), K s → X s →
    K (advance fuel t strict s) ∧ X (advance fuel t strict s) := by
  intro fuel
  induction fuel with
  | zero => intro t strict s hk hx; exact KX_settle fuelDefault s hk hx
  | succ n ih =>
    intro t strict s hk hx
    unfold advance
    simp only []
    obtain ⟨hk1, hx1⟩ := KX_settle fuelDefault s hk hx
    split
    · exact ⟨hk1, hx1⟩
    · rename_i when kind hn
      split
      · exact ih t strict _ (fireTimed_K _ when kind hk1 hn) (X_fireTimed _ when kind hk1 hx1 hn)
      · exact ⟨hk1, hx1⟩

theorem KX_arrive (s : St) (t : Nat) (hk : K s) (hx : X s) : K (arrive s t) ∧ X (arrive s t) := by
  refine ⟨arrive_K s t hk, ?_⟩
  unfold arrive
  split
  · exact hx
  · exact X_frame _ _ (KX_advance fuelDefault t true s hk hx).2 rfl rfl rfl rfl rfl rfl


/-! ### inputs -/

set_option maxHeartbeats 32000000 in
theorem X_submit_core (s : St) (p : Producer) (ev : Bool) (hk : K s) (hx : X s) (hp : (pitems p).Nodup)
    (hf : ∀ x ∈ pitems p, x ∉ s.submitted) :
    X (let s := { s with event := ev, unfinished := s.unfinished + 1, submitted := s.submitted ++ pitems p, subTimes := s.subTimes ++ [s.now], lastSub := s.now }
       if s.pc = Pc.idle then { s with queue := s.queue ++ [p] }
       else match s.getting with
         | some g =>
           if g.state = GState.pending then
             { s with getting := some { g with state := .got, captured := p },
                      pc := if s.pc = Pc.awaitget then Pc.decide else s.pc }
           else { s with queue := s.queue ++ [p] }
         | none => { s with queue := s.queue ++ [p] }) := by
  destruct_st s
  obtain ⟨k1, k2, k3, k4, k5, k6, k7, k8, k9, k10, k11, k12, k13, k14, k15, k16, k17, k18, k19, k20, k21⟩ := hk
  obtain ⟨x1, x2, x3, x4, x5⟩ := hx
  clear k10 k11 k12 k13 k14 k15 k17 k18 k19 k20 k21 k2
  try simp only [Held, capOpen, Pc.roundEnd, Pc.isLoading, Pc.isLoadcap, Pc.isRunning] at *
  try dsimp only at *
  split_getting <;> cases pc <;> simp only [reduceCtorEq, ↓reduceIte] <;> close_x

/-- the elements a program submits, in order -/
def allItems : List In → List Nat
  | [] => []
  | .submit _ p :: r => pitems p ++ allItems r
  | .fput _ p :: r => pitems p ++ allItems r
  | _ :: r => allItems r

theorem applyIn_submitted (s : St) (i : In) (hsd : i.isShutdown = false) :
    (applyIn s i).submitted = s.submitted ++ allItems [i] ∧ (arrive s i.time).submitted = s.submitted := by
  have ha : (arrive s i.time).submitted = s.submitted := by
    have : ∀ (fuel t : Nat) (b : Bool) (x : St), (advance fuel t b x).submitted = x.submitted := by
      intro fuel
      have hz : ∀ (x x' : St), zstep x = some x' → x'.submitted = x.submitted := by
        intro x x' h
        unfold zstep at h
        split at h
        · cases h
        · cases hpc : x.pc <;> simp only [hpc] at h
          · cases hq : x.queue <;> simp only [hq] at h
            · cases h
            · simp only [Option.some.injEq] at h; subst h; rfl
          · simp only [Option.some.injEq] at h; subst h
            exact (show (checkJoin _).submitted = _ from by
              unfold checkJoin
              split
              · have : ∀ (ws : List Waiter) (y : St), (ws.foldl passJoin y).submitted = y.submitted := by
                  intro ws
                  induction ws with
                  | nil => intro y; rfl
                  | cons w r ih => intro y; simp only [List.foldl_cons]; rw [ih, (passJoin_frame y w).2.1]
                rw [this]
              · rfl)
          · cases h
          · cases hg : x.getting <;> simp only [hg] at h
            · cases h
            · rename_i g; cases hst : g.state <;> simp only [hst, Option.some.injEq] at h <;> subst h <;> rfl
          · cases h
          · cases h
          · split at h <;> simp only [Option.some.injEq] at h <;> subst h <;> rfl
          · cases h
          · simp only [Option.some.injEq] at h; subst h; rfl
      have hs : ∀ (n : Nat) (x : St), (settle n x).submitted = x.submitted := by
        intro n
        induction n with
        | zero => intro x; rfl
        | succ m ih =>
          intro x
          unfold settle
          cases hzz : zstep x with
          | none => rfl
          | some x' => simp only []; rw [ih, hz x x' hzz]
      have hf : ∀ (x : St) (w k : Nat), (fireTimed x w k).submitted = x.submitted := by
        intro x w k
        unfold fireTimed
        simp only []
        split
        · split <;> rfl
        · split
          · rfl
          · rfl
          · rename_i u ok _; cases ok <;> rfl
          · rfl
      induction fuel with
      | zero => intro t b x; show (settle fuelDefault x).submitted = _; rw [hs]
      | succ n ih =>
        intro t b x
        unfold advance
        simp only []
        split
        · rw [hs]
        · split
          · rw [ih, hf, hs]
          · rw [hs]
    unfold arrive
    split
    · rfl
    · simp only []; rw [this]
  refine ⟨?_, ha⟩
  unfold applyIn
  generalize arrive s i.time = s1 at ha
  cases i with
  | submit t p =>
    simp only [allItems, List.append_nil]
    split
    · simp [ha]
    · split
      · split <;> simp [ha]
      · simp [ha]
  | wait t id cancel =>
    simp only [allItems, List.append_nil]
    split
    · rw [(passJoin_frame _ _).2.1]; exact ha
    · exact ha
  | shutdown t => cases hsd
  | fclear t => simp only [allItems, List.append_nil]; exact ha
  | fput t p =>
    simp only [allItems, List.append_nil]
    split
    · simp [ha]
    · split
      · split <;> simp [ha]
      · simp [ha]

theorem KX_applyIn (s : St) (i : In) (hk : K s) (hx : X s) (hsd : i.isShutdown = false)
    (hn : (s.submitted ++ allItems [i]).Nodup) : K (applyIn s i) ∧ X (applyIn s i) := by
  refine ⟨applyIn_K s i hk hsd, ?_⟩
  have hsub := (applyIn_submitted s i hsd).2
  unfold applyIn
  obtain ⟨hk1, hx1⟩ := KX_arrive s i.time hk hx
  generalize arrive s i.time = s1 at hk1 hx1 hsub
  rw [List.nodup_append] at hn
  cases i with
  | submit t p =>
    simp only [allItems, List.append_nil] at hn
    exact X_submit_core s1 p false hk1 hx1 hn.2.1 (fun x hxp hxs => hn.2.2 x (by rw [← hsub]; exact hxs) x hxp rfl)
  | wait t id cancel =>
    simp only []
    split
    · exact X_passJoin s1 _ hx1
    · exact X_frame _ _ hx1 rfl rfl rfl rfl rfl rfl
  | shutdown t => cases hsd
  | fclear t => exact X_frame _ _ hx1 rfl rfl rfl rfl rfl rfl
  | fput t p =>
    simp only [allItems, List.append_nil] at hn
    have := X_submit_core s1 p s1.event hk1 hx1 hn.2.1 (fun x hxp hxs => hn.2.2 x (by rw [← hsub]; exact hxs) x hxp rfl)
    exact this

theorem allItems_cons (i : In) (r : List In) : allItems (i :: r) = allItems [i] ++ allItems r := by
  cases i <;> simp [allItems]

theorem KX_foldl : ∀ (ins : List In) (s : St), K s → X s → (∀ i ∈ ins, i.isShutdown = false) →
    (s.submitted ++ allItems ins).Nodup → K (ins.foldl applyIn s) ∧ X (ins.foldl applyIn s) := by
  intro ins
  induction ins with
  | nil => intro s hk hx _ _; exact ⟨hk, hx⟩
  | cons i r ih =>
    intro s hk hx hsd hn
    simp only [List.foldl_cons]
    rw [allItems_cons, ← List.append_assoc] at hn
    have hn1 : (s.submitted ++ allItems [i]).Nodup := (List.nodup_append.mp hn).1
    obtain ⟨a, b⟩ := KX_applyIn s i hk hx (hsd i (by simp)) hn1
    refine ih _ a b (fun j hj => hsd j (List.mem_cons_of_mem _ hj)) ?_
    rw [(applyIn_submitted s i (hsd i (by simp))).1]
    exact hn

theorem X_fresh (s : St) (h : Fresh s) : X s := by
  destruct_st s
  obtain ⟨a1, a2, a3, a4, a5, a6, a7, a8, a9, a10, a11, a12, a13, a14, a15⟩ := h
  dsimp only at *
  subst_vars
  constructor <;> simp [capItems, flat]

end AiutiVerif.Buffer
