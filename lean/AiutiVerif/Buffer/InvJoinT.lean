import AiutiVerif.Buffer.Inv0
/-! Preservation of the buffer invariant `K` by a `wait()` that has passed its join (one slice of the case analysis;
split over three files so that they build in parallel). -/
namespace AiutiVerif.Buffer

set_option maxHeartbeats 16000000 in
theorem passJoin_true (s : St) (w : Waiter) (h : K s) (hu : s.unfinished = 0) (hb : w.before ≤ s.submitted.length)
    (he : s.event = true) :
    K { s with outs := s.outs ++ [Out.waitRet w.id s.now], retLog := s.retLog ++ [(w.id, w.before)] } := by
  have hpc := (h.evRound he).1
  destruct_st s
  obtain ⟨h1, h2, h3, h4, h5, h6, h7, h8, h9, h10, h11, h12, h13, h14, h15, h16, h17, h18, h19, h20, h21⟩ := h
  dsimp only at *
  subst hu he
  rcases hpc with rfl | rfl <;> split_getting <;> close_k'

end AiutiVerif.Buffer
