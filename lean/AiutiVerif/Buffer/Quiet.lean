import AiutiVerif.Buffer.InvStep
/-!
# The quiet period (C08): the wrapped function is not called while submissions keep arriving

For programs whose producers are all immediate (plain calls, synchronous iterables) and that
contain no forced flush (`wait(cancel=True)`) and no shutdown: every call of the wrapped function
starts at an instant `t` such that no submission lies strictly inside `(t - T, t)` — all earlier
submissions are at least `T` old.  (A submission at exactly `t` is a tie, which the property does
not judge.)

Inputs arrive only when the daemon is at rest (`Ready`): `arrive` first lets every zero-time step
and every timed event due earlier happen (`settle` reaches a fixpoint within 5 steps), and inputs of
one instant follow each other without the daemon running in between.
-/
namespace AiutiVerif.Buffer

/-! ### `settle` reaches a fixpoint -/

def Pc.rank : Pc → Nat
  | .decide => 5
  | .runfunc => 4
  | .endround => 3
  | .idle => 2
  | .iter => 1
  | _ => 0

theorem cancelGetting_pc_loading (s : St) (w : Waiter) (u : Nat) (h : s.pc = Pc.loading u) :
    (cancelGetting s w).pc = Pc.loading u := by
  unfold cancelGetting
  split
  · split
    · simp [h]
    · exact h
  · exact h

theorem passJoin_pc_loading (s : St) (w : Waiter) (u : Nat) (h : s.pc = Pc.loading u) :
    (passJoin s w).pc = Pc.loading u := by
  unfold passJoin
  simp only []
  have := cancelGetting_pc_loading s w u h
  split <;> exact this

theorem foldl_passJoin_pc_loading (u : Nat) : ∀ (ws : List Waiter) (s : St), s.pc = Pc.loading u →
    (ws.foldl passJoin s).pc = Pc.loading u := by
  intro ws
  induction ws with
  | nil => intro s h; exact h
  | cons w r ih => intro s h; simp only [List.foldl_cons]; exact ih _ (passJoin_pc_loading s w u h)

theorem checkJoin_pc_loading (s : St) (u : Nat) (h : s.pc = Pc.loading u) : (checkJoin s).pc = Pc.loading u := by
  unfold checkJoin
  split
  · exact foldl_passJoin_pc_loading u _ _ h
  · exact h

theorem zstep_rank (s s' : St) (hz : zstep s = some s') : s'.pc.rank < s.pc.rank := by
  unfold zstep at hz
  split at hz
  · cases hz
  · cases hpc : s.pc with
    | idle =>
      simp only [hpc] at hz
      cases hq : s.queue with
      | nil => simp [hq] at hz
      | cons p rest => simp only [hq, Option.some.injEq] at hz; subst hz; simp [Pc.rank]
    | iter =>
      simp only [hpc, Option.some.injEq] at hz
      subst hz
      rw [checkJoin_pc_loading _ _ rfl]
      simp [Pc.rank]
    | decide =>
      simp only [hpc] at hz
      cases hg : s.getting with
      | none => simp [hg] at hz
      | some g =>
        simp only [hg] at hz
        cases hst : g.state <;> simp only [hst, Option.some.injEq] at hz <;> subst hz <;> simp [Pc.rank]
    | runfunc =>
      simp only [hpc] at hz
      split at hz <;> simp only [Option.some.injEq] at hz <;> subst hz <;> simp [Pc.rank, setEvent]
    | endround => simp only [hpc, Option.some.injEq] at hz; subst hz; simp [Pc.rank]
    | loading u => simp [hpc] at hz
    | awaitget => simp [hpc] at hz
    | loadcap u => simp [hpc] at hz
    | running u ok => simp [hpc] at hz

theorem settle_fix : ∀ (n : Nat) (s : St), s.pc.rank ≤ n → zstep (settle n s) = none := by
  intro n
  induction n with
  | zero =>
    intro s h
    unfold settle
    cases hz : zstep s with
    | none => rfl
    | some s' => have := zstep_rank s s' hz; omega
  | succ n ih =>
    intro s h
    unfold settle
    cases hz : zstep s with
    | none => simp [hz]
    | some s' =>
      simp only []
      exact ih s' (by have := zstep_rank s s' hz; omega)

theorem rank_le (p : Pc) : p.rank ≤ 5 := by cases p <;> simp [Pc.rank]

theorem settle_default_fix (s : St) : zstep (settle fuelDefault s) = none :=
  settle_fix fuelDefault s (Nat.le_trans (rank_le _) (by decide))


/-! ### inputs arrive when the daemon is at rest -/

def InputOk (s : St) : Prop :=
  s.pc ≠ Pc.runfunc ∧ s.pc ≠ Pc.iter ∧ s.pc ≠ Pc.endround ∧ (s.pc = Pc.decide → gstate s = some GState.got ∨ s.getting = none)

theorem inputOk_of_zstep_none (s : St) (hd : s.daemonEnded = false) (hz : zstep s = none) : InputOk s := by
  destruct_st s
  dsimp only at *
  subst hd
  unfold zstep at hz
  simp only [Bool.false_eq_true, if_false] at hz
  unfold InputOk gstate
  rcases getting with _ | ⟨dl, st, cap⟩ <;> (try cases st) <;> cases pc <;> simp_all
  all_goals (split at hz <;> simp_all)

theorem zstep_advance_none : ∀ (fuel t : Nat) (strict : Bool) (s : St), zstep (advance fuel t strict s) = none := by
  intro fuel
  induction fuel with
  | zero => intro t strict s; exact settle_default_fix s
  | succ n ih =>
    intro t strict s
    unfold advance
    simp only []
    split
    · exact settle_default_fix s
    · split
      · exact ih _ _ _
      · exact settle_default_fix s

theorem InputOk_now (s : St) (n : Nat) (b : Bool) (h : InputOk s) : InputOk { s with now := n, tie := b } := h

theorem arrive_InputOk (s : St) (t : Nat) (hk : K s) (h : InputOk s) : InputOk (arrive s t) := by
  unfold arrive
  split
  · exact h
  · exact InputOk_now _ _ _ (inputOk_of_zstep_none _ (advance_K _ _ _ _ hk).alive (zstep_advance_none _ _ _ _))


/-! ### the quiet-period invariant -/

def Pc.loadingUpto : Pc → Option Nat
  | .loading u => some u
  | _ => none

structure Q (s : St) : Prop where
  tpos : 0 < s.T
  immQ : ∀ p ∈ s.queue, pdur p = 0
  immG : ∀ p ∈ s.gens, pdur p = 0
  immC : ∀ g, s.getting = some g → pdur g.captured = 0
  armed : ∀ g, s.getting = some g → g.state = GState.pending → s.lastSub + s.T ≤ g.deadline
  firedD : s.pc = Pc.decide → gstate s = some GState.timedout → s.lastSub + s.T ≤ s.now
  firedR : s.pc = Pc.runfunc → s.lastSub + s.T ≤ s.now
  noCancel : gstate s ≠ some GState.cancelled
  loadArm : ∀ u g, s.pc = Pc.loading u → s.getting = some g → g.state = GState.pending → u < g.deadline
  loadFresh : ∀ u, s.pc = Pc.loading u → gstate s ≠ some GState.timedout
  noForceJ : ∀ w ∈ s.joiners, w.cancel = false
  noForceF : ∀ w ∈ s.flaggers, w.cancel = false
  subsLe : ∀ a ∈ s.subTimes, a ≤ s.lastSub
  lastLe : s.lastSub ≤ s.now
  startsQuiet : ∀ t a, Out.start t a ∈ s.outs → t ≤ s.now ∧ ∀ b ∈ s.subTimes, b + s.T ≤ t ∨ t ≤ b

theorem maxUntil_imm (now : Nat) : ∀ (gens : List Producer), (∀ p ∈ gens, pdur p = 0) → maxUntil now gens = now := by
  intro gens h
  unfold maxUntil
  suffices ∀ (m : Nat), m = now → gens.foldl (fun m p => max m (now + pdur p)) m = now from this now rfl
  induction gens with
  | nil => intro m hm; simpa using hm
  | cons p r ih =>
    intro m hm
    simp only [List.foldl_cons]
    apply ih (fun q hq => h q (List.mem_cons_of_mem _ hq))
    rw [h p (by simp), hm]; simp

macro "unfold_q" : tactic => `(tactic|
  simp only [gstate, Option.map_some, Option.map_none, List.mem_append, List.mem_cons, List.not_mem_nil, false_or,
    or_false, reduceCtorEq, ne_eq, not_true_eq_false, not_false_eq_true, Option.some.injEq, false_implies,
    implies_true, true_implies, and_true, true_and, forall_const, forall_eq', forall_eq, List.mem_singleton,
    List.mem_map, Pc.loading.injEq, Bool.false_eq_true] at *)

macro "close_q" : tactic => `(tactic|
  (constructor <;> (try unfold_q) <;> (try subst_vars) <;> (try unfold_q) <;> intros <;> grind))

theorem cancelGetting_noop (s : St) (w : Waiter) (h : w.cancel = false) : cancelGetting s w = s := by
  unfold cancelGetting
  split
  · simp [h]
  · rfl


set_option hygiene false in
macro "open_kq" : tactic => `(tactic|
  (obtain ⟨k1, k2, k3, k4, k5, k6, k7, k8, k9, k10, k11, k12, k13, k14, k15, k16, k17, k18, k19, k20, k21⟩ := hk
   obtain ⟨q1, q2, q3, q4, q5, q6, q7, q8, q9, q10, q11, q12, q13, q14, q15⟩ := hq
   clear k2 k3 k17 k18 k19 k20 k15 k13 k14
   try simp only [Held, InRound, capItems, capOpen, Pc.roundEnd, Pc.isLoading, Pc.isLoadcap, Pc.isRunning] at *
   try dsimp only at *))

set_option maxHeartbeats 16000000 in
theorem Q_zstep_idle (s : St) (p : Producer) (rest : List Producer) (hk : K s) (hq : Q s) (hpc : s.pc = Pc.idle)
    (hqu : s.queue = p :: rest) :
    Q { s with queue := rest, event := false, unfinished := s.unfinished - 1, gens := [p], pc := .iter } := by
  destruct_st s
  open_kq
  subst hpc hqu
  split_getting <;> close_q


set_option maxHeartbeats 16000000 in
theorem Q_zstep_iter_core (s : St) (hk : K s) (hq : Q s) (hpc : s.pc = Pc.iter) :
    Q { s with queue := [], unfinished := s.unfinished - s.queue.length, gens := [],
               getting := some { deadline := s.now + s.T, state := .pending, captured := [] },
               pendingItems := ((s.gens ++ s.queue).map pitems).flatten,
               pc := .loading (maxUntil s.now (s.gens ++ s.queue)) } := by
  have hm : maxUntil s.now (s.gens ++ s.queue) = s.now := by
    apply maxUntil_imm
    intro p hp
    rcases List.mem_append.mp hp with h | h
    · exact hq.immG p h
    · exact hq.immQ p h
  rw [hm]
  destruct_st s
  open_kq
  subst hpc
  split_getting <;> (constructor <;> (try unfold_q) <;> (try subst_vars) <;> (try unfold_q) <;> intros <;>
    (try simp only [pdur]) <;> grind)

theorem Q_passJoin (s : St) (w : Waiter) (hq : Q s) (hw : w.cancel = false) : Q (passJoin s w) := by
  unfold passJoin
  simp only []
  rw [cancelGetting_noop s w hw]
  obtain ⟨q1, q2, q3, q4, q5, q6, q7, q8, q9, q10, q11, q12, q13, q14, q15⟩ := hq
  split
  · refine ⟨q1, q2, q3, q4, q5, q6, q7, q8, q9, q10, q11, q12, q13, q14, ?_⟩
    intro t a h
    simp only [List.mem_append, List.mem_singleton, reduceCtorEq, or_false] at h
    exact q15 t a h
  · refine ⟨q1, q2, q3, q4, q5, q6, q7, q8, q9, q10, q11, ?_, q13, q14, q15⟩
    intro w' hw'
    rcases List.mem_append.mp hw' with h | h
    · exact q12 w' h
    · simp only [List.mem_singleton] at h; subst h; exact hw

theorem passJoin_joiners (s : St) (w : Waiter) : (passJoin s w).joiners = s.joiners := (passJoin_frame s w).2.2

theorem Q_foldl_passJoin : ∀ (ws : List Waiter) (s : St), Q s → (∀ w ∈ ws, w.cancel = false) → Q (ws.foldl passJoin s) := by
  intro ws
  induction ws with
  | nil => intro s h _; exact h
  | cons w r ih =>
    intro s h hw
    simp only [List.foldl_cons]
    exact ih _ (Q_passJoin s w h (hw w (by simp))) (fun w' hw' => hw w' (List.mem_cons_of_mem _ hw'))

theorem Q_checkJoin (s : St) (hq : Q s) : Q (checkJoin s) := by
  unfold checkJoin
  split
  · refine Q_foldl_passJoin s.joiners _ ?_ hq.noForceJ
    obtain ⟨q1, q2, q3, q4, q5, q6, q7, q8, q9, q10, q11, q12, q13, q14, q15⟩ := hq
    exact ⟨q1, q2, q3, q4, q5, q6, q7, q8, q9, q10, (fun w hw => by cases hw), q12, q13, q14, q15⟩
  · exact hq

set_option maxHeartbeats 16000000 in
theorem Q_zstep_decide (s : St) (g : Getting) (hk : K s) (hq : Q s) (hpc : s.pc = Pc.decide) (hg : s.getting = some g) :
    Q (match g.state with
       | .got => { s with pc := .loadcap (s.now + pdur g.captured), pendingItems := pitems g.captured }
       | .timedout => { s with pc := .runfunc }
       | .cancelled => { s with pc := .runfunc }
       | .pending => { s with pc := .awaitget }) := by
  destruct_st s
  open_kq
  subst hpc hg
  obtain ⟨dl, st, cap⟩ := g
  cases st <;> dsimp only <;> close_q

set_option maxHeartbeats 16000000 in
theorem Q_zstep_runfunc_empty (s : St) (hk : K s) (hq : Q s) (hpc : s.pc = Pc.runfunc) :
    Q { setEvent s with pc := .endround } := by
  unfold setEvent
  destruct_st s
  open_kq
  subst hpc
  split_getting <;> close_q

set_option maxHeartbeats 16000000 in
theorem Q_zstep_runfunc_call (s : St) (hk : K s) (hq : Q s) (hpc : s.pc = Pc.runfunc) (u : Nat) (ok : Bool) :
    Q { s with ninv := s.ninv + 1, outs := s.outs ++ [Out.start s.now (sortNat s.inputs)], pc := .running u ok } := by
  destruct_st s
  open_kq
  subst hpc
  split_getting <;> close_q

set_option maxHeartbeats 16000000 in
theorem Q_zstep_endround (s : St) (hk : K s) (hq : Q s) (hpc : s.pc = Pc.endround) : Q { s with pc := .idle } := by
  destruct_st s
  open_kq
  subst hpc
  split_getting <;> close_q

theorem Q_zstep (s s' : St) (hk : K s) (hq : Q s) (hz : zstep s = some s') : Q s' := by
  unfold zstep at hz
  split at hz
  · cases hz
  · cases hpc : s.pc with
    | idle =>
      simp only [hpc] at hz
      cases hqu : s.queue with
      | nil => simp [hqu] at hz
      | cons p rest =>
        simp only [hqu, Option.some.injEq] at hz
        subst hz
        exact Q_zstep_idle s p rest hk hq hpc hqu
    | iter =>
      simp only [hpc, Option.some.injEq] at hz
      subst hz
      exact Q_checkJoin _ (Q_zstep_iter_core s hk hq hpc)
    | decide =>
      simp only [hpc] at hz
      cases hg : s.getting with
      | none => simp [hg] at hz
      | some g =>
        simp only [hg] at hz
        have := Q_zstep_decide s g hk hq hpc hg
        cases hst : g.state <;> simp only [hst, Option.some.injEq] at hz this <;> subst hz <;> (rw [hg] at this; exact this)
    | runfunc =>
      simp only [hpc] at hz
      split at hz
      · simp only [Option.some.injEq] at hz
        subst hz
        exact Q_zstep_runfunc_empty s hk hq hpc
      · simp only [Option.some.injEq] at hz
        subst hz
        exact Q_zstep_runfunc_call s hk hq hpc _ _
    | endround =>
      simp only [hpc, Option.some.injEq] at hz
      subst hz
      exact Q_zstep_endround s hk hq hpc
    | loading u => simp [hpc] at hz
    | awaitget => simp [hpc] at hz
    | loadcap u => simp [hpc] at hz
    | running u ok => simp [hpc] at hz

theorem KQ_settle : ∀ (fuel : Nat) (s : St), K s → Q s → K (settle fuel s) ∧ Q (settle fuel s) := by
  intro fuel
  induction fuel with
  | zero => intro s hk hq; exact ⟨hk, hq⟩
  | succ n ih =>
    intro s hk hq
    unfold settle
    cases hz : zstep s with
    | none => exact ⟨hk, hq⟩
    | some s' => exact ih s' (zstep_K s s' hk hz) (Q_zstep s s' hk hq hz)


/-! ### timed events -/

theorem nextTimed_spec0 (s : St) (when : Nat) (hn : nextTimed s = some (when, 0)) :
    ∃ g, s.getting = some g ∧ g.state = GState.pending ∧ when = g.deadline ∧ ∀ u, s.pc = Pc.loading u → g.deadline ≤ u := by
  destruct_st s
  unfold nextTimed at hn
  dsimp only at *
  rcases getting with _ | ⟨dl, st, cap⟩ <;> (try cases st) <;> cases pc <;> cases daemonEnded <;>
    simp at hn ⊢ <;> (try split at hn) <;> simp_all <;> omega

set_option maxHeartbeats 16000000 in
theorem Q_fireTimed0 (s : St) (when : Nat) (g : Getting) (hk : K s) (hq : Q s) (hg : s.getting = some g)
    (hs : g.state = GState.pending) (hw : when = g.deadline) (hl : ∀ u, s.pc = Pc.loading u → g.deadline ≤ u) :
    Q (fireTimed s when 0) := by
  unfold fireTimed
  destruct_st s
  open_kq
  subst hg
  obtain ⟨dl, st, cap⟩ := g
  dsimp only at hs hw hl
  subst hs hw
  simp only [↓reduceIte]
  cases pc <;> simp only [reduceCtorEq, ↓reduceIte] <;> close_q

set_option maxHeartbeats 16000000 in
theorem Q_fireTimed1_loading (s : St) (when u : Nat) (hk : K s) (hq : Q s) (hpc : s.pc = Pc.loading u) :
    Q (fireTimed s when 1) := by
  unfold fireTimed
  destruct_st s
  open_kq
  subst hpc
  simp only [Nat.one_ne_zero, ↓reduceIte]
  split_getting <;> close_q

set_option maxHeartbeats 16000000 in
theorem Q_fireTimed1_loadcap (s : St) (when u : Nat) (hk : K s) (hq : Q s) (hpc : s.pc = Pc.loadcap u) :
    Q (fireTimed s when 1) := by
  unfold fireTimed
  destruct_st s
  open_kq
  subst hpc
  simp only [Nat.one_ne_zero, ↓reduceIte]
  split_getting <;> close_q

set_option maxHeartbeats 16000000 in
theorem Q_fireTimed1_running (s : St) (when u : Nat) (ok : Bool) (hk : K s) (hq : Q s) (hpc : s.pc = Pc.running u ok) :
    Q (fireTimed s when 1) := by
  unfold fireTimed setEvent
  destruct_st s
  open_kq
  subst hpc
  simp only [Nat.one_ne_zero, ↓reduceIte]
  cases ok <;> simp only [Bool.false_eq_true, ↓reduceIte] <;> split_getting <;> close_q

theorem Q_fireTimed (s : St) (when kind : Nat) (hk : K s) (hq : Q s) (hn : nextTimed s = some (when, kind)) :
    Q (fireTimed s when kind) := by
  rcases nextTimed_spec s when kind hn with ⟨rfl, _⟩ | ⟨rfl, ⟨u, hpc⟩ | ⟨u, hpc⟩ | ⟨u, ok, hpc⟩⟩
  · obtain ⟨g, hg, hs, hw, hl⟩ := nextTimed_spec0 s when hn
    exact Q_fireTimed0 s when g hk hq hg hs hw hl
  · exact Q_fireTimed1_loading s when u hk hq hpc
  · exact Q_fireTimed1_loadcap s when u hk hq hpc
  · exact Q_fireTimed1_running s when u ok hk hq hpc

theorem KQ_advance : ∀ (fuel t : Nat) (strict : Bool) (s : St), K s → Q s →
    K (advance fuel t strict s) ∧ Q (advance fuel t strict s) := by
  intro fuel
  induction fuel with
  | zero => intro t strict s hk hq; exact KQ_settle fuelDefault s hk hq
  | succ n ih =>
    intro t strict s hk hq
    unfold advance
    simp only []
    obtain ⟨hk1, hq1⟩ := KQ_settle fuelDefault s hk hq
    split
    · exact ⟨hk1, hq1⟩
    · rename_i when kind hn
      split
      · exact ih t strict _ (fireTimed_K _ when kind hk1 hn) (Q_fireTimed _ when kind hk1 hq1 hn)
      · exact ⟨hk1, hq1⟩


/-! ### inputs -/

theorem Q_now (s : St) (n : Nat) (b : Bool) (hq : Q s) (hn : s.now ≤ n) : Q { s with now := n, tie := b } := by
  obtain ⟨q1, q2, q3, q4, q5, q6, q7, q8, q9, q10, q11, q12, q13, q14, q15⟩ := hq
  refine ⟨q1, q2, q3, q4, q5, ?_, ?_, q8, q9, q10, q11, q12, q13, ?_, ?_⟩
  · intro h1 h2; exact Nat.le_trans (q6 h1 h2) hn
  · intro h1; exact Nat.le_trans (q7 h1) hn
  · exact Nat.le_trans q14 hn
  · intro t a h; exact ⟨Nat.le_trans (q15 t a h).1 hn, (q15 t a h).2⟩

theorem cancelGetting_now (s : St) (w : Waiter) : (cancelGetting s w).now = s.now := by
  unfold cancelGetting
  split
  · split <;> rfl
  · rfl

theorem passJoin_now (s : St) (w : Waiter) : (passJoin s w).now = s.now := by
  unfold passJoin
  simp only []
  split <;> exact cancelGetting_now s w

theorem foldl_passJoin_now : ∀ (ws : List Waiter) (s : St), (ws.foldl passJoin s).now = s.now := by
  intro ws
  induction ws with
  | nil => intro s; rfl
  | cons w r ih => intro s; simp only [List.foldl_cons]; rw [ih, passJoin_now]

theorem checkJoin_now (s : St) : (checkJoin s).now = s.now := by
  unfold checkJoin
  split
  · rw [foldl_passJoin_now]
  · rfl

theorem zstep_now (s s' : St) (hz : zstep s = some s') : s'.now = s.now := by
  unfold zstep at hz
  split at hz
  · cases hz
  · cases hpc : s.pc with
    | idle =>
      simp only [hpc] at hz
      cases hq : s.queue with
      | nil => simp [hq] at hz
      | cons p rest => simp only [hq, Option.some.injEq] at hz; subst hz; rfl
    | iter =>
      simp only [hpc, Option.some.injEq] at hz
      subst hz
      rw [checkJoin_now]
    | decide =>
      simp only [hpc] at hz
      cases hg : s.getting with
      | none => simp [hg] at hz
      | some g =>
        simp only [hg] at hz
        cases hst : g.state <;> simp only [hst, Option.some.injEq] at hz <;> subst hz <;> rfl
    | runfunc =>
      simp only [hpc] at hz
      split at hz <;> simp only [Option.some.injEq] at hz <;> subst hz <;> rfl
    | endround => simp only [hpc, Option.some.injEq] at hz; subst hz; rfl
    | loading u => simp [hpc] at hz
    | awaitget => simp [hpc] at hz
    | loadcap u => simp [hpc] at hz
    | running u ok => simp [hpc] at hz

theorem settle_now : ∀ (n : Nat) (s : St), (settle n s).now = s.now := by
  intro n
  induction n with
  | zero => intro s; rfl
  | succ m ih =>
    intro s
    unfold settle
    cases hz : zstep s with
    | none => rfl
    | some s' => simp only []; rw [ih, zstep_now s s' hz]

theorem fireTimed_now (s : St) (when kind : Nat) : (fireTimed s when kind).now = max s.now when := by
  unfold fireTimed
  simp only []
  split
  · split <;> rfl
  · split
    · rfl
    · rfl
    · rename_i u ok _
      cases ok <;> rfl
    · rfl

theorem advance_now_le : ∀ (fuel t : Nat) (strict : Bool) (s : St), s.now ≤ t → (advance fuel t strict s).now ≤ t := by
  intro fuel
  induction fuel with
  | zero => intro t strict s h; show (settle fuelDefault s).now ≤ t; rw [settle_now]; exact h
  | succ n ih =>
    intro t strict s h
    unfold advance
    simp only []
    split
    · rw [settle_now]; exact h
    · rename_i when kind hn
      split
      · rename_i hdue
        apply ih
        rw [fireTimed_now, settle_now]
        rcases hdue with h1 | ⟨_, h2⟩ <;> omega
      · rw [settle_now]; exact h

theorem KQ_arrive (s : St) (t : Nat) (hk : K s) (hq : Q s) : K (arrive s t) ∧ Q (arrive s t) := by
  refine ⟨arrive_K s t hk, ?_⟩
  unfold arrive
  split
  · exact hq
  · rename_i hlt
    obtain ⟨_, hq1⟩ := KQ_advance fuelDefault t true s hk hq
    exact Q_now _ _ _ hq1 (advance_now_le _ _ _ _ (by omega))


set_option maxHeartbeats 32000000 in
theorem Q_submit_core (s : St) (p : Producer) (hk : K s) (hq : Q s) (hi : InputOk s) (hp : pdur p = 0) :
    Q (let s := { s with event := false, unfinished := s.unfinished + 1, submitted := s.submitted ++ pitems p, subTimes := s.subTimes ++ [s.now], lastSub := s.now }
       if s.pc = Pc.idle then { s with queue := s.queue ++ [p] }
       else match s.getting with
         | some g =>
           if g.state = GState.pending then
             { s with getting := some { g with state := .got, captured := p },
                      pc := if s.pc = Pc.awaitget then Pc.decide else s.pc }
           else { s with queue := s.queue ++ [p] }
         | none => { s with queue := s.queue ++ [p] }) := by
  destruct_st s
  obtain ⟨i1, i2, i3, i4⟩ := hi
  open_kq
  split_getting <;> cases pc <;> simp only [reduceCtorEq, ↓reduceIte] <;> close_q

theorem InputOk_submit_core (s : St) (p : Producer) (hi : InputOk s) :
    InputOk (let s := { s with event := false, unfinished := s.unfinished + 1, submitted := s.submitted ++ pitems p, subTimes := s.subTimes ++ [s.now], lastSub := s.now }
       if s.pc = Pc.idle then { s with queue := s.queue ++ [p] }
       else match s.getting with
         | some g =>
           if g.state = GState.pending then
             { s with getting := some { g with state := .got, captured := p },
                      pc := if s.pc = Pc.awaitget then Pc.decide else s.pc }
           else { s with queue := s.queue ++ [p] }
         | none => { s with queue := s.queue ++ [p] }) := by
  destruct_st s
  unfold InputOk gstate at *
  dsimp only at *
  rcases getting with _ | ⟨dl, st, cap⟩ <;> (try cases st) <;> cases pc <;> simp_all

theorem KQI_wait (s : St) (t id : Nat) (hk : K s) (hq : Q s) (hi : InputOk s) :
    let w : Waiter := { id := id, cancel := false, before := s.submitted.length }
    let s' := if s.unfinished = 0 then passJoin s w else { s with joiners := s.joiners ++ [w] }
    Q s' ∧ InputOk s' := by
  intro w s'
  show Q (if s.unfinished = 0 then passJoin s w else { s with joiners := s.joiners ++ [w] }) ∧
       InputOk (if s.unfinished = 0 then passJoin s w else { s with joiners := s.joiners ++ [w] })
  split
  · refine ⟨Q_passJoin s w hq rfl, ?_⟩
    unfold passJoin
    simp only []
    rw [cancelGetting_noop s w rfl]
    split <;> exact hi
  · refine ⟨?_, hi⟩
    obtain ⟨q1, q2, q3, q4, q5, q6, q7, q8, q9, q10, q11, q12, q13, q14, q15⟩ := hq
    refine ⟨q1, q2, q3, q4, q5, q6, q7, q8, q9, q10, ?_, q12, q13, q14, q15⟩
    intro w' hw'
    rcases List.mem_append.mp hw' with h | h
    · exact q11 w' h
    · simp only [List.mem_singleton] at h; subst h; rfl

/-- the programs the quiet-period clause speaks about: immediately available arguments, no forced
flush, no shutdown, no foreign threads -/
def QuietIn : In → Prop
  | .submit _ p => pdur p = 0
  | .wait _ _ cancel => cancel = false
  | _ => False

theorem KQI_applyIn (s : St) (i : In) (hk : K s) (hq : Q s) (hi : InputOk s) (hin : QuietIn i) :
    K (applyIn s i) ∧ Q (applyIn s i) ∧ InputOk (applyIn s i) := by
  have hsd : i.isShutdown = false := by cases i <;> simp_all [QuietIn, In.isShutdown]
  refine ⟨applyIn_K s i hk hsd, ?_⟩
  unfold applyIn
  obtain ⟨hk1, hq1⟩ := KQ_arrive s i.time hk hq
  have hi1 := arrive_InputOk s i.time hk hi
  generalize arrive s i.time = s1 at hk1 hq1 hi1
  cases i with
  | submit t p => exact ⟨Q_submit_core s1 p hk1 hq1 hi1 hin, InputOk_submit_core s1 p hi1⟩
  | wait t id cancel =>
    have : cancel = false := hin
    subst this
    exact KQI_wait s1 t id hk1 hq1 hi1
  | shutdown t => cases hin
  | fclear t => cases hin
  | fput t p => cases hin

theorem KQI_foldl : ∀ (ins : List In) (s : St), K s → Q s → InputOk s → (∀ i ∈ ins, QuietIn i) →
    K (ins.foldl applyIn s) ∧ Q (ins.foldl applyIn s) ∧ InputOk (ins.foldl applyIn s) := by
  intro ins
  induction ins with
  | nil => intro s hk hq hi _; exact ⟨hk, hq, hi⟩
  | cons i r ih =>
    intro s hk hq hi hin
    simp only [List.foldl_cons]
    obtain ⟨a, b, c⟩ := KQI_applyIn s i hk hq hi (hin i (by simp))
    exact ih _ a b c (fun j hj => hin j (List.mem_cons_of_mem _ hj))

theorem Q_fresh (s : St) (h : Fresh s) (ht : 0 < s.T) (hl : s.lastSub = 0) (hs : s.subTimes = []) : Q s := by
  destruct_st s
  obtain ⟨a1, a2, a3, a4, a5, a6, a7, a8, a9, a10, a11, a12, a13, a14, a15⟩ := h
  dsimp only at *
  subst_vars
  constructor <;> simp_all [gstate]

theorem InputOk_fresh (s : St) (h : Fresh s) : InputOk s := by
  obtain ⟨a1, a2, a3, a4, a5, a6, a7, a8, a9, a10, a11, a12, a13, a14, a15⟩ := h
  unfold InputOk
  rw [a5]
  simp


/-! ### the timeout is a constant of the machine -/

theorem cancelGetting_T (s : St) (w : Waiter) : (cancelGetting s w).T = s.T := by
  unfold cancelGetting
  split
  · split <;> rfl
  · rfl

theorem passJoin_T (s : St) (w : Waiter) : (passJoin s w).T = s.T := by
  unfold passJoin
  simp only []
  split <;> exact cancelGetting_T s w

theorem foldl_passJoin_T : ∀ (ws : List Waiter) (s : St), (ws.foldl passJoin s).T = s.T := by
  intro ws
  induction ws with
  | nil => intro s; rfl
  | cons w r ih => intro s; simp only [List.foldl_cons]; rw [ih, passJoin_T]

theorem checkJoin_T (s : St) : (checkJoin s).T = s.T := by
  unfold checkJoin
  split
  · rw [foldl_passJoin_T]
  · rfl

theorem zstep_T (s s' : St) (hz : zstep s = some s') : s'.T = s.T := by
  unfold zstep at hz
  split at hz
  · cases hz
  · cases hpc : s.pc with
    | idle =>
      simp only [hpc] at hz
      cases hq : s.queue with
      | nil => simp [hq] at hz
      | cons p rest => simp only [hq, Option.some.injEq] at hz; subst hz; rfl
    | iter =>
      simp only [hpc, Option.some.injEq] at hz
      subst hz
      rw [checkJoin_T]
    | decide =>
      simp only [hpc] at hz
      cases hg : s.getting with
      | none => simp [hg] at hz
      | some g =>
        simp only [hg] at hz
        cases hst : g.state <;> simp only [hst, Option.some.injEq] at hz <;> subst hz <;> rfl
    | runfunc =>
      simp only [hpc] at hz
      split at hz <;> simp only [Option.some.injEq] at hz <;> subst hz <;> rfl
    | endround => simp only [hpc, Option.some.injEq] at hz; subst hz; rfl
    | loading u => simp [hpc] at hz
    | awaitget => simp [hpc] at hz
    | loadcap u => simp [hpc] at hz
    | running u ok => simp [hpc] at hz

theorem settle_T : ∀ (n : Nat) (s : St), (settle n s).T = s.T := by
  intro n
  induction n with
  | zero => intro s; rfl
  | succ m ih =>
    intro s
    unfold settle
    cases hz : zstep s with
    | none => rfl
    | some s' => simp only []; rw [ih, zstep_T s s' hz]

theorem fireTimed_T (s : St) (when kind : Nat) : (fireTimed s when kind).T = s.T := by
  unfold fireTimed
  simp only []
  split
  · split <;> rfl
  · split
    · rfl
    · rfl
    · rename_i u ok _
      cases ok <;> rfl
    · rfl

theorem advance_T : ∀ (fuel t : Nat) (strict : Bool) (s : St), (advance fuel t strict s).T = s.T := by
  intro fuel
  induction fuel with
  | zero => intro t strict s; show (settle fuelDefault s).T = s.T; rw [settle_T]
  | succ n ih =>
    intro t strict s
    unfold advance
    simp only []
    split
    · rw [settle_T]
    · split
      · rw [ih, fireTimed_T, settle_T]
      · rw [settle_T]

theorem arrive_T (s : St) (t : Nat) : (arrive s t).T = s.T := by
  unfold arrive
  split
  · rfl
  · simp only []; rw [advance_T]

theorem cancelDaemon_T (s : St) : (cancelDaemon s).T = s.T := by
  unfold cancelDaemon
  simp only []
  split <;> (try rfl)
  split <;> rfl

theorem applyIn_T (s : St) (i : In) : (applyIn s i).T = s.T := by
  unfold applyIn
  have ha := arrive_T s i.time
  generalize arrive s i.time = s1 at ha
  cases i with
  | submit t p =>
    simp only []
    split
    · exact ha
    · split
      · split <;> exact ha
      · exact ha
  | wait t id cancel =>
    simp only []
    split
    · rw [passJoin_T]; exact ha
    · exact ha
  | shutdown t => simp only []; rw [cancelDaemon_T, settle_T]; exact ha
  | fclear t => exact ha
  | fput t p =>
    simp only []
    split
    · exact ha
    · split
      · split <;> exact ha
      · exact ha

theorem foldl_applyIn_T : ∀ (ins : List In) (s : St), (ins.foldl applyIn s).T = s.T := by
  intro ins
  induction ins with
  | nil => intro s; rfl
  | cons i r ih => intro s; simp only [List.foldl_cons]; rw [ih, applyIn_T]

theorem runProgram_T (s : St) (ins : List In) : (runProgram s ins).T = s.T := by
  unfold runProgram
  rw [advance_T, foldl_applyIn_T]

end AiutiVerif.Buffer
