import AiutiVerif.Buffer.Model
/-!
# Run-level invariant of the buffer machine (C03 conservation, C07 barrier)

For **every** program of timed inputs without a shutdown (the shutdown clause is C07's known
finding F5), at every instant:

* *conservation* — every element a submitted producer yields is in exactly the places the
  code keeps it: still queued, among the loaders of the next iteration, captured by the timed
  read, being loaded, in the round's input set, or delivered by a successful call; and nothing
  else is ever there (`only`);
* *barrier* — a `wait()` returns only when everything submitted before it was called has been
  delivered by a successful call (`retLog`), because the queue's unfinished count is exactly
  "queued + captured-and-not-yet-loaded" and the flag is set only with an empty round.
-/
namespace AiutiVerif.Buffer

def flat (l : List Producer) : List Nat := (l.map pitems).flatten

def gstate (s : St) : Option GState := s.getting.map (·.state)

/-- what the timed read has captured (kept until the next timed read is created) -/
def capItems (s : St) : List Nat :=
  match s.getting with
  | some g => if g.state = GState.got then pitems g.captured else []
  | none => []

/-- captured, and `task_done()` for it has not been called yet -/
def capOpen (s : St) : Bool :=
  match s.getting with
  | some g => g.state == GState.got && s.pc != Pc.iter
  | none => false

def Pc.roundEnd : Pc → Bool
  | .runfunc | .running _ _ | .endround | .idle => true
  | _ => false

def Pc.isLoading : Pc → Bool
  | .loading _ | .loadcap _ => true
  | _ => false

def Pc.isLoadcap : Pc → Bool
  | .loadcap _ => true
  | _ => false

def Pc.isRunning : Pc → Bool
  | .running _ _ => true
  | _ => false

/-- What the output stream says has been delivered: the arguments of the calls that returned
successfully, and the arguments of the call in flight. -/
def stepOut (acc : List Nat × Option (List Nat)) : Out → List Nat × Option (List Nat)
  | .start _ a => (acc.1, some a)
  | .fin _ true => (acc.1 ++ acc.2.getD [], none)
  | .fin _ false => (acc.1, none)
  | .waitRet _ _ => acc

def deliveredOf (outs : List Out) : List Nat × Option (List Nat) := outs.foldl stepOut ([], none)

/-- Calls are serial: `some inflight` while no `start` has been seen with a call still in flight
and no `fin` without one. -/
def stepSerial (acc : Option Bool) : Out → Option Bool
  | .start _ _ => match acc with
    | some false => some true
    | _ => none
  | .fin _ _ => match acc with
    | some true => some false
    | _ => none
  | .waitRet _ _ => acc

def serial (outs : List Out) : Option Bool := outs.foldl stepSerial (some false)

/-- the `wait()` calls that returned, in order -/
def waitIds (outs : List Out) : List Nat :=
  outs.filterMap fun o => match o with
    | .waitRet id _ => some id
    | _ => none

/-- the places an element can be -/
def Held (s : St) (x : Nat) : Prop :=
  x ∈ flat s.queue ∨ x ∈ flat s.gens ∨ x ∈ capItems s ∨ x ∈ s.pendingItems ∨ x ∈ s.inputs ∨ x ∈ s.delivered

/-- … of which these belong to the current round (already taken from the queue) -/
def InRound (s : St) (x : Nat) : Prop :=
  x ∈ flat s.gens ∨ x ∈ s.pendingItems ∨ x ∈ s.inputs ∨ x ∈ s.delivered

structure K (s : St) : Prop where
  alive : s.daemonEnded = false
  conserve : ∀ x ∈ s.submitted, Held s x
  only : ∀ x, Held s x → x ∈ s.submitted
  gensIter : s.pc ≠ Pc.iter → s.gens = []
  pendPc : s.pc.isLoading = false → s.pendingItems = []
  capDone : s.pc = Pc.iter → ∀ x ∈ capItems s, x ∈ s.inputs
  capLoad : s.pc.isLoadcap = true → gstate s = some GState.got ∧ s.pendingItems = capItems s
  quietPc : s.pc.roundEnd = true → gstate s ≠ some GState.got ∧ gstate s ≠ some GState.pending
  iterNotPending : s.pc = Pc.iter → gstate s ≠ some GState.pending
  -- barrier
  unfin : s.unfinished = s.queue.length + (if capOpen s then 1 else 0)
  evRound : s.event = true → (s.pc = Pc.idle ∨ s.pc = Pc.endround) ∧ s.inputs = []
  flagEv : s.flaggers ≠ [] → s.event = false
  flagOk : ∀ w ∈ s.flaggers, w.before ≤ s.submitted.length ∧ ∀ x ∈ s.submitted.take w.before, InRound s x
  joinOk : ∀ w ∈ s.joiners, w.before ≤ s.submitted.length
  retOk : ∀ r ∈ s.retLog, r.2 ≤ s.submitted.length ∧ ∀ x ∈ s.submitted.take r.2, x ∈ s.delivered
  -- the round's input set is empty between rounds
  idleInputs : (s.pc = Pc.idle ∨ s.pc = Pc.endround) → s.inputs = []
  -- the ghosts and the output stream tell the same story
  outsDeliv : (deliveredOf s.outs).1 = s.delivered
  outsCur : (deliveredOf s.outs).2 = (if s.pc.isRunning then some (sortNat s.inputs) else none)
  outsWaits : waitIds s.outs = s.retLog.map (·.1)
  -- calls of the wrapped function are serial and never empty
  serialOk : serial s.outs = some s.pc.isRunning
  startsOk : ∀ t a, Out.start t a ∈ s.outs → a ≠ []

/-! ### list facts -/

theorem flat_nil : flat [] = [] := rfl
theorem flat_cons (p : Producer) (r : List Producer) : flat (p :: r) = pitems p ++ flat r := by
  simp [flat]
theorem flat_append (a b : List Producer) : flat (a ++ b) = flat a ++ flat b := by
  simp [flat]

theorem mem_addInputs (xs : List Nat) : ∀ (acc : List Nat) (x : Nat), x ∈ addInputs acc xs ↔ x ∈ acc ∨ x ∈ xs := by
  induction xs with
  | nil => intro acc x; simp [addInputs]
  | cons y r ih =>
    intro acc x
    unfold addInputs
    simp only [List.foldl_cons]
    have := ih (if acc.contains y then acc else acc ++ [y]) x
    unfold addInputs at this
    rw [this]
    by_cases hc : acc.contains y = true
    · simp only [hc, if_true, List.mem_cons]
      have hy : y ∈ acc := by simpa using hc
      constructor
      · rintro (h | h)
        · exact Or.inl h
        · exact Or.inr (Or.inr h)
      · rintro (h | h | h)
        · exact Or.inl h
        · subst h; exact Or.inl hy
        · exact Or.inr h
    · have hc' : acc.contains y = false := by simpa using hc
      simp only [hc', Bool.false_eq_true, if_false, List.mem_append, List.mem_singleton, List.mem_cons, List.not_mem_nil, or_false]
      constructor
      · rintro ((h | h) | h)
        · exact Or.inl h
        · exact Or.inr (Or.inl h)
        · exact Or.inr (Or.inr h)
      · rintro (h | h | h)
        · exact Or.inl (Or.inl h)
        · exact Or.inl (Or.inr h)
        · exact Or.inr h


theorem deliveredOf_snoc (outs : List Out) (o : Out) : deliveredOf (outs ++ [o]) = stepOut (deliveredOf outs) o := by
  simp [deliveredOf, List.foldl_append]

theorem deliveredOf_waits (ws : List Waiter) (t : Nat) : ∀ (outs : List Out),
    deliveredOf (outs ++ ws.map fun w => Out.waitRet w.id t) = deliveredOf outs := by
  induction ws with
  | nil => intro outs; simp
  | cons w r ih =>
    intro outs
    have : outs ++ List.map (fun w => Out.waitRet w.id t) (w :: r) =
        (outs ++ [Out.waitRet w.id t]) ++ List.map (fun w => Out.waitRet w.id t) r := by simp
    rw [this, ih, deliveredOf_snoc]
    rfl

theorem serial_snoc (outs : List Out) (o : Out) : serial (outs ++ [o]) = stepSerial (serial outs) o := by
  simp [serial, List.foldl_append]

theorem serial_waits (ws : List Waiter) (t : Nat) : ∀ (outs : List Out),
    serial (outs ++ ws.map fun w => Out.waitRet w.id t) = serial outs := by
  induction ws with
  | nil => intro outs; simp
  | cons w r ih =>
    intro outs
    have : outs ++ List.map (fun w => Out.waitRet w.id t) (w :: r) =
        (outs ++ [Out.waitRet w.id t]) ++ List.map (fun w => Out.waitRet w.id t) r := by simp
    rw [this, ih, serial_snoc]
    rfl

theorem sortNat_ne_nil' (l : List Nat) (h : l ≠ []) : sortNat l ≠ [] := by
  cases l with
  | nil => exact absurd rfl h
  | cons x r =>
    unfold sortNat
    simp only [List.foldr_cons]
    generalize List.foldr insertSorted [] r = acc
    cases acc with
    | nil => simp [insertSorted]
    | cons y t => unfold insertSorted; split <;> simp

theorem waitIds_snoc_wait (outs : List Out) (id t : Nat) : waitIds (outs ++ [Out.waitRet id t]) = waitIds outs ++ [id] := by
  simp [waitIds, List.filterMap_append]
theorem waitIds_snoc_start (outs : List Out) (t : Nat) (a : List Nat) : waitIds (outs ++ [Out.start t a]) = waitIds outs := by
  simp [waitIds, List.filterMap_append]
theorem waitIds_snoc_fin (outs : List Out) (t : Nat) (b : Bool) : waitIds (outs ++ [Out.fin t b]) = waitIds outs := by
  simp [waitIds, List.filterMap_append]
theorem waitIds_waits (ws : List Waiter) (t : Nat) (outs : List Out) :
    waitIds (outs ++ ws.map fun w => Out.waitRet w.id t) = waitIds outs ++ ws.map (·.id) := by
  induction ws generalizing outs with
  | nil => simp
  | cons w r ih =>
    have : outs ++ List.map (fun w => Out.waitRet w.id t) (w :: r) =
        (outs ++ [Out.waitRet w.id t]) ++ List.map (fun w => Out.waitRet w.id t) r := by simp
    rw [this, ih, waitIds_snoc_wait]
    simp

theorem mem_insertSorted (x y : Nat) : ∀ (l : List Nat), x ∈ insertSorted y l ↔ x = y ∨ x ∈ l := by
  intro l
  induction l with
  | nil => simp [insertSorted]
  | cons z r ih =>
    unfold insertSorted
    split
    · simp
    · simp only [List.mem_cons, ih]
      constructor
      · rintro (h | h | h)
        · exact Or.inr (Or.inl h)
        · exact Or.inl h
        · exact Or.inr (Or.inr h)
      · rintro (h | h | h)
        · exact Or.inr (Or.inl h)
        · exact Or.inl h
        · exact Or.inr (Or.inr h)

theorem mem_sortNat (x : Nat) : ∀ (l : List Nat), x ∈ sortNat l ↔ x ∈ l := by
  intro l
  induction l with
  | nil => simp [sortNat]
  | cons y r ih =>
    have : sortNat (y :: r) = insertSorted y (sortNat r) := rfl
    rw [this, mem_insertSorted, ih]
    simp

theorem length_pos_of_ne_nil {α} {l : List α} (h : l ≠ []) : 0 < l.length := List.length_pos_iff.mpr h

macro "unfold_k" : tactic => `(tactic|
  simp only [Held, InRound, capItems, capOpen, gstate, Pc.roundEnd, Pc.isLoading, Pc.isLoadcap, Pc.isRunning, deliveredOf_snoc, deliveredOf_waits, stepOut, serial_snoc, serial_waits, stepSerial,
    waitIds_snoc_wait, waitIds_snoc_start, waitIds_snoc_fin, waitIds_waits, List.map_append, List.map_cons, List.map_nil,
    List.map_map, Function.comp_def, Option.getD_some, Option.getD_none, flat_nil, flat_cons,
    flat_append, List.mem_append, mem_addInputs, Option.map_some, Option.map_none, List.length_cons, List.length_nil,
    List.length_append, List.not_mem_nil, false_or, or_false, List.mem_cons, reduceCtorEq, if_true, if_false,
    Bool.and_true, Bool.and_false, Bool.true_and, Bool.false_and, bne_self_eq_false, beq_self_eq_true,
    Bool.false_eq_true, ne_eq, not_true_eq_false, not_false_eq_true, Option.some.injEq, false_implies, implies_true,
    true_implies, and_true, true_and, forall_const] at *)

macro "close_k" : tactic => `(tactic|
  (constructor <;> (try unfold_k) <;> (try subst_vars) <;> (try unfold_k) <;> intros <;>
   grind [flat_nil, flat_cons, flat_append, mem_sortNat, sortNat_ne_nil']))

set_option hygiene false in
macro "destruct_st" s:ident : tactic => `(tactic|
  rcases $s:ident with ⟨T, outcomes, now, queue, unfinished, event, pc, gens, inputs, pendingItems, getting, ninv, joiners,
    flaggers, outs, submitted, delivered, subTimes, lastSub, retLog, tie, daemonEnded, shutdownPhase⟩)

set_option maxHeartbeats 4000000 in
theorem zstep_idle_K (s : St) (p : Producer) (rest : List Producer) (h : K s) (hpc : s.pc = Pc.idle)
    (hq : s.queue = p :: rest) :
    K { s with queue := rest, event := false, unfinished := s.unfinished - 1, gens := [p], pc := .iter } := by
  destruct_st s
  obtain ⟨h1, h2, h3, h4, h5, h6, h7, h8, h9, h10, h11, h12, h13, h14, h15, h16, h17, h18, h19, h20, h21⟩ := h
  dsimp only at *
  subst hpc hq
  cases getting with
  | none => close_k
  | some g =>
    obtain ⟨dl, st, cap⟩ := g
    cases st <;> close_k


set_option hygiene false in
macro "split_getting" : tactic => `(tactic|
  (rcases getting with _ | ⟨dl, st, cap⟩ <;> (try cases st)))

macro "close_k'" : tactic => `(tactic|
  (constructor <;> (try unfold_k) <;> (try subst_vars) <;> (try unfold_k) <;> intros <;>
   grind [flat_nil, flat_cons, flat_append, List.mem_of_mem_take, mem_sortNat, sortNat_ne_nil']))


end AiutiVerif.Buffer
