import AiutiVerif.Buffer.Rest
import AiutiVerif.Buffer.Quiet
import AiutiVerif.Buffer.Waits
/-!
# The buffer machine always comes to rest   (C03 "eventually", C07 "wait() always returns")

`tick`: one move of the machine left alone (no further input) — a zero-time step of the background
task if one is enabled, else the earliest timed event.  `advance` (what `runProgram` uses to drain) is
a fuel- and horizon-bounded iteration of `tick` (`advance_is_ticks`).

`ticks_reach_rest`: from **every** state satisfying the invariants — hence after every program without
a shutdown — finitely many ticks lead to a state `AtRest`.  The measure is lexicographic:

1. the failures the wrapped function still has in store (`outcomes` from `ninv` on, plus the call in
   flight if it is going to fail) — the retry loop goes round once per failure;
2. the producers still queued, plus one for a producer captured by the timed read and not yet loaded;
3. the position inside one attempt (`rank`): `iter` > loading > deciding > awaiting the timed read
   > … > `idle`, with "the timed read is still pending" as the more significant digit.

Together with `rest_shape` / `C07_wait_always_returns`: left alone, the buffer delivers everything,
releases every `wait()` and goes back to sleep — unless the function fails for ever, which a finite
outcome script cannot express (after the script, calls succeed), or a producer never ends, which
a finite producer cannot express either.  Those two are exactly the property's provisos.
-/
namespace AiutiVerif.Buffer

def tick (s : St) : Option St :=
  match zstep s with
  | some s' => some s'
  | none =>
    match nextTimed s with
    | some (w, k) => some (fireTimed s w k)
    | none => none

def tickN : Nat → St → St
  | 0, s => s
  | n + 1, s =>
    match tick s with
    | some s' => tickN n s'
    | none => s

theorem tick_none_iff (s : St) : tick s = none ↔ AtRest s := by
  unfold tick AtRest
  cases hz : zstep s with
  | some s' => simp
  | none =>
    cases hn : nextTimed s with
    | none => simp
    | some p => obtain ⟨w, k⟩ := p; simp

/-! ## the measure -/

def failsLeft (s : St) : Nat := ((s.outcomes.drop s.ninv).filter (fun o => o.2 == false)).length

def m1 (s : St) : Nat :=
  failsLeft s + (match s.pc with | .running _ false => 1 | _ => 0)

def m2 (s : St) : Nat := s.queue.length + (if capOpen s then 1 else 0)

def isPending (s : St) : Bool :=
  match s.getting with
  | some g => g.state == GState.pending
  | none => false

def base : Pc → Nat
  | .iter => 200
  | .loading _ => 9
  | .decide => 8
  | .awaitget => 7
  | .loadcap _ => 7
  | .runfunc => 6
  | .running _ _ => 5
  | .endround => 4
  | .idle => 3

def rank (s : St) : Nat :=
  if s.pc = Pc.iter then 200 else (if isPending s then 100 else 0) + base s.pc

/-- lexicographic "smaller" on the three components -/
def Less (a b : St) : Prop :=
  m1 a < m1 b ∨ (m1 a = m1 b ∧ (m2 a < m2 b ∨ (m2 a = m2 b ∧ rank a < rank b)))

theorem less_of {a b : St} (h1 : m1 a ≤ m1 b) (h2 : m2 a ≤ m2 b) (h3 : rank a < rank b) : Less a b := by
  unfold Less
  omega

theorem less_of_m2 {a b : St} (h1 : m1 a ≤ m1 b) (h2 : m2 a < m2 b) : Less a b := by
  unfold Less
  omega

theorem less_of_m1 {a b : St} (h1 : m1 a < m1 b) : Less a b := Or.inl h1

/-! ### `wait()` callbacks do not increase the measure -/

theorem measure_cancelGetting (s : St) (w : Waiter) :
    m1 (cancelGetting s w) = m1 s ∧ m2 (cancelGetting s w) = m2 s ∧ rank (cancelGetting s w) ≤ rank s := by
  unfold cancelGetting
  split
  · rename_i g hg
    split
    · rename_i hc
      refine ⟨?_, ?_, ?_⟩
      · unfold m1 failsLeft; simp only []
        by_cases hp : s.pc = Pc.awaitget
        · simp [hp]
        · simp [hp]
      · unfold m2 capOpen; simp only [hg]
        simp [hc.2]
      · unfold rank isPending; simp only [hg]
        by_cases hp : s.pc = Pc.awaitget
        · simp [hp, hc.2, base]
        · simp only [hp, if_false]
          by_cases hi : s.pc = Pc.iter
          · simp [hi]
          · simp [hi, hc.2]
    · exact ⟨rfl, rfl, Nat.le_refl _⟩
  · exact ⟨rfl, rfl, Nat.le_refl _⟩

theorem measure_passJoin (s : St) (w : Waiter) :
    m1 (passJoin s w) = m1 s ∧ m2 (passJoin s w) = m2 s ∧ rank (passJoin s w) ≤ rank s := by
  obtain ⟨a, b, c⟩ := measure_cancelGetting s w
  unfold passJoin
  simp only []
  split
  · exact ⟨a, b, c⟩
  · exact ⟨a, b, c⟩

theorem measure_foldl_passJoin : ∀ (ws : List Waiter) (s : St),
    m1 (ws.foldl passJoin s) = m1 s ∧ m2 (ws.foldl passJoin s) = m2 s ∧ rank (ws.foldl passJoin s) ≤ rank s := by
  intro ws
  induction ws with
  | nil => intro s; exact ⟨rfl, rfl, Nat.le_refl _⟩
  | cons w r ih =>
    intro s
    simp only [List.foldl_cons]
    obtain ⟨a, b, c⟩ := ih (passJoin s w)
    obtain ⟨a', b', c'⟩ := measure_passJoin s w
    exact ⟨a.trans a', b.trans b', Nat.le_trans c c'⟩

theorem measure_checkJoin (s : St) :
    m1 (checkJoin s) = m1 s ∧ m2 (checkJoin s) = m2 s ∧ rank (checkJoin s) ≤ rank s := by
  unfold checkJoin
  split
  · exact measure_foldl_passJoin s.joiners { s with joiners := [] }
  · exact ⟨rfl, rfl, Nat.le_refl _⟩

variable {fc : Bool}

theorem m2_eq (s s' : St) (e1 : s'.queue = s.queue) (e2 : s'.getting = s.getting) (e3 : s'.pc ≠ Pc.iter)
    (e4 : s.pc ≠ Pc.iter) : m2 s' = m2 s := by
  unfold m2 capOpen
  rw [e1, e2]
  cases s.getting with
  | none => rfl
  | some g => simp [e3, e4]

theorem isPending_eq (s s' : St) (e : s'.getting = s.getting) : isPending s' = isPending s := by
  unfold isPending; rw [e]

theorem rank_eq (s : St) (b : Bool) (p : Pc) (hb : isPending s = b) (hp : s.pc = p) (hni : p ≠ Pc.iter) :
    rank s = (if b then 100 else 0) + base p := by
  unfold rank
  rw [hp, hb]
  simp [hni]

theorem not_pending_of_quiet (s : St) (h : gstate s ≠ some GState.pending) : isPending s = false := by
  unfold isPending
  cases hg : s.getting with
  | none => rfl
  | some g =>
    have : g.state ≠ GState.pending := by
      intro hst; exact h (by simp [gstate, hg, hst])
    simp [this]

theorem failsLeft_step (outcomes : List (Nat × Bool)) (n : Nat) :
    ((outcomes.drop (n + 1)).filter (fun o => o.2 == false)).length +
      (match (outcomes[n]?).getD (0, true) with | (_, false) => 1 | _ => 0) =
    ((outcomes.drop n).filter (fun o => o.2 == false)).length := by
  cases h : outcomes[n]? with
  | none =>
    have hl : outcomes.length ≤ n := by
      rcases Nat.lt_or_ge n outcomes.length with hlt | hge
      · rw [List.getElem?_eq_getElem hlt] at h; cases h
      · exact hge
    rw [List.drop_eq_nil_of_le hl, List.drop_eq_nil_of_le (Nat.le_succ_of_le hl)]
    simp
  | some o =>
    have hlt : n < outcomes.length := by
      rcases Nat.lt_or_ge n outcomes.length with hlt | hge
      · exact hlt
      · rw [List.getElem?_eq_none hge] at h; cases h
    have hd : outcomes.drop n = o :: outcomes.drop (n + 1) := by
      rw [List.getElem?_eq_getElem hlt] at h
      simp only [Option.some.injEq] at h
      rw [← h]
      exact List.drop_eq_getElem_cons hlt
    rw [hd]
    obtain ⟨d, ok⟩ := o
    cases ok <;> simp

theorem zstep_less (s s' : St) (hk : K s) (hl : L fc s) (hz : zstep s = some s') : Less s' s := by
  obtain ⟨⟨a, b, _⟩, _⟩ := hl
  unfold zstep at hz
  split at hz
  · cases hz
  · split at hz
    · -- idle: a producer leaves the queue
      rename_i hpc
      split at hz
      · cases hz
      · rename_i p rest hq
        simp only [Option.some.injEq] at hz
        subst hz
        have hquiet := hk.quietPc (by rw [hpc]; rfl)
        have hco : capOpen s = false := by
          unfold capOpen
          cases hg : s.getting with
          | none => rfl
          | some g =>
            have : g.state ≠ GState.got := by
              intro hst; exact hquiet.1 (by simp [gstate, hg, hst])
            simp [this]
        apply less_of_m2
        · simp [m1, failsLeft, hpc]
        · have h1 : m2 s = rest.length + 1 := by unfold m2; rw [hco, hq]; simp
          rw [h1]
          unfold m2 capOpen
          cases hg : s.getting with
          | none => simp
          | some g => simp
    · -- iter
      rename_i hpc
      simp only [Option.some.injEq] at hz
      subst hz
      obtain ⟨c1, c2, c3⟩ := measure_checkJoin { s with queue := [], unfinished := s.unfinished - s.queue.length, gens := [], getting := some { deadline := s.now + s.T, state := .pending, captured := [] }, pendingItems := ((s.gens ++ s.queue).map pitems).flatten, pc := .loading (maxUntil s.now (s.gens ++ s.queue)) }
      apply less_of
      · rw [c1]; simp [m1, failsLeft, hpc]
      · rw [c2]; simp [m2, capOpen]
      · refine Nat.lt_of_le_of_lt c3 ?_
        simp [rank, isPending, base, hpc]
    · -- decide
      rename_i hpc
      split at hz
      · cases hz
      · rename_i g hg
        split at hz <;> simp only [Option.some.injEq] at hz <;> subst hz
        · rename_i hst
          apply less_of
          · simp [m1, failsLeft, hpc]
          · simp [m2, capOpen, hg, hst, hpc]
          · simp [rank, isPending, base, hpc, hg, hst]
        · rename_i hst
          apply less_of
          · simp [m1, failsLeft, hpc]
          · simp [m2, capOpen, hg, hst, hpc]
          · simp [rank, isPending, base, hpc, hg, hst]
        · rename_i hst
          apply less_of
          · simp [m1, failsLeft, hpc]
          · simp [m2, capOpen, hg, hst, hpc]
          · simp [rank, isPending, base, hpc, hg, hst]
        · rename_i hst
          apply less_of
          · simp [m1, failsLeft, hpc]
          · simp [m2, capOpen, hg, hst, hpc]
          · simp [rank, isPending, base, hpc, hg, hst]
    · -- runfunc
      rename_i hpc
      have hquiet := hk.quietPc (by rw [hpc]; rfl)
      have hnp : isPending s = false := by
        unfold isPending
        cases hg : s.getting with
        | none => rfl
        | some g =>
          have : g.state ≠ GState.pending := by
            intro hst; exact hquiet.2 (by simp [gstate, hg, hst])
          simp [this]
      split at hz
      · simp only [Option.some.injEq] at hz
        subst hz
        apply less_of
        · simp [m1, failsLeft, hpc, setEvent]
        · exact Nat.le_of_eq (m2_eq s _ rfl rfl (by simp) (by rw [hpc]; simp))
        · have : isPending { setEvent s with pc := Pc.endround } = false := by
            simpa [isPending, setEvent] using hnp
          simp [rank, this, hnp, base, hpc]
      · simp only [Option.some.injEq] at hz
        subst hz
        have hf := failsLeft_step s.outcomes s.ninv
        apply less_of
        · unfold m1 failsLeft
          simp only [hpc]
          cases ho : (s.outcomes[s.ninv]?).getD (0, true) with
          | mk d ok =>
            rw [ho] at hf
            cases ok <;> simp at hf ⊢ <;> omega
        · exact Nat.le_of_eq (m2_eq s _ rfl rfl (by simp) (by rw [hpc]; simp))
        · have : ∀ u ok, isPending { s with ninv := s.ninv + 1, outs := s.outs ++ [Out.start s.now (sortNat s.inputs)], pc := .running u ok } = false := by
            intro u ok; simpa [isPending] using hnp
          simp [rank, this, hnp, base, hpc]
    · -- endround
      rename_i hpc
      simp only [Option.some.injEq] at hz
      subst hz
      have hquiet := hk.quietPc (by rw [hpc]; rfl)
      apply less_of
      · simp [m1, failsLeft, hpc]
      · exact Nat.le_of_eq (m2_eq s _ rfl rfl (by simp) (by rw [hpc]; simp))
      · have hnp : isPending s = false := by
          unfold isPending
          cases hg : s.getting with
          | none => rfl
          | some g =>
            have : g.state ≠ GState.pending := by
              intro hst; exact hquiet.2 (by simp [gstate, hg, hst])
            simp [this]
        have : isPending { s with pc := Pc.idle } = false := by simpa [isPending] using hnp
        simp [rank, this, hnp, base, hpc]
    · cases hz

theorem fireTimed_less (s : St) (when kind : Nat) (hk : K s) (hn : nextTimed s = some (when, kind)) :
    Less (fireTimed s when kind) s := by
  rcases nextTimed_spec s when kind hn with ⟨rfl, g, hg, hs, hp⟩ | ⟨rfl, ⟨u, hpc⟩ | ⟨u, hpc⟩ | ⟨u, ok, hpc⟩⟩
  · -- the timed read times out
    have hni : s.pc ≠ Pc.iter := by
      intro hi; exact hk.iterNotPending hi (by simp [gstate, hg, hs])
    unfold fireTimed
    simp only [if_true, hg]
    apply less_of
    · unfold m1 failsLeft; simp only []
      by_cases hpa : s.pc = Pc.awaitget
      · simp [hpa]
      · simp [hpa]
    · unfold m2 capOpen; simp only [hg]
      simp [hs]
    · unfold rank isPending; simp only [hg]
      by_cases hpa : s.pc = Pc.awaitget
      · simp [hpa, hs, base]
      · simp only [hpa, if_false, hni]
        simp [hs]
  · -- loading ends
    unfold fireTimed
    simp only [Nat.succ_ne_zero, if_false, hpc]
    apply less_of
    · simp [m1, failsLeft, hpc]
    · exact Nat.le_of_eq (m2_eq s _ rfl rfl (by simp) (by rw [hpc]; simp))
    · have : isPending { s with now := max s.now when, inputs := addInputs s.inputs s.pendingItems, pendingItems := [], pc := Pc.decide } = isPending s := isPending_eq _ _ rfl
      simp [rank, this, base, hpc]
  · -- the captured producer is loaded
    obtain ⟨hgot, _⟩ := hk.capLoad (by rw [hpc]; rfl)
    unfold fireTimed
    simp only [Nat.succ_ne_zero, if_false, hpc]
    apply less_of_m2
    · simp [m1, failsLeft, hpc]
    · have h1 : capOpen s = true := by
        unfold capOpen
        cases hg : s.getting with
        | none => simp [gstate, hg] at hgot
        | some g =>
          have : g.state = GState.got := by simpa [gstate, hg] using hgot
          simp [this, hpc]
      unfold m2
      rw [h1]
      simp [capOpen]
      cases s.getting <;> simp
  · -- the call ends
    have hquiet := hk.quietPc (by rw [hpc]; rfl)
    have hnp := not_pending_of_quiet s hquiet.2
    unfold fireTimed
    simp only [Nat.succ_ne_zero, if_false, hpc]
    cases ok with
    | true =>
      simp only [if_true]
      apply less_of
      · simp [m1, failsLeft, hpc, setEvent]
      · exact Nat.le_of_eq (m2_eq s _ rfl rfl (by simp) (by rw [hpc]; simp))
      · have key : ∀ s' : St, s'.getting = s.getting → s'.pc = Pc.endround → rank s' < rank s := by
          intro s' e1 e2
          rw [rank_eq s false _ hnp hpc (by simp), rank_eq s' false Pc.endround ((isPending_eq s s' e1).trans hnp) e2 (by simp)]
          simp [base]
        exact key _ rfl rfl
    | false =>
      simp only [Bool.false_eq_true, if_false]
      apply less_of_m1
      simp [m1, failsLeft, hpc]

/-! ## termination -/

theorem tickN_succ_some (n : Nat) (s s' : St) (ht : tick s = some s') : tickN (n + 1) s = tickN n s' := by
  conv => lhs; unfold tickN
  rw [ht]

theorem tickN_none (n : Nat) (s : St) (ht : tick s = none) : tickN n s = s := by
  cases n with
  | zero => rfl
  | succ j => conv => lhs; unfold tickN
              rw [ht]


theorem tick_inv_less (s s' : St) (hk : K s) (hl : L fc s) (ht : tick s = some s') :
    K s' ∧ L fc s' ∧ Less s' s := by
  unfold tick at ht
  cases hz : zstep s with
  | some s1 =>
    rw [hz] at ht
    simp only [Option.some.injEq] at ht
    subst ht
    exact ⟨zstep_K s s1 hk hz, L_zstep s s1 hk hl hz, zstep_less s s1 hk hl hz⟩
  | none =>
    rw [hz] at ht
    simp only [] at ht
    cases hn : nextTimed s with
    | none => rw [hn] at ht; cases ht
    | some p =>
      obtain ⟨w, k⟩ := p
      rw [hn] at ht
      simp only [Option.some.injEq] at ht
      subst ht
      exact ⟨fireTimed_K s w k hk hn, L_fireTimed s w k hl, fireTimed_less s w k hk hn⟩

def mu (s : St) : Nat × Nat × Nat := (m1 s, m2 s, rank s)

theorem less_iff_lex (a b : St) : Less a b ↔ Prod.Lex (· < ·) (Prod.Lex (· < ·) (· < ·)) (mu a) (mu b) := by
  unfold Less mu
  simp only [Prod.lex_def]

theorem lex_wf : WellFounded (Prod.Lex (fun a b : Nat => a < b) (Prod.Lex (fun a b : Nat => a < b) (fun a b : Nat => a < b))) :=
  (Prod.lex Nat.lt_wfRel (Prod.lex Nat.lt_wfRel Nat.lt_wfRel)).wf

/-- **The machine always comes to rest.**  From every state satisfying the invariants, finitely many
moves lead to a state in which nothing can move. -/
theorem ticks_reach_rest (s : St) (hk : K s) (hl : L fc s) : ∃ n, AtRest (tickN n s) ∧ K (tickN n s) ∧ L fc (tickN n s) := by
  have key : ∀ m : Nat × Nat × Nat, ∀ s : St, mu s = m → K s → L fc s →
      ∃ n, AtRest (tickN n s) ∧ K (tickN n s) ∧ L fc (tickN n s) := by
    intro m
    induction m using lex_wf.induction with
    | _ m ih =>
      intro s hm hk hl
      cases ht : tick s with
      | none => exact ⟨0, (tick_none_iff s).mp ht, hk, hl⟩
      | some s' =>
        obtain ⟨hk', hl', hless⟩ := tick_inv_less s s' hk hl ht
        have hlex := (less_iff_lex s' s).mp hless
        rw [hm] at hlex
        obtain ⟨n, hn⟩ := ih (mu s') hlex s' rfl hk' hl'
        exact ⟨n + 1, by rw [tickN_succ_some n s s' ht]; exact hn⟩
  exact key (mu s) s rfl hk hl

/-! ## `advance` iterates `tick` -/

theorem settle_is_ticks : ∀ (fuel : Nat) (s : St), ∃ k, settle fuel s = tickN k s := by
  intro fuel
  induction fuel with
  | zero => intro s; exact ⟨0, rfl⟩
  | succ n ih =>
    intro s
    unfold settle
    cases hz : zstep s with
    | none => exact ⟨0, rfl⟩
    | some s' =>
      obtain ⟨k, hk⟩ := ih s'
      have ht : tick s = some s' := by unfold tick; rw [hz]
      exact ⟨k + 1, by rw [tickN_succ_some k s s' ht]; exact hk⟩

theorem tickN_add : ∀ (a b : Nat) (s : St), ∃ k, tickN b (tickN a s) = tickN k s := by
  intro a
  induction a with
  | zero => intro b s; exact ⟨b, rfl⟩
  | succ n ih =>
    intro b s
    cases ht : tick s with
    | none => exact ⟨0, by rw [tickN_none _ s ht, tickN_none _ s ht]; rfl⟩
    | some s' =>
      obtain ⟨k, hk⟩ := ih b s'
      exact ⟨k + 1, by rw [tickN_succ_some n s s' ht, tickN_succ_some k s s' ht]; exact hk⟩

/-- what `runProgram` uses to drain the machine is a (fuel- and horizon-bounded) iteration of `tick` -/
theorem advance_is_ticks : ∀ (fuel t : Nat) (strict : Bool) (s : St), ∃ k, advance fuel t strict s = tickN k s := by
  intro fuel
  induction fuel with
  | zero => intro t b s; exact settle_is_ticks _ s
  | succ n ih =>
    intro t b s
    unfold advance
    simp only []
    obtain ⟨k1, h1⟩ := settle_is_ticks fuelDefault s
    split
    · exact ⟨k1, h1⟩
    · rename_i when kind hn
      split
      · obtain ⟨k2, h2⟩ := ih t b (fireTimed (settle fuelDefault s) when kind)
        rw [h2]
        -- one more tick from the settled state is the timed event: no zero-time step is enabled there
        have ht : tick (settle fuelDefault s) = some (fireTimed (settle fuelDefault s) when kind) := by
          unfold tick
          rw [settle_default_fix s, hn]
        have h3 : tickN k2 (fireTimed (settle fuelDefault s) when kind) = tickN (k2 + 1) (settle fuelDefault s) :=
          (tickN_succ_some k2 _ _ ht).symm
        rw [h3, h1]
        exact tickN_add k1 (k2 + 1) s
      · exact ⟨k1, h1⟩

/-! ## what the moves leave alone -/

theorem zstep_submitted (x x' : St) (h : zstep x = some x') : x'.submitted = x.submitted := by
  unfold zstep at h
  split at h
  · cases h
  · cases hpc : x.pc <;> simp only [hpc] at h
    · cases hq : x.queue <;> simp only [hq] at h
      · cases h
      · simp only [Option.some.injEq] at h; subst h; rfl
    · simp only [Option.some.injEq] at h; subst h
      exact (show (checkJoin _).submitted = _ from by
        unfold checkJoin
        split
        · have : ∀ (ws : List Waiter) (y : St), (ws.foldl passJoin y).submitted = y.submitted := by
            intro ws
            induction ws with
            | nil => intro y; rfl
            | cons w r ih => intro y; simp only [List.foldl_cons]; rw [ih, (passJoin_frame y w).2.1]
          rw [this]
        · rfl)
    · cases h
    · cases hg : x.getting <;> simp only [hg] at h
      · cases h
      · rename_i g; cases hst : g.state <;> simp only [hst, Option.some.injEq] at h <;> subst h <;> rfl
    · cases h
    · cases h
    · split at h <;> simp only [Option.some.injEq] at h <;> subst h <;> rfl
    · cases h
    · simp only [Option.some.injEq] at h; subst h; rfl

theorem fireTimed_submitted (x : St) (w k : Nat) : (fireTimed x w k).submitted = x.submitted := by
  unfold fireTimed
  simp only []
  split
  · split <;> rfl
  · split
    · rfl
    · rfl
    · rename_i u ok _; cases ok <;> rfl
    · rfl

theorem tick_frame (s s' : St) (ht : tick s = some s') : s'.submitted = s.submitted ∧ Sub s s' := by
  unfold tick at ht
  cases hz : zstep s with
  | some s1 =>
    rw [hz] at ht
    simp only [Option.some.injEq] at ht
    subst ht
    exact ⟨zstep_submitted s s1 hz, Sub_zstep s s1 hz⟩
  | none =>
    rw [hz] at ht
    simp only [] at ht
    cases hn : nextTimed s with
    | none => rw [hn] at ht; cases ht
    | some p =>
      obtain ⟨w, k⟩ := p
      rw [hn] at ht
      simp only [Option.some.injEq] at ht
      subst ht
      exact ⟨fireTimed_submitted s w k, Sub_fireTimed s w k⟩

theorem tickN_frame : ∀ (n : Nat) (s : St), (tickN n s).submitted = s.submitted ∧ Sub s (tickN n s) := by
  intro n
  induction n with
  | zero => intro s; exact ⟨rfl, Sub.refl s⟩
  | succ n ih =>
    intro s
    cases ht : tick s with
    | none => rw [tickN_none _ s ht]; exact ⟨rfl, Sub.refl s⟩
    | some s' =>
      rw [tickN_succ_some n s s' ht]
      obtain ⟨a, b⟩ := tick_frame s s' ht
      obtain ⟨c, d⟩ := ih s'
      exact ⟨c.trans a, Sub.trans b d⟩

end AiutiVerif.Buffer
