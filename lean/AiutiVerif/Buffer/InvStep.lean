import AiutiVerif.Buffer.Invariant
/-! Preservation of the buffer invariant `K` by the daemon's zero-time steps and by timed events. -/
namespace AiutiVerif.Buffer

set_option maxHeartbeats 16000000 in
theorem zstep_iter_core (s : St) (h : K s) (hpc : s.pc = Pc.iter) :
    K { s with queue := [], unfinished := s.unfinished - s.queue.length, gens := [],
               getting := some { deadline := s.now + s.T, state := .pending, captured := [] },
               pendingItems := ((s.gens ++ s.queue).map pitems).flatten,
               pc := .loading (maxUntil s.now (s.gens ++ s.queue)) } := by
  have hfl : ((s.gens ++ s.queue).map pitems).flatten = flat s.gens ++ flat s.queue := by simp [flat]
  rw [hfl]
  destruct_st s
  obtain ⟨h1, h2, h3, h4, h5, h6, h7, h8, h9, h10, h11, h12, h13, h14, h15, h16, h17, h18, h19, h20, h21⟩ := h
  dsimp only at *
  subst hpc
  split_getting <;> close_k'

set_option maxHeartbeats 16000000 in
theorem zstep_decide_K (s : St) (g : Getting) (h : K s) (hpc : s.pc = Pc.decide) (hg : s.getting = some g) :
    K (match g.state with
       | .got => { s with pc := .loadcap (s.now + pdur g.captured), pendingItems := pitems g.captured }
       | .timedout => { s with pc := .runfunc }
       | .cancelled => { s with pc := .runfunc }
       | .pending => { s with pc := .awaitget }) := by
  destruct_st s
  obtain ⟨h1, h2, h3, h4, h5, h6, h7, h8, h9, h10, h11, h12, h13, h14, h15, h16, h17, h18, h19, h20, h21⟩ := h
  dsimp only at *
  subst hpc hg
  obtain ⟨dl, st, cap⟩ := g
  cases st <;> dsimp only <;> close_k'

set_option maxHeartbeats 16000000 in
theorem zstep_runfunc_empty_K (s : St) (h : K s) (hpc : s.pc = Pc.runfunc) (he : s.inputs = []) :
    K { setEvent s with pc := .endround } := by
  unfold setEvent
  destruct_st s
  obtain ⟨h1, h2, h3, h4, h5, h6, h7, h8, h9, h10, h11, h12, h13, h14, h15, h16, h17, h18, h19, h20, h21⟩ := h
  dsimp only at *
  subst hpc he
  split_getting <;> close_k'

set_option maxHeartbeats 16000000 in
theorem zstep_runfunc_call_K (s : St) (h : K s) (hpc : s.pc = Pc.runfunc) (hne : s.inputs ≠ []) (u : Nat) (ok : Bool) :
    K { s with ninv := s.ninv + 1, outs := s.outs ++ [Out.start s.now (sortNat s.inputs)], pc := .running u ok } := by
  destruct_st s
  obtain ⟨h1, h2, h3, h4, h5, h6, h7, h8, h9, h10, h11, h12, h13, h14, h15, h16, h17, h18, h19, h20, h21⟩ := h
  dsimp only at *
  subst hpc
  split_getting <;> close_k'

set_option maxHeartbeats 16000000 in
theorem zstep_endround_K (s : St) (h : K s) (hpc : s.pc = Pc.endround) : K { s with pc := .idle } := by
  destruct_st s
  obtain ⟨h1, h2, h3, h4, h5, h6, h7, h8, h9, h10, h11, h12, h13, h14, h15, h16, h17, h18, h19, h20, h21⟩ := h
  dsimp only at *
  subst hpc
  split_getting <;> close_k'


theorem zstep_K (s s' : St) (h : K s) (hz : zstep s = some s') : K s' := by
  unfold zstep at hz
  split at hz
  · rename_i hd; rw [h.alive] at hd; cases hd
  · cases hpc : s.pc with
    | idle =>
      simp only [hpc] at hz
      cases hq : s.queue with
      | nil => simp [hq] at hz
      | cons p rest =>
        simp only [hq, Option.some.injEq] at hz
        subst hz
        exact zstep_idle_K s p rest h hpc hq
    | iter =>
      simp only [hpc, Option.some.injEq] at hz
      subst hz
      exact checkJoin_K _ (zstep_iter_core s h hpc)
    | decide =>
      simp only [hpc] at hz
      cases hg : s.getting with
      | none => simp [hg] at hz
      | some g =>
        simp only [hg] at hz
        have := zstep_decide_K s g h hpc hg
        cases hst : g.state <;> simp only [hst, Option.some.injEq] at hz this <;> subst hz <;> (rw [hg] at this; exact this)
    | runfunc =>
      simp only [hpc] at hz
      split at hz
      · rename_i he
        simp only [Option.some.injEq] at hz
        subst hz
        exact zstep_runfunc_empty_K s h hpc (by simpa using he)
      · rename_i he
        simp only [Option.some.injEq] at hz
        subst hz
        exact zstep_runfunc_call_K s h hpc (by simpa using he) _ _
    | endround =>
      simp only [hpc, Option.some.injEq] at hz
      subst hz
      exact zstep_endround_K s h hpc
    | loading u => simp [hpc] at hz
    | awaitget => simp [hpc] at hz
    | loadcap u => simp [hpc] at hz
    | running u ok => simp [hpc] at hz

theorem settle_K : ∀ (fuel : Nat) (s : St), K s → K (settle fuel s) := by
  intro fuel
  induction fuel with
  | zero => intro s h; exact h
  | succ n ih =>
    intro s h
    unfold settle
    cases hz : zstep s with
    | none => exact h
    | some s' => exact ih s' (zstep_K s s' h hz)


/-! ### timed events -/

theorem nextTimed_spec (s : St) (when kind : Nat) (hn : nextTimed s = some (when, kind)) :
    (kind = 0 ∧ ∃ g, s.getting = some g ∧ g.state = GState.pending ∧ s.pc ≠ Pc.idle) ∨
    (kind = 1 ∧ ((∃ u, s.pc = Pc.loading u) ∨ (∃ u, s.pc = Pc.loadcap u) ∨ (∃ u ok, s.pc = Pc.running u ok))) := by
  destruct_st s
  unfold nextTimed at hn
  dsimp only at *
  rcases getting with _ | ⟨dl, st, cap⟩ <;> (try cases st) <;> cases pc <;> cases daemonEnded <;>
    simp at hn ⊢ <;> (try split at hn) <;> simp_all


set_option maxHeartbeats 16000000 in
theorem fireTimed0_K (s : St) (when : Nat) (g : Getting) (h : K s) (hg : s.getting = some g)
    (hs : g.state = GState.pending) (hp : s.pc ≠ Pc.idle) : K (fireTimed s when 0) := by
  unfold fireTimed
  destruct_st s
  obtain ⟨h1, h2, h3, h4, h5, h6, h7, h8, h9, h10, h11, h12, h13, h14, h15, h16, h17, h18, h19, h20, h21⟩ := h
  dsimp only at *
  subst hg
  obtain ⟨dl, st, cap⟩ := g
  dsimp only at hs
  subst hs
  simp only [↓reduceIte]
  cases pc <;> simp only [reduceCtorEq, ↓reduceIte] <;> close_k'

set_option maxHeartbeats 16000000 in
theorem fireTimed1_loading_K (s : St) (when u : Nat) (h : K s) (hpc : s.pc = Pc.loading u) : K (fireTimed s when 1) := by
  unfold fireTimed
  destruct_st s
  obtain ⟨h1, h2, h3, h4, h5, h6, h7, h8, h9, h10, h11, h12, h13, h14, h15, h16, h17, h18, h19, h20, h21⟩ := h
  dsimp only at *
  subst hpc
  simp only [Nat.one_ne_zero, ↓reduceIte]
  split_getting <;> close_k'

set_option maxHeartbeats 16000000 in
theorem fireTimed1_loadcap_K (s : St) (when u : Nat) (h : K s) (hpc : s.pc = Pc.loadcap u) : K (fireTimed s when 1) := by
  unfold fireTimed
  destruct_st s
  obtain ⟨h1, h2, h3, h4, h5, h6, h7, h8, h9, h10, h11, h12, h13, h14, h15, h16, h17, h18, h19, h20, h21⟩ := h
  dsimp only at *
  subst hpc
  simp only [Nat.one_ne_zero, ↓reduceIte]
  split_getting <;> close_k'

set_option maxHeartbeats 16000000 in
theorem fireTimed1_running_K (s : St) (when u : Nat) (ok : Bool) (h : K s) (hpc : s.pc = Pc.running u ok) :
    K (fireTimed s when 1) := by
  unfold fireTimed setEvent
  destruct_st s
  obtain ⟨h1, h2, h3, h4, h5, h6, h7, h8, h9, h10, h11, h12, h13, h14, h15, h16, h17, h18, h19, h20, h21⟩ := h
  dsimp only at *
  subst hpc
  simp only [Nat.one_ne_zero, ↓reduceIte]
  cases ok <;> simp only [Bool.false_eq_true, ↓reduceIte] <;> split_getting <;> close_k'

theorem fireTimed_K (s : St) (when kind : Nat) (h : K s) (hn : nextTimed s = some (when, kind)) :
    K (fireTimed s when kind) := by
  rcases nextTimed_spec s when kind hn with ⟨rfl, g, hg, hs, hp⟩ | ⟨rfl, ⟨u, hpc⟩ | ⟨u, hpc⟩ | ⟨u, ok, hpc⟩⟩
  · exact fireTimed0_K s when g h hg hs hp
  · exact fireTimed1_loading_K s when u h hpc
  · exact fireTimed1_loadcap_K s when u h hpc
  · exact fireTimed1_running_K s when u ok h hpc

theorem advance_K : ∀ (fuel t : Nat) (strict : Bool) (s : St), K s → K (advance fuel t strict s) := by
  intro fuel
  induction fuel with
  | zero => intro t strict s h; exact settle_K fuelDefault s h
  | succ n ih =>
    intro t strict s h
    unfold advance
    simp only []
    have hs := settle_K fuelDefault s h
    split
    · exact hs
    · rename_i when kind hn
      split
      · exact ih t strict _ (fireTimed_K _ when kind hs hn)
      · exact hs


/-! ### inputs -/

theorem K_now (s : St) (n : Nat) (b : Bool) (h : K s) : K { s with now := n, tie := b } :=
  ⟨h.alive, h.conserve, h.only, h.gensIter, h.pendPc, h.capDone, h.capLoad, h.quietPc, h.iterNotPending, h.unfin,
   h.evRound, h.flagEv, h.flagOk, h.joinOk, h.retOk, h.idleInputs, h.outsDeliv, h.outsCur, h.outsWaits, h.serialOk, h.startsOk⟩

theorem arrive_K (s : St) (t : Nat) (h : K s) : K (arrive s t) := by
  unfold arrive
  split
  · exact h
  · exact K_now _ _ _ (advance_K fuelDefault t true s h)

set_option maxHeartbeats 32000000 in
theorem submit_core_K (s : St) (p : Producer) (h : K s) :
    K (let s := { s with event := false, unfinished := s.unfinished + 1, submitted := s.submitted ++ pitems p, subTimes := s.subTimes ++ [s.now], lastSub := s.now }
       if s.pc = Pc.idle then { s with queue := s.queue ++ [p] }
       else match s.getting with
         | some g =>
           if g.state = GState.pending then
             { s with getting := some { g with state := .got, captured := p },
                      pc := if s.pc = Pc.awaitget then Pc.decide else s.pc }
           else { s with queue := s.queue ++ [p] }
         | none => { s with queue := s.queue ++ [p] }) := by
  destruct_st s
  obtain ⟨h1, h2, h3, h4, h5, h6, h7, h8, h9, h10, h11, h12, h13, h14, h15, h16, h17, h18, h19, h20, h21⟩ := h
  dsimp only at *
  split_getting <;> cases pc <;> simp only [reduceCtorEq, ↓reduceIte] <;> close_k'

set_option maxHeartbeats 32000000 in
theorem fput_core_K (s : St) (p : Producer) (h : K s) :
    K (let s := { s with unfinished := s.unfinished + 1, submitted := s.submitted ++ pitems p, subTimes := s.subTimes ++ [s.now], lastSub := s.now }
       if s.pc = Pc.idle then { s with queue := s.queue ++ [p] }
       else match s.getting with
         | some g =>
           if g.state = GState.pending then
             { s with getting := some { g with state := .got, captured := p },
                      pc := if s.pc = Pc.awaitget then Pc.decide else s.pc }
           else { s with queue := s.queue ++ [p] }
         | none => { s with queue := s.queue ++ [p] }) := by
  destruct_st s
  obtain ⟨h1, h2, h3, h4, h5, h6, h7, h8, h9, h10, h11, h12, h13, h14, h15, h16, h17, h18, h19, h20, h21⟩ := h
  dsimp only at *
  split_getting <;> cases pc <;> simp only [reduceCtorEq, ↓reduceIte] <;> close_k'

theorem fclear_K (s : St) (h : K s) : K { s with event := false } :=
  ⟨h.alive, h.conserve, h.only, h.gensIter, h.pendPc, h.capDone, h.capLoad, h.quietPc, h.iterNotPending, h.unfin,
   (fun he => by cases he), (fun _ => rfl), h.flagOk, h.joinOk, h.retOk, h.idleInputs, h.outsDeliv, h.outsCur,
   h.outsWaits, h.serialOk, h.startsOk⟩

theorem wait_core_K (s : St) (w : Waiter) (h : K s) (hb : w.before ≤ s.submitted.length) :
    K (if s.unfinished = 0 then passJoin s w else { s with joiners := s.joiners ++ [w] }) := by
  split
  · rename_i hu
    exact passJoin_K s w h hu hb
  · refine ⟨h.alive, h.conserve, h.only, h.gensIter, h.pendPc, h.capDone, h.capLoad, h.quietPc, h.iterNotPending,
      h.unfin, h.evRound, h.flagEv, h.flagOk, ?_, h.retOk, h.idleInputs, h.outsDeliv, h.outsCur, h.outsWaits, h.serialOk, h.startsOk⟩
    intro w' hw'
    rcases List.mem_append.mp hw' with hw' | hw'
    · exact h.joinOk w' hw'
    · simp only [List.mem_singleton] at hw'; subst hw'; exact hb

def In.isShutdown : In → Bool
  | .shutdown _ => true
  | _ => false

theorem applyIn_K (s : St) (i : In) (h : K s) (hi : i.isShutdown = false) : K (applyIn s i) := by
  unfold applyIn
  have ha := arrive_K s i.time h
  generalize arrive s i.time = s1 at ha
  cases i with
  | submit t p => exact submit_core_K s1 p ha
  | wait t id cancel => exact wait_core_K s1 _ ha (Nat.le_refl _)
  | shutdown t => cases hi
  | fclear t => exact fclear_K s1 ha
  | fput t p => exact fput_core_K s1 p ha

theorem foldl_applyIn_K : ∀ (ins : List In) (s : St), K s → (∀ i ∈ ins, i.isShutdown = false) →
    K (ins.foldl applyIn s) := by
  intro ins
  induction ins with
  | nil => intro s h _; exact h
  | cons i r ih =>
    intro s h hi
    simp only [List.foldl_cons]
    exact ih _ (applyIn_K s i h (hi i (by simp))) (fun j hj => hi j (List.mem_cons_of_mem _ hj))

theorem runProgram_K (s : St) (ins : List In) (h : K s) (hi : ∀ i ∈ ins, i.isShutdown = false) :
    K (runProgram s ins) := by
  unfold runProgram
  exact advance_K _ _ _ _ (foldl_applyIn_K ins s h hi)

/-- A freshly constructed buffer. -/
def Fresh (s : St) : Prop :=
  s.daemonEnded = false ∧ s.queue = [] ∧ s.unfinished = 0 ∧ s.event = true ∧ s.pc = Pc.idle ∧ s.gens = [] ∧
  s.inputs = [] ∧ s.pendingItems = [] ∧ s.getting = none ∧ s.joiners = [] ∧ s.flaggers = [] ∧ s.submitted = [] ∧
  s.delivered = [] ∧ s.retLog = [] ∧ s.outs = []

theorem K_fresh (s : St) (h : Fresh s) : K s := by
  destruct_st s
  obtain ⟨a1, a2, a3, a4, a5, a6, a7, a8, a9, a10, a11, a12, a13, a14, a15⟩ := h
  dsimp only at *
  subst_vars
  constructor <;> simp [Held, InRound, capItems, capOpen, gstate, Pc.roundEnd, Pc.isLoading, Pc.isLoadcap, Pc.isRunning, flat,
    deliveredOf, waitIds, serial]

end AiutiVerif.Buffer
