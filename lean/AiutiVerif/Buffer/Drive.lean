import AiutiVerif.Core.Wire
import AiutiVerif.Buffer.Model
import AiutiVerif.Buffer.RestDef
/-! Driver glue for the buffer model. -/
namespace AiutiVerif.Buffer
open AiutiVerif.Wire

/-- producer: `d.x` steps joined by `+`, `x` = `F` for failure; empty producer = `e` -/
def decProducer (s : String) : Option Producer :=
  if s == "e" then some [] else
    (s.splitOn "+").mapM fun st =>
      match st.splitOn "." with
      | [d, x] => match d.toNat? with
        | some d => if x == "F" then some (d, none) else x.toNat?.map fun x => (d, some x)
        | none => none
      | _ => none

def decIn (s : String) : Option In :=
  match s.splitOn ":" with
  | ["s", t, p] => match t.toNat?, decProducer p with
    | some t, some p => some (.submit t p)
    | _, _ => none
  | ["x", t] => t.toNat?.map In.shutdown
  | ["w", t, id, c] => match t.toNat?, id.toNat?, c.toNat? with
    | some t, some id, some c => some (.wait t id (c != 0))
    | _, _, _ => none
  | _ => none

def encOut : Out → String
  | .start t args => s!"S:{t}:" ++ ".".intercalate (args.map toString)
  | .fin t ok => s!"E:{t}:{if ok then 1 else 0}"
  | .waitRet id t => s!"W:{t}:{id}"

/-- `buf T=1024 outcomes=0.1,512.0 ins=s:1:0.5;w:3:0:1` -/
def drive (fs : List (String × String)) : String :=
  match getNat fs "T", get fs "outcomes", get fs "ins" with
  | some T, some ocs, some insS =>
    let outcomes? : Option (List (Nat × Bool)) :=
      if ocs.isEmpty then some [] else
        (ocs.splitOn ",").mapM fun e => match e.splitOn "." with
          | [d, ok] => match d.toNat?, ok.toNat? with
            | some d, some ok => some (d, ok != 0)
            | _, _ => none
          | _ => none
    let ins? : Option (List In) := if insS.isEmpty then some [] else (insS.splitOn ";").mapM decIn
    match outcomes?, ins? with
    | some outcomes, some ins =>
      let s := runProgram { T := T, outcomes := outcomes } ins
      s!"tie={if s.tie then 1 else 0} ended={if s.daemonEnded then 1 else 0} phase={s.shutdownPhase} rest={if atRest s then 1 else 0} pendingwaits=" ++ showNats ((s.joiners ++ s.flaggers).map (·.id)) ++
        " undelivered=" ++ showNats (sortNat s.inputs) ++
        " outs=" ++ ";".intercalate (s.outs.map encOut)
    | _, _ => "bad-op"
  | _, _, _ => "bad-op"

end AiutiVerif.Buffer
